#!/bin/bash
# usage: eval_mutant.sh <ID> <worktree> [check-id...]   confirm a sub-agent's mutant and run our checks against it
ID=$1; WT=$2; shift 2; CHECKS=${@:-$ID}
set -u
cd "$WT" || exit 2
git status --short | grep -v "MUTANT\|tests/" 
echo "== apply + suite"; git apply MUTANT/patch.diff || exit 2
mkdir -p /dev/shm/demo-$ID; DEMO=$(ls crates/erbium-core/tests/*.rs 2>/dev/null | head -1)
SUITE=$(cargo nextest run -j 6 --workspace --no-fail-fast --offline 2>&1 | grep "Summary" | tail -1); echo "suite with mutant: $SUITE"
echo "== demo with mutant"; cargo test -j 6 -p erbium-core --features verif --offline --test mutant_demo 2>&1 | grep "test result" | tail -1
git apply -R MUTANT/patch.diff
echo "== demo without mutant"; cargo test -j 6 -p erbium-core --features verif --offline --test mutant_demo 2>&1 | grep "test result" | tail -1
echo "== our checks"
git -C /repo apply "$WT/MUTANT/patch.diff" || exit 2
for c in $CHECKS; do (cd /verif && ./check $c quick 2>&1 | grep -v "^proptest" | tail -3 | cut -c1-500); done
git -C /repo checkout -- . ; git -C /repo status --short
