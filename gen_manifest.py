#!/usr/bin/env python3
"""Regenerates MANIFEST.json from the table below (keeps it valid at all times)."""
import json, subprocess

HOOK_COMMITS = ["5813a3f", "8aaeb31", "49a079c", "e25d13c"]

# id -> (engine, technique, level category, level text, level note, design ref)
CHECKS = {
 "C01": ("HIST", "model-based property testing: generated DHCP histories, grant-ledger invariant (proptest, shrunk to replay)", "exploration",
         "Every generated history of DISCOVER/REQUEST x clock advance x pool change x reopen kept the invariant that no address is granted to a client while the harness's ledger shows another client's unexpired grant. Exploration: held on everything generated; says nothing about ungenerated histories.",
         "Trusted: the harness ledger and identity rule; H2 time-shift equivalence (pool only compares stored times with now); SQLite. Server-internal task interleaving is not enumerated; it is exercised by the wire-race tier of the same command (2..32 clients racing in bursts of back-to-back frames for a pool of 1..6 addresses against the real erbium-dhcp; oracle: address -> client is a function over all captured OFFER/ACK frames and agrees with the store; needs namespaces).", "3/C01"),
 "C09": ("HIST", "model-based property testing: pre/post-state relation on the observed lease table over generated histories", "exploration",
         "For every generated step the reply satisfies the keep-your-address relation computed from the lease table observed before the call; refusals only when every pool address is held unexpired by someone else.",
         "Trusted: harness reading of the table via get_leases. In the second in which a lease expires only the reading-independent part is judged (a refusal needs every pool address held by another client whose lease may still be running); a message naming two different addresses (ciaddr and option 50) names neither. The same command enumerates pools of 1..150 addresses (thorough: every size to 200) with every address but one held, over every position of the free address.", "3/C09"),
 "C10": ("HIST", "property testing over generated histories: bounds + reply/record relation", "exploration",
         "Every successful reply in every generated history carries option 51 within [300,86400] and the stored row runs exactly that long and does not expire early.",
         "Bounds are the tree's defaults (the config keys that would change them are parsed but unused). A third of the generated requests carry the client's own lease-time wish on either side of the bounds. A second sub-check runs generated policy trees whose apply-* options include lease-time (value / null / values on both sides of the bounds) against parameter lists with and without 51 (also renewal-time, rebind-time and ipv6-preferred). A third holds the lease file from another connection (write reservation / open read transaction) while the pool allocates: a lease it reports has its record. The same command also captures OFFER/ACK frames from the real erbium-dhcp over a veth pair and compares option 51 with the database row (wire tier; needs namespaces).", "3/C10"),
 "C13": ("HIST", "property testing: frame condition (table before == after unless replied) over generated messages of every type", "exploration",
         "For every generated message of any type / server-id kind on generated lease states: no reply => table unchanged; reply => only for DISCOVER/REQUEST meant for us, only the yiaddr row touched, header echoed, server-id ours.",
         "Malformed server-id lengths and server-id inside DISCOVER are unconstrained (statement silent). A second sub-check runs generated policy trees (apply-server-id as address / null, option values up to the longest an option can carry) against requests with parameter lists of any codes and a maximum message size (option 57): every reply carries a server identifier naming this server, and a message that is not answered leaves the store unchanged.", "3/C13"),
 "C18": ("HIST", "differential property testing (interrupted vs uninterrupted twin) + generated old-schema databases + fault injection at enumerated crash points (SIGKILL at every write-like call on the database file and its journal, via strace) and at sampled kill instants on the wire", "fault_enumeration",
         "Reopen at generated split points of generated histories is indistinguishable from an uninterrupted twin; generated v0/v1 databases keep all rows, newer versions are refused unmodified; lease files of 1..2500 rows (thorough 65537), mostly expired, are unchanged by opening them.",
         "Enumerated completely: the crash points between write-like system calls on the database file and its rollback journal for a few scripted allocation sequences, from the moment the file is opened (quick 3 scripts / about 90 points, thorough 6). Sampled: reopen points in generated histories, SIGKILL instants (quick 12, thorough 300) against the real erbium-dhcp on the wire. Not simulated: torn writes inside one write call, loss of unsynced data (power failure). The crash-points tier needs strace/ptrace; where that is refused it is recorded as unavailable.", "3/C18"),
 "C20": ("HIST", "property testing: gauges vs harness count after every step of generated histories", "exploration",
         "After every step of every generated history (and on the empty store) the active/expired gauges equal the harness's own count of rows by expiry; so do they while real time alone carries 1..3 s leases over their expiry with no write in between (sampled every 300 ms).",
         "Rows within 1 s of now are skipped (boundary ambiguous at one-second granularity). The HTTP listing and the /metrics gauges are private to the full binary and are decided by the wire tier of the same command (strict JSON parse, bijection with the rows read from the same SQLite file, hostile client-id/host-name bytes).", "3/C20"),

 "C12": ("CODEC", "round-trip + differential against independent RFC 2131/3396 and Ethernet/IPv4/UDP decoders over generated messages and frames; exhaustive sweep of the 65536 flag values", "exploration",
         "Generated DHCP messages survive parse/serialise/parse and read identically through an independent RFC decoder; generated frames verify (lengths, both checksums, payload); broadcast(f) <=> bit 15 for all 65536 flag values (exhaustive sub-claim).",
         "Trusted: the harness's RFC 2131/3396 codec and frame decoder (written from the RFCs). The on-the-wire destination choice (broadcast iff bit 15, else yiaddr; Ethernet destination = chaddr) is decided by the wire tier of the same command on frames captured from the real erbium-dhcp (sampled flag values), which also drives replies of 300 octets up to beyond the link MTU (long search lists and portal URLs) and judges every frame that appears in full.", "3/C12"),
 "C14": ("CODEC", "round-trip property testing over generated structured DNS messages and mutated encodings, differential against an independent RFC 1035/6891 decoder with pointer audit", "exploration",
         "Every generated message (to 2000 records / 65535 octets, shared suffixes at every depth, all rdata kinds, EDNS options) re-decodes to itself with the crate parser and field-by-field (RFC bit positions) with an independent decoder; every compression pointer targets an earlier offset below 0x4000; accepted byte inputs re-encode to an equal message.",
         "Trusted: the harness's RFC 1035 decoder/encoder. Byte inputs include several OPT records in any section, records of name-bearing types with RDLENGTH 0, names assembled through pointer chains past 255 octets, and the committed corpus (every past failure). Where the harness decoder and erbium's model of a message disagree on what the input is (several OPT records, questions != 1) only the crate-level round trip is judged (counted). The thorough tier adds a libFuzzer campaign with the same oracle inside the target.", "3/C14"),
 "C04": ("CODEC", "property testing of size-limited serialisation with an independent decoder as validity predicate; limits placed at every record boundary +-2", "exploration",
         "For generated messages and limits: output <= limit, identical to the full encoding when that fits, otherwise TC set and a proper whole-record prefix that an independent decoder accepts with matching counts.",
         "Function tier decides the serialiser; the per-transport choice (UDP vs TCP) is glue inside the service loops and is decided by the wire tier (same command; needs the private network namespace).", "3/C04"),
 "C05": ("CODEC+FUZZ", "complete enumeration of a structure-aware boundary/truncation family + generated mutations + corpus through every decoder and the handler steps that follow it; crash/overflow/hang oracle with write-ahead replay", "exploration",
         "No input of the enumerated single-position family over the seed packets, of the nested-length families, of the committed corpus or of the generated multi-edit mutations made any decoder or subsequent handler step panic, overflow or exceed 30 s CPU (build has overflow checks and debug assertions on).",
         "Handler steps replicated with public API calls in the order the service uses them; private glue of the DNS service loops is reached by the wire tier of the same command (hostile datagrams, TCP frames and upstream replies to the real erbium-dns, then a liveness probe), and of the DHCP service by hostile frames to the real erbium-dhcp, including the complete family of text/list options split over several instances (RFC 3396) with multi-octet fills. Frames below 14 octets are not deliverable to LLDP.", "3/C05"),
 "C06": ("CODEC(hook)", "model-based property testing of the cache through its own entry points under a paused clock against a reference cache model", "exploration",
         "Generated query/advance/sweep sequences with near-miss keys and boundary-placed clocks: a hit only for the identical key within the smallest TTL, TTLs equal original minus whole elapsed seconds, never negative; cached content equals what was stored.",
         "H3 drives calculate_expiry/insert/get_entry/expire in handle_query order; the class bypass and header-bit extraction of the key live in handle_query/parser and are decided by the wire tier of the same command (near-miss keys and timed re-queries against the real erbium-dns).", "3/C06"),
 "C16": ("CODEC(hook)", "property testing of the token bucket on a harness clock with black-box inferred constants; window-bound invariant + idle liveness", "exploration",
         "With burst and rate inferred black-box, every window of every generated arrival sequence stays within B + R*span and an idle bucket grants any request up to B.",
         "The bucket is decided exactly; the two-bucket limiter, reply pricing and cookie exemption are private glue decided by the wire tier of the same command (a 35 s steady flood, quiet sources, bursts spread over source ports, a second burst, the same source at the server's second listening socket, a cookie matrix of twelve variants incl. guessable keys and truncated server parts, all 256 one-octet server parts) against the documented constants (two buckets of 1000 tokens, 2 tokens/s, at least 200 per REFUSED). Key rotation (24-36 h) is not covered.", "3/C16"),
 "C17": ("CONF+CODEC", "model-based property testing: generated interface configurations through the real loader and builder, decoded by an RFC 4861/8106/8781/8910 decoder and compared with expected(config)", "exploration",
         "Every generated interface section (tri-state fields, boundary lifetimes in four spellings, prefixes of any length with host bits, RDNSS/DNSSL/PREF64/captive portal, top-level defaults) yields an RA that an independent RFC decoder reads back as exactly the configured values; reserved fields zero; unrepresentable values rejected or clamped, never wrapped.",
         "Trusted: the harness's RFC decoder and expectation model; yaml-rust's emitter (cases whose emitted text does not re-parse to the intended tree are skipped and counted). The mtu/lifetime tri-state resolution lives in the impure wrapper and is decided by the wire tier of the same command: nine combinations through the real erbium (router solicitation injected, advertisement captured, hop limit 255 and ICMPv6 checksum verified).", "3/C17"),
 "C19": ("CONF", "complete enumeration of the single-substitution family over the reference documents + generated double substitutions and byte/token mutations through the real loader; serve-smoke of every accepted configuration; crash oracle", "exploration",
         "The manual's examples and the shipped example load; no document of the enumerated family or of the generated mutations makes the loader panic or return an empty error; no accepted configuration makes DHCP handling, RA building or ACL decisions panic.",
         "Documents asking for explicit pools above 2^17 addresses, nesting deeper than 64 or using YAML aliases are not executed (counted): resource exhaustion by eager enumeration is not judged. DNS serving is decided by the wire-dns-smoke tier of the same command: generated dns-routes sections through the real loader, every accepted one served by a fresh erbium-dns and queried under every suffix with and without RD over UDP and TCP (a response to every question, no panic line; needs namespaces). The thorough tier adds a libFuzzer campaign on the loader + serve-smoke.", "3/C19"),
 "C02": ("CONF+HIST", "model-based property testing: generated configurations through the real loader; documented address set from an independent model; set equality by drain / membership probes", "exploration",
         "For every generated configuration and requesting client/interface, the set of addresses actually leasable (drained with fresh client identifiers, or probed at every boundary for large pools) equals the set the manual documents: no network/broadcast/server address, nothing reserved by a more specific policy, every documented host address leasable, single-address reservations exclusive.",
         "Trusted: the harness's model of erbium.conf(5). Unconstrained where the manual is silent (explicit pools naming the server's own or network/broadcast addresses; sibling overlap). Prefix lengths 22..30 in the generator; /8../21 only by the eager-size argument (the expansion code is length-independent).", "3/C02"),
 "C08": ("CONF", "model-based property testing: generated ACL lists through the real loader; reference first-match model vs require_permission (differential incl. refusal kind)", "exploration",
         "For every generated ACL list (or the documented defaults) and client (IPv4, IPv6, mapped, unix; at and around every prefix boundary) the decision for each of the four operations equals the first-match model, including the kind of refusal.",
         "Function tier decides acl::require_permission and prefix containment. The wire tier of the same command decides the DNS entry point on the real erbium-dns (refused => REFUSED, never forwarded, never served from cache). The HTTP endpoints are decided by a second wire tier on the full erbium binary over a veth pair (TCP/IPv4 seen as mapped, TCP/IPv6, unix socket with bound and unbound clients; 200 vs 403 per endpoint).", "3/C08"),
 "C11": ("CONF", "model-based property testing: generated policy trees and requests through the real loader and handle_pkt; independent model of the manual's option semantics", "exploration",
         "For every generated policy tree, top-level defaults and request, the reply's options equal the model (sibling order, condition-less policies, outer-then-inner override, null unsets, parameter-list gating, defaults with $self4, MTU/router, netmask/broadcast) as a map code -> bytes.",
         "Trusted: the harness's model of erbium.conf(5) and RFC 2132 encodings for the 22 options generated. Parameter lists draw any code 1..254; hardware addresses of 5, 6, 8 and 16 octets; the order of keys in every mapping is varied. Unconstrained: netmask/broadcast with two different matching subnets; empty lists; relayed requests and match-interface are not generated.", "3/C11"),
 "C03": ("WIRE-DNS", "differential property testing on the wire: generated queries and upstream replies through the real erbium-dns with a scripted upstream; independent RFC 1035 decoder on both sides", "exploration",
         "For every generated (query, upstream reply) pair the response that reaches the client carries the client's id and question, QR, the upstream's rcode and the upstream's three sections record by record (TTL equal, or aged within bounds when served from cache).",
         "Trusted: harness decoder/encoder, scripted upstream. TCP-path cases are run one at a time (concurrency on the upstream TCP connection belongs to C07); a relayed REFUSED may be silenced by the UDP rate limiter (counted). Needs the private network namespace.", "3/C03"),
 "C07": ("WIRE-DNS", "fault enumeration + generated concurrent schedules on the wire: enumerated upstream loss patterns, generated delay/duplication/id-mismatch/truncation scripts, all listener families", "fault_enumeration",
         "Each query of every generated concurrent set gets exactly one response, its own, from the address it was sent to; SERVFAIL iff the upstream never answered; the loss patterns over the upstream transmissions are enumerated (quick: <= 2 losses and all lost; thorough: all 32).",
         "The harness owns the external schedule (arrival order, upstream delays, losses) but not tokio's task interleaving inside the server. Bounded time = within 60 s, derived from the server's own back-off. Also driven: upstream TCP replies arriving in two segments while queries keep arriving, 256 queries outstanding on the one upstream TCP connection (16-bit id space), an upstream reply that comes 11.5 s late followed by more TCP-path queries. Behaviour that only shows after the server's own 120 s idle timers (a TCP-path query after more than two minutes of silence) is exercised by the thorough tier only; the quick tier cannot wait that long.", "3/C07"),
 "C15": ("WIRE-DNS", "model-based + metamorphic property testing on the wire: generated route tables with one scripted upstream per route, reference longest-suffix model, permutation and letter-case relations", "exploration",
         "For every generated route table (as written and permuted) and name: forge => NXDOMAIN and no upstream asked; forward+RD => own answer from exactly the longest-suffix route's upstream; forward without RD => REFUSED and nobody asked; no route => SERVFAIL; identical outcomes under permutation.",
         "Ambiguous tables (same suffix in two routes) are not generated. Needs the private network namespace.", "3/C15"),
}

NOT_YET = {
}

def main():
    props = [json.loads(l) for l in open("/verif/properties.jsonl")]
    checks = []
    na = []
    for p in props:
        i = p["id"]
        if i in CHECKS:
            eng, tech, cat, text, note, ref = CHECKS[i]
            checks.append({
                "property_id": i,
                "quick_cmd": "./check %s quick" % i,
                "thorough_cmd": "./check %s thorough" % i,
                "evidence_file": "/verif/evidence/%s.json" % i,
                "replay_cmd_template": "./check --replay {path}",
                "engine": eng,
                "level_claimed": {"category": cat, "text": text, "design_ref": "DESIGN.md section " + ref},
                "level_note": note,
                "technique": tech,
            })
        else:
            na.append({"property_id": i, "reason": NOT_YET.get(i, "check not built yet in this snapshot (work in progress; see DESIGN.md section 3 for the planned generated-input check)")})
    m = {
        "version": 1,
        "setup_cmd": "./setup.sh",
        "hooks": {
            "guard": "cargo feature `verif` on crate erbium-core",
            "enable": "the harness depends on erbium-core by path with features=[\"verif\"]; repo binaries for wire tiers are built with default features (hooks off)",
            "baseline_off_cmd": "cd /repo && cargo nextest run --workspace --no-fail-fast --offline",
            "source_commits": HOOK_COMMITS,
            "add_only": True,
        },
        "engines": [
            {"name": "CODEC", "path": "harness/src/props_codec.rs", "serves_properties": ["C04", "C05", "C06", "C12", "C14", "C16"], "kind_free_text": "independent RFC codecs + proptest strategies for messages, frames, byte mutations; enumerated mutation families"},
            {"name": "CONF", "path": "harness/src/conf.rs", "serves_properties": ["C02", "C08", "C11", "C17", "C19"], "kind_free_text": "YAML documents (reference docs, substitution family, generated ASTs) through the real loader; serve-smoke"},
            {"name": "WIRE-DNS", "path": "harness/src/wire_dns.rs", "serves_properties": ["C03", "C04", "C05", "C06", "C07", "C08", "C15", "C16"], "kind_free_text": "real erbium-dns binary in a private network namespace, scripted upstream servers on 127.0.1.N:53, UDP/TCP clients; cases generated by proptest, confirmed twice, shrunk with <= 40 re-executions"},
            {"name": "WIRE-NET", "path": "harness/src/wire_net.rs", "serves_properties": ["C05", "C08", "C10", "C12", "C17", "C18", "C20"], "kind_free_text": "real erbium / erbium-dhcp binaries in a second network namespace behind a veth pair, private tmpfs on /var/lib/erbium, raw Ethernet frames (AF_PACKET) for DHCP and router solicitations, TCP/unix HTTP clients, direct SQLite access to the lease file"},
            {"name": "HIST", "path": "harness/src/hist.rs", "serves_properties": ["C01", "C09", "C10", "C13", "C18", "C20"], "kind_free_text": "model-based DHCP history interpreter over the real handle_pkt + Pool (proptest)"},
        ],
        "checks": checks,
        "not_applicable": na,
        "notes": "Every check is `./check <ID> <tier>`; it rebuilds the harness (path dependency on /repo's working tree, feature verif) before running. VERIF_SEED selects the proptest seeds. Exit 0 held / 1 VIOLATION / 2 inconclusive.",
    }
    json.dump(m, open("/verif/MANIFEST.json", "w"), indent=1)
    print("checks:", len(checks), "not_applicable:", len(na))

main()
