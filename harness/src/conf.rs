//! CONF engine: YAML documents through the real loader (hook H1), the reference documents, the
//! single-substitution family, and the serve-smoke for accepted configurations.

use crate::engine::*;
use erbium::config::Config;
use erbium_net::addr::{ToNetAddr as _, WithPort as _};
use std::net::{IpAddr, Ipv4Addr, Ipv6Addr};
use yaml_rust::yaml::{Hash, Yaml};
use yaml_rust::{YamlEmitter, YamlLoader};

pub fn emit(y: &Yaml) -> String {
    let mut s = String::new();
    {
        let mut e = YamlEmitter::new(&mut s);
        let _ = e.dump(y);
    }
    s.push('\n');
    s
}

/// The same document with the keys of every mapping in another order (a pure function of the
/// document's text, identity for every second document).  The order of keys in a YAML mapping
/// carries no meaning, so no expectation may change.
pub fn vary_key_order(y: &Yaml) -> Yaml {
    let seed = hash64(&emit(y));
    if seed & 1 == 0 {
        return y.clone();
    }
    fn walk(y: &Yaml, seed: u64) -> Yaml {
        match y {
            Yaml::Hash(h) => {
                let mut items: Vec<(Yaml, Yaml)> = h.iter().map(|(k, v)| (k.clone(), walk(v, seed))).collect();
                match (seed >> 1) & 3 {
                    0 => items.reverse(),
                    1 => {
                        let n = items.len();
                        if n > 1 {
                            items.rotate_left(n / 2);
                        }
                    }
                    _ => items.sort_by_key(|(k, _)| hash64(&(seed, k.as_str().map(|s| s.to_string())))),
                }
                let mut out = yaml_rust::yaml::Hash::new();
                for (k, v) in items {
                    out.insert(k, v);
                }
                Yaml::Hash(out)
            }
            Yaml::Array(a) => Yaml::Array(a.iter().map(|x| walk(x, seed)).collect()),
            other => other.clone(),
        }
    }
    walk(y, seed)
}

pub fn parse_yaml(text: &str) -> Option<Yaml> {
    YamlLoader::load_from_str(text).ok().and_then(|mut v| {
        if v.len() == 1 {
            Some(v.remove(0))
        } else {
            None
        }
    })
}

pub fn ystr(s: &str) -> Yaml {
    Yaml::String(s.to_string())
}

pub fn ymap(items: Vec<(&str, Yaml)>) -> Yaml {
    let mut h = Hash::new();
    for (k, v) in items {
        h.insert(ystr(k), v);
    }
    Yaml::Hash(h)
}

pub fn ylist(items: Vec<Yaml>) -> Yaml {
    Yaml::Array(items)
}

// ---------------------------------------------------------------------------------------------
// reference documents

fn man_examples() -> Vec<(String, String)> {
    let mut out = vec![];
    let text = match std::fs::read_to_string("/repo/man/erbium.conf.5") {
        Ok(t) => t,
        Err(_) => return out,
    };
    let mut cur: Option<String> = None;
    let mut n = 0;
    for line in text.lines() {
        if line.starts_with(".EX") {
            cur = Some(String::new());
        } else if line.starts_with(".EE") {
            if let Some(ex) = cur.take() {
                let ex = ex.replace(
                    "\\fIthe-contents-of-the-top-level-addresses-field\\fP",
                    "192.0.2.0/24",
                );
                out.push((format!("man-example-{}", n), ex));
                n += 1;
            }
        } else if let Some(c) = cur.as_mut() {
            c.push_str(line);
            c.push('\n');
        }
    }
    out
}

fn shipped_example() -> Vec<(String, String)> {
    let mut out = vec![];
    if let Ok(text) = std::fs::read_to_string("/repo/erbium.conf.example") {
        out.push(("erbium.conf.example".to_string(), text.clone()));
        let mut c = text.replace("\n#  ", "\n  ");
        c = c.replace("\n# ", "\n");
        c = c.replace("the-contents-of-the-top-level-addresses-field", "192.0.2.0/24");
        out.push(("erbium.conf.example-uncommented".to_string(), c));
    }
    out
}

pub const FULL_DOC: &str = r#"---
addresses: [192.0.2.0/24, 2001:db8::/64, 198.51.100.17/28]
dns-servers: [$self4, $self6, 8.8.8.8, '2001:4860:4860::8888']
dns-search: [example.com, example.org]
captive-portal: https://portal.example.com/
default-listen-style: bind-unspecified
api-listeners: ["/tmp/erbium-control", "@erbium", "[::]:9968", "127.0.0.1:9969"]
dns-listeners: ["[::]:53", "127.0.0.1:5353"]
acls:
  - match-subnets: [192.0.2.0/24, '2001:db8::/64', '::ffff:10.1.2.0/120']
    apply-access: [dns-recursion, http-ro]
  - match-subnets: [127.0.0.0/8, '::1/128']
    match-unix: false
    apply-access: [dhcp-client, http, http-metrics, http-leases]
  - match-unix: true
    apply-access: [http-ro]
dns-routes:
  - domain-suffixes: [""]
    type: forward
    dns-servers: [8.8.8.8]
  - domain-suffixes: [invalid, bad.example.com]
    type: forge-nxdomain
  - domain-suffixes: [corp.example.com]
    dns-servers: ['2001:db8::53']
dhcp-policies:
  - apply-ntp-servers: [192.0.2.123]
    apply-time-offset: 3600
    apply-domain-name: erbium.dev
    apply-forward: false
    apply-mtu: 1500
    apply-default-ttl: 64
    apply-renewal-time: 90s
    apply-rebind-time: 120
    apply-arp-timeout: 1w
    apply-max-reassembly: 30s
    apply-tcp-ttl: 64
    apply-default-lease: 1h
    apply-max-lease: 1d
    apply-lease-time: 1h
    apply-server-id: 192.0.2.1
    apply-message: hello
    apply-max-size: 1400
    policies:
      - match-subnet: 198.51.100.0/24
        apply-range: {start: 198.51.100.100, end: 198.51.100.199}
        apply-routes:
          - prefix: 203.0.113.0/24
            next-hop: $self4
          - {prefix: 10.0.0.0/8, next-hop: 198.51.100.1}
        apply-broadcast: 198.51.100.255
        apply-netmask: 255.255.255.0
        apply-routers: [198.51.100.1]
        apply-dns-searches: [a.example.com, b.example.com]
        policies:
          - {match-hardware-address: '00:00:5E:00:53:01', apply-address: 198.51.100.110, apply-dns-servers: null}
          - {match-hardware-address: '00:00:5E:00:53:02', apply-address: 198.51.100.111, apply-dns-servers: [8.8.8.8]}
          - {match-host-name: printer, match-class-id: null, apply-address: 198.51.100.112, apply-host-name: printer7}
          - {apply-address: 198.51.100.120}
      - apply-subnet: 203.0.113.0/24
        policies:
          - {match-hardware-address: '00:00:5E:00:53:F0'}
          - {match-user-class: VPN, match-interface: dmz, apply-subnet: 203.0.113.128/26, apply-client-id: '01:02:03'}
router-advertisements:
  eth0:
  eth1:
    hop-limit: 64
    managed: false
    other: true
    lifetime: 1h 30m
    reachable: 30s
    retransmit: 1s
    mtu: 1480
    max-router-advertisement-interval: 1800s
    min-router-advertisement-interval: 1350s
    prefixes:
      - prefix: 2001:db8:0:1::/64
        on-link: true
        autonomous: true
        valid: 7d
        preferred: 24h
      - prefix: 2001:db8:0:2::/64
    dns-servers:
      addresses: ['2001:db8::53', $self6]
      lifetime: 6h
    dns-search:
      domains: [example.com, example.net]
      lifetime: 6h
    captive-portal: http://portal.example.com/
    pref64:
      prefix: 64:ff9b::/96
      lifetime: 10m
  eth2:
    mtu: null
    lifetime: null
    captive-portal: null
    dns-servers: {addresses: null, lifetime: null}
    dns-search: {domains: null}
"#;

pub fn reference_docs() -> Vec<(String, String)> {
    let mut v = vec![("full-grammar".to_string(), FULL_DOC.to_string())];
    v.extend(man_examples());
    v.extend(shipped_example());
    v
}

// ---------------------------------------------------------------------------------------------
// single-substitution family

/// Path into a YAML tree: indices into arrays / hash entries; `key` says the hash *key* at the
/// last index is the target instead of its value.
#[derive(Clone, Debug)]
pub struct Path {
    pub idx: Vec<usize>,
    pub key: bool,
}

pub fn collect_paths(y: &Yaml, cur: &mut Vec<usize>, out: &mut Vec<Path>) {
    out.push(Path {
        idx: cur.clone(),
        key: false,
    });
    match y {
        Yaml::Array(a) => {
            for (i, v) in a.iter().enumerate() {
                cur.push(i);
                collect_paths(v, cur, out);
                cur.pop();
            }
        }
        Yaml::Hash(h) => {
            for (i, (_k, v)) in h.iter().enumerate() {
                cur.push(i);
                out.push(Path {
                    idx: cur.clone(),
                    key: true,
                });
                collect_paths(v, cur, out);
                cur.pop();
            }
        }
        _ => {}
    }
}

/// None = delete the node (array element / hash entry).
pub fn substitute(y: &Yaml, path: &[usize], key: bool, new: &Option<Yaml>) -> Option<Yaml> {
    if path.is_empty() {
        return new.clone();
    }
    let (i, rest) = (path[0], &path[1..]);
    match y {
        Yaml::Array(a) => {
            let mut out = vec![];
            for (j, v) in a.iter().enumerate() {
                if j == i {
                    if let Some(n) = substitute(v, rest, key, new) {
                        out.push(n);
                    }
                } else {
                    out.push(v.clone());
                }
            }
            Some(Yaml::Array(out))
        }
        Yaml::Hash(h) => {
            let mut out = Hash::new();
            for (j, (k, v)) in h.iter().enumerate() {
                if j == i {
                    if rest.is_empty() && key {
                        if let Some(nk) = new {
                            out.insert(nk.clone(), v.clone());
                        }
                    } else if let Some(n) = substitute(v, rest, key, new) {
                        out.insert(k.clone(), n);
                    }
                } else {
                    out.insert(k.clone(), v.clone());
                }
            }
            Some(Yaml::Hash(out))
        }
        _ => Some(y.clone()),
    }
}

pub fn replacement_values() -> Vec<Option<Yaml>> {
    let mut v: Vec<Option<Yaml>> = vec![
        None,
        Some(Yaml::Null),
        Some(Yaml::Boolean(true)),
        Some(Yaml::Integer(0)),
        Some(Yaml::Integer(1)),
        Some(Yaml::Integer(-1)),
        Some(Yaml::Integer(255)),
        Some(Yaml::Integer(256)),
        Some(Yaml::Integer(65536)),
        Some(Yaml::Integer(4294967296)),
        Some(Yaml::Integer(i64::MAX)),
        Some(Yaml::Integer(i64::MIN)),
        Some(Yaml::Real("1.5".into())),
        Some(Yaml::Array(vec![])),
        Some(Yaml::Array(vec![Yaml::Null])),
        Some(Yaml::Array(vec![Yaml::Array(vec![])])),
        Some(Yaml::Array(vec![Yaml::Integer(7)])),
        Some(Yaml::Array(vec![ystr("x")])),
        Some(Yaml::Hash(Hash::new())),
        Some(ymap(vec![("x", Yaml::Null)])),
        Some(ymap(vec![("prefix", Yaml::Null)])),
        Some(ymap(vec![("start", ystr("10.0.0.9"))])),
        Some(ymap(vec![("start", ystr("10.0.0.9")), ("end", ystr("10.0.0.1"))])),
        Some(ymap(vec![("next-hop", ystr("10.0.0.1"))])),
        Some(ylist(vec![ymap(vec![("prefix", ystr("10.0.0.0")), ("next-hop", ystr("10.0.0.1"))])])),
        Some(ylist(vec![ymap(vec![("prefix", ystr("10.0.0.0/x")), ("next-hop", ystr("10.0.0.1"))])])),
        Some(ylist(vec![ymap(vec![("prefix", ystr("10.0.0.0/99")), ("next-hop", ystr("10.0.0.1"))])])),
        Some(ylist(vec![ymap(vec![("valid", ystr("1d"))])])),
    ];
    for s in [
        "", "x", "s", "1ss", "ms", "-1", "1h-1", "9223372036854775808", "18446744073709551616",
        "99999999999999999999999999999w", "30500568904943w", "1w2d3h4m5s", "1 h", "1_0s",
        "0.0.0.0/0", "0.0.0.0/1", "0.0.0.0/32", "255.255.255.255/32", "255.255.255.254/31", "255.255.255.255/0", "255.255.255.0/24", "10.0.0.0/16", "10.0.0.0/30", "10.0.0.0/31", "10.0.0.0/32", "10.0.0.0/33",
        "10.0.0.0/64", "10.0.0.0/255", "10.0.0.0/256", "10.0.0.0/-1", "10.0.0.0/", "/24",
        "10.0.0.0", "10.0.0.0/24/1", "10.0.0.1/24", "::/0", "::/128", "::/129", "::/255",
        "::ffff:10.0.0.0/95", "::ffff:10.0.0.0/96", "::ffff:10.0.0.0/120", "::ffff:10.0.0.0/129",
        "::ffff:10.0.0.0/200", "2001:db8::/64", "2001:db8::/12", "2001:db8::/31", "$self4", "$self6",
        "00:11:22:33:44:55", "0:1", "zz:zz", "00:11:22:33:44:55:66:77:88:99:aa:bb:cc:dd:ee:ff:00:11",
        "forward", "forge-nxdomain", "bind-addresses-interfaces", "a..b", ".", "a.b.", "\\", "ex\\ample.com",
        "é.example.com", "@", "/", "[::]:0", "[::]:99999", "1.2.3.4:53", "true", "null", "~",
    ] {
        v.push(Some(ystr(s)));
    }
    v.push(Some(ystr(&"a".repeat(300))));
    v.push(Some(ystr(&format!("{}.com", "l".repeat(64)))));
    // values around the largest an 8-bit count of 8-octet units can describe (options of router
    // advertisements: 2040 octets with their two-octet head), and around twice that
    for n in [2030usize, 2037, 2038, 2039, 2040, 2042, 2046, 2047, 2048, 4086, 4090, 4095] {
        v.push(Some(ystr(&format!("https://portal.example/{}", "p".repeat(n - 23)))));
    }
    // long values that are not ASCII, at every alignment of their characters (error messages
    // quote the offending value, and whatever shortens or pads a quotation counts octets), alone
    // and inside a collection
    for lead in 0..4usize {
        for unit in ["\u{e9}", "\u{20ac}", "\u{1f600}"] {
            let t = format!("{}{}", "x".repeat(lead), unit.repeat(70));
            v.push(Some(ystr(&t)));
            if lead < 2 {
                v.push(Some(ylist(vec![ystr(&t)])));
                v.push(Some(ymap(vec![("prefix", ystr(&t))])));
            }
        }
    }
    v
}

pub fn key_replacements() -> Vec<Option<Yaml>> {
    vec![
        Some(ystr("unknown-key")),
        Some(ystr("match-")),
        Some(ystr("apply-")),
        Some(ystr("match-unknown-option")),
        Some(ystr("apply-vendor")),
        Some(ystr("apply-classful-route")),
        Some(ystr("match-routes")),
        Some(ystr("apply-client-id")),
        Some(ystr("dhcp")),
        Some(ystr("interface")),
        Some(ystr(&format!("x{}", "\u{e9}".repeat(70)))),
        Some(ystr(&format!("apply-{}", "\u{20ac}".repeat(60)))),
        Some(Yaml::Null),
        Some(Yaml::Integer(5)),
        Some(Yaml::Boolean(false)),
        Some(Yaml::Array(vec![])),
        Some(Yaml::Hash(Hash::new())),
    ]
}

/// All single-substitution documents of one reference document.
pub fn substitution_family(doc: &Yaml) -> Vec<String> {
    let mut paths = vec![];
    collect_paths(doc, &mut vec![], &mut paths);
    let vals = replacement_values();
    let keys = key_replacements();
    let mut out = vec![];
    for p in &paths {
        let reps = if p.key { &keys } else { &vals };
        for r in reps {
            if let Some(d) = substitute(doc, &p.idx, p.key, r) {
                out.push(emit(&d));
            } else {
                out.push("---\n".to_string());
            }
        }
        // every list also at the lengths where a one-octet count or length field runs out
        // (option lengths in units of 8 or 16 octets, counts of 255, ...): its first element
        // repeated
        if !p.key {
            if let Some(Yaml::Array(a)) = node_at(doc, &p.idx) {
                if let Some(first) = a.first() {
                    for n in [31usize, 32, 63, 64, 127, 128, 129, 255, 256, 257, 1000] {
                        let long = Some(Yaml::Array(vec![first.clone(); n]));
                        if let Some(d) = substitute(doc, &p.idx, false, &long) {
                            out.push(emit(&d));
                        }
                    }
                }
            }
        }
    }
    out
}

pub fn node_at<'a>(y: &'a Yaml, path: &[usize]) -> Option<&'a Yaml> {
    if path.is_empty() {
        return Some(y);
    }
    match y {
        Yaml::Array(a) => node_at(a.get(path[0])?, &path[1..]),
        Yaml::Hash(h) => node_at(h.iter().nth(path[0])?.1, &path[1..]),
        _ => None,
    }
}

// ---------------------------------------------------------------------------------------------
// loading and serve-smoke

pub fn load(text: &str) -> Result<Result<Config, String>, Fail> {
    guard(|| match erbium::config::verif_load_config_from_string(text) {
        Ok(shared) => match std::sync::Arc::try_unwrap(shared) {
            Ok(lock) => Ok(lock.into_inner()),
            Err(_) => Err("shared config still referenced".to_string()),
        },
        Err(e) => {
            let s = e.to_string();
            Err(if s.is_empty() { "<EMPTY ERROR MESSAGE>".into() } else { s })
        }
    })
}

fn collect_policy_points(
    pols: &[erbium::dhcp::config::Policy],
    subnets: &mut Vec<(Ipv4Addr, u8)>,
    macs: &mut Vec<Vec<u8>>,
    opts: &mut Vec<(erbium::dhcp::dhcppkt::DhcpOption, Vec<u8>)>,
) {
    for p in pols {
        if let Some(s) = &p.match_subnet {
            subnets.push((s.addr, s.prefixlen));
        }
        if let Some(m) = &p.match_chaddr {
            macs.push(m.clone());
        }
        for (k, v) in &p.match_other {
            if let Some(v) = v {
                opts.push((*k, v.as_bytes()));
            }
        }
        collect_policy_points(&p.policies, subnets, macs, opts);
    }
}

/// Use an accepted configuration to serve DHCP, RA and ACL decisions; report the first panic.
pub fn serve_smoke(conf: &Config, out: &mut Outcome) -> Option<Fail> {
    use erbium::dhcp::{self, dhcppkt};
    // ---- DHCP
    let mut subnets: Vec<(Ipv4Addr, u8)> = vec![];
    let mut macs: Vec<Vec<u8>> = vec![vec![0, 0, 0x5e, 0, 0x53, 0x99]];
    let mut opts = vec![];
    for p in &conf.addresses {
        if let erbium::config::Prefix::V4(p4) = p {
            subnets.push((p4.addr, p4.prefixlen));
        }
    }
    collect_policy_points(&conf.dhcp.policies, &mut subnets, &mut macs, &mut opts);
    let mut serverips: Vec<Ipv4Addr> = vec![Ipv4Addr::new(192, 0, 2, 1)];
    let mut big = false;
    for p in &conf.addresses {
        if let erbium::config::Prefix::V4(p4) = p {
            if (1..16).contains(&p4.prefixlen) {
                big = true;
            }
        }
    }
    if big {
        // every request re-expands the whole prefix: 2^17..2^31 addresses per request
        out.excluded.push("dhcp-smoke-skipped-prefix-shorter-than-16");
    } else {
        for (a, l) in &subnets {
            let mask = if *l >= 32 { u32::MAX } else { !(u32::MAX.checked_shr(*l as u32).unwrap_or(0)) };
            let net = u32::from(*a) & mask;
            serverips.push(Ipv4Addr::from(net.wrapping_add(1)));
        }
        serverips.dedup();
        serverips.truncate(5);
        macs.truncate(4);
        let all_params: Vec<u8> = (1..=254u8).collect();
        for sip in &serverips {
            for mac in &macs {
                for (mt, with_opts) in [(crate::rfc2131::DISCOVER, false), (crate::rfc2131::REQUEST, true)] {
                    let mut m = crate::rfc2131::Msg {
                        xid: 99,
                        ..Default::default()
                    };
                    m.set_hw(mac);
                    m.options.push((crate::rfc2131::OPT_MSG_TYPE, vec![mt]));
                    m.options.push((crate::rfc2131::OPT_PARAM_LIST, all_params.clone()));
                    let pkt = match dhcppkt::parse(&m.encode()) {
                        Ok(mut p) => {
                            if with_opts {
                                for (k, v) in &opts {
                                    p.options.other.entry(*k).or_insert_with(|| v.clone());
                                }
                            }
                            p
                        }
                        Err(_) => continue,
                    };
                    let req = dhcp::DHCPRequest {
                        pkt,
                        serverip: *sip,
                        ifindex: 1,
                        if_mtu: Some(1500),
                        if_router: Some(*sip),
                    };
                    let r = guard(|| {
                        let mut pool = dhcp::pool::Pool::new_in_memory().expect("pool");
                        match dhcp::handle_pkt(&mut pool, &req, Default::default(), conf) {
                            Ok(reply) => {
                                let b = reply.serialise();
                                let _ = dhcppkt::parse(&b);
                                true
                            }
                            Err(e) => {
                                let _ = e.to_string();
                                false
                            }
                        }
                    });
                    match r {
                        Ok(true) => out.class("smoke-dhcp-replied"),
                        Ok(false) => {}
                        Err(f) => {
                            return Some(Fail::new(
                                format!("serve:{}", f.sig),
                                format!("DHCP request on {} with an accepted configuration: {}", sip, f.detail),
                            ))
                        }
                    }
                }
            }
        }
    }
    // ---- router advertisements
    let names: Vec<String> = conf.ra.interfaces.iter().map(|i| i.name.clone()).collect();
    for name in names {
        let r = guard(|| {
            let ra = erbium::radv::verif_build_ra(
                conf,
                &name,
                Some([2, 0, 0, 0, 0, 1]),
                Some(1500),
                "2001:db8::1".parse().unwrap(),
                std::time::Duration::from_secs(1800),
            );
            if let Some(ra) = ra {
                let b = erbium::radv::icmppkt::serialise(&erbium::radv::icmppkt::Icmp6::RtrAdvert(ra));
                let _ = erbium::radv::icmppkt::parse(&b);
            }
        });
        match r {
            Ok(()) => out.class("smoke-ra-built"),
            Err(f) => {
                return Some(Fail::new(
                    format!("serve:{}", f.sig),
                    format!("router advertisement for {} with an accepted configuration: {}", name, f.detail),
                ))
            }
        }
    }
    // ---- ACL decisions
    let clients: Vec<erbium_net::addr::NetAddr> = vec![
        Ipv4Addr::new(127, 0, 0, 1).with_port(1234),
        Ipv4Addr::new(192, 0, 2, 7).with_port(53),
        Ipv4Addr::new(10, 0, 0, 9).with_port(9),
        Ipv6Addr::LOCALHOST.with_port(1),
        "::ffff:192.0.2.7".parse::<Ipv6Addr>().unwrap().with_port(9),
        "::ffff:10.0.0.9".parse::<Ipv6Addr>().unwrap().with_port(9),
        "2001:db8::7".parse::<Ipv6Addr>().unwrap().with_port(1),
        erbium_net::addr::UnixAddr::new("/tmp/vcheck-client").unwrap().to_net_addr(),
    ];
    for c in clients {
        let r = guard(|| {
            use erbium::acl::{require_permission, Attributes, PermissionType::*};
            for p in [DnsRecursion, Http, HttpLeases, HttpMetrics] {
                let _ = require_permission(&conf.acls, &Attributes { addr: c }, p).map_err(|e| e.to_string());
            }
        });
        if let Err(f) = r {
            return Some(Fail::new(
                format!("serve:{}", f.sig),
                format!("ACL decision for {} with an accepted configuration: {}", c, f.detail),
            ));
        }
    }
    // ---- DNS routes: the part of the router that is reachable without sockets
    let _ = IpAddr::V4(Ipv4Addr::LOCALHOST);
    None
}

// ---------------------------------------------------------------------------------------------
// expansion guard

fn v4_prefix_size(s: &str) -> Option<u64> {
    let (a, l) = s.split_once('/')?;
    let _: Ipv4Addr = a.parse().ok()?;
    let l: u32 = l.parse().ok()?;
    if l > 32 {
        return None;
    }
    Some(1u64 << (32 - l))
}

fn walk_expansion(y: &Yaml, total: &mut u64) {
    match y {
        Yaml::Array(a) => a.iter().for_each(|v| walk_expansion(v, total)),
        Yaml::Hash(h) => {
            for (k, v) in h {
                match (k.as_str(), v) {
                    (Some("apply-subnet"), Yaml::String(s)) => {
                        // /0 overflows before anything is allocated; everything else is enumerated
                        if let Some(n) = v4_prefix_size(s) {
                            if n < (1u64 << 32) {
                                *total += n;
                            }
                        }
                    }
                    (Some("apply-range"), Yaml::Hash(r)) => {
                        let get = |name: &str| -> Option<u32> {
                            r.get(&Yaml::String(name.into()))
                                .and_then(|v| v.as_str())
                                .and_then(|s| if s == "$self4" { Some(Ipv4Addr::UNSPECIFIED) } else { s.parse::<Ipv4Addr>().ok() })
                                .map(u32::from)
                        };
                        if let (Some(a), Some(b)) = (get("start"), get("end")) {
                            if b >= a {
                                *total += (b - a) as u64 + 1;
                            }
                        }
                    }
                    _ => {}
                }
                walk_expansion(v, total);
            }
        }
        _ => {}
    }
}

/// Number of IPv4 addresses the loader would enumerate eagerly for this document (explicit
/// apply-subnet / apply-range pools).  The enumeration is by design; documents asking for more
/// than 2^17 addresses are outside what a bulk run can execute.
pub fn eager_expansion(text: &str) -> u64 {
    let mut total = 0;
    if let Ok(docs) = YamlLoader::load_from_str(text) {
        for d in &docs {
            walk_expansion(d, &mut total);
        }
    }
    total
}
