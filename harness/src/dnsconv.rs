//! Conversions between the harness's RFC 1035 model and erbium's `DNSPkt`, plus generators for
//! structured DNS messages.

use crate::engine::pick_idx;
use crate::rfc1035::*;
use erbium::dns::dnspkt as e;
use proptest::prelude::*;

pub fn to_domain(n: &Name) -> e::Domain {
    e::Domain::from(
        n.iter()
            .map(|l| e::Label::from(l.clone()))
            .collect::<Vec<_>>(),
    )
}

pub fn to_rr(r: &Rr) -> e::RR {
    let rdata = match (&r.rdata, r.rtype) {
        (RData::Name(n), T_NS) => e::RData::Ns(to_domain(n)),
        (RData::Name(n), T_CNAME) => e::RData::CName(to_domain(n)),
        (RData::Name(n), T_PTR) => e::RData::Ptr(to_domain(n)),
        (RData::PrefName(p, n), T_MX) => e::RData::Mx(e::PrefDomainData {
            pref: *p,
            domain: to_domain(n),
        }),
        (RData::PrefName(p, n), T_RT) => e::RData::Rt(e::PrefDomainData {
            pref: *p,
            domain: to_domain(n),
        }),
        (RData::PrefName(p, n), T_AFSDB) => e::RData::AfsDb(e::AFSDBData {
            subtype: *p,
            hostname: to_domain(n),
        }),
        (
            RData::Soa {
                mname,
                rname,
                serial,
                refresh,
                retry,
                expire,
                minimum,
            },
            T_SOA,
        ) => e::RData::Soa(e::SoaData {
            mname: to_domain(mname),
            rname: to_domain(rname),
            serial: *serial,
            refresh: *refresh,
            retry: *retry,
            expire: *expire,
            minimum: *minimum,
        }),
        (RData::Rp(a, b), T_RP) => e::RData::Rp(e::RPData {
            mbox: to_domain(a),
            txt: to_domain(b),
        }),
        (
            RData::Naptr {
                order,
                preference,
                flags,
                services,
                regexp,
                replacement,
            },
            T_NAPTR,
        ) => e::RData::NaPtr(e::NAPTRData {
            order: *order,
            preference: *preference,
            flags: flags.clone(),
            services: services.clone(),
            regexp: regexp.clone(),
            replacement: to_domain(replacement),
        }),
        (RData::Raw(b), _) => e::RData::Other(b.clone()),
        (other, t) => panic!("harness bug: rdata {:?} with type {}", other, t),
    };
    e::RR {
        domain: to_domain(&r.name),
        class: e::Class(r.class),
        rrtype: e::Type(r.rtype),
        ttl: r.ttl,
        rdata,
    }
}

/// Model -> erbium packet.  The model must have exactly one question and at most one OPT (which
/// must be the last additional record, version 0).
pub fn to_pkt(m: &Message) -> e::DNSPkt {
    let edns = m.edns().map(|x| x.expect("harness-built OPT"));
    let mut ed = None;
    if let Some(x) = &edns {
        let mut d = e::EdnsData::new();
        for (c, v) in &x.options {
            d.set_opt(e::EdnsOption {
                code: e::EdnsCode(*c),
                data: v.clone(),
            });
        }
        ed = Some(d);
    }
    let h = &m.header;
    let q = &m.questions[0];
    e::DNSPkt {
        qid: h.id,
        rd: h.rd,
        tc: h.tc,
        aa: h.aa,
        qr: h.qr,
        opcode: e::Opcode(h.opcode),
        cd: h.cd,
        ad: h.ad,
        ra: h.ra,
        rcode: e::RCode(m.full_rcode()),
        bufsize: edns.as_ref().map(|x| x.udp_size.max(512)).unwrap_or(512),
        edns_ver: edns.as_ref().map(|_| 0),
        edns_do: edns.as_ref().map(|x| x.do_bit).unwrap_or(false),
        question: e::Question {
            qdomain: to_domain(&q.name),
            qclass: e::Class(q.qclass),
            qtype: e::Type(q.qtype),
        },
        answer: m.answer.iter().map(to_rr).collect(),
        nameserver: m.authority.iter().map(to_rr).collect(),
        additional: m.additional_no_opt().iter().map(to_rr).collect(),
        edns: ed,
    }
}

// ---------------------------------------------------------------------------------------------
// generators

const LABELS: [&str; 14] = [
    "a", "b", "c", "www", "mail", "example", "Example", "EXAMPLE", "com", "net", "org", "x-1",
    "_tcp", "ns1",
];

pub fn label_strategy() -> impl Strategy<Value = Vec<u8>> {
    prop_oneof![
        12 => any::<u16>().prop_map(|i| LABELS[pick_idx(i, LABELS.len())].as_bytes().to_vec()),
        1 => proptest::collection::vec(any::<u8>(), 1..=63),
        1 => proptest::collection::vec(any::<u8>(), 1..=6),
    ]
}

pub fn name_strategy() -> impl Strategy<Value = Name> {
    prop_oneof![
        1 => Just(vec![]),
        10 => proptest::collection::vec(label_strategy(), 1..=5),
    ]
}

/// A pool of names in which suffixes are shared at every depth.
pub fn name_pool_strategy() -> impl Strategy<Value = Vec<Name>> {
    proptest::collection::vec(name_strategy(), 1..=6).prop_flat_map(|bases| {
        let nb = bases.len();
        proptest::collection::vec(
            (any::<u16>(), proptest::collection::vec(label_strategy(), 0..=3), 0usize..4),
            2..=16,
        )
        .prop_map(move |exts| {
            let mut pool: Vec<Name> = bases.clone();
            for (bi, prefix, cut) in exts {
                let base = &bases[pick_idx(bi, nb)];
                let cut = cut.min(base.len());
                let mut n = prefix;
                n.extend_from_slice(&base[cut..]);
                // keep names encodable: at most 255 octets on the wire
                let mut len = 1;
                let mut keep = vec![];
                for l in n.into_iter().rev() {
                    if len + l.len() + 1 > 255 {
                        break;
                    }
                    len += l.len() + 1;
                    keep.push(l);
                }
                keep.reverse();
                pool.push(keep);
            }
            pool
        })
    })
}

pub const TTLS: [u32; 10] = [0, 1, 2, 59, 60, 600, 86400, 0x7fff_ffff, 0x8000_0000, 0xffff_ffff];

pub fn ttl_strategy() -> impl Strategy<Value = u32> {
    prop_oneof![
        3 => any::<u16>().prop_map(|i| TTLS[pick_idx(i, TTLS.len())]),
        2 => any::<u32>(),
        2 => 1u32..7200,
    ]
}

#[derive(Clone, Copy, Debug)]
pub struct RrSize {
    pub max_raw: usize,
}

/// One record whose names come from `pool`.
pub fn rr_strategy(pool: Vec<Name>, sz: RrSize) -> impl Strategy<Value = Rr> {
    let np = pool.len();
    let pool2 = pool.clone();
    let pick = move |i: u16| pool2[pick_idx(i, np)].clone();
    let p1 = pick.clone();
    let p2 = pick.clone();
    let rdata = prop_oneof![
        4 => (any::<u16>(), prop_oneof![Just(T_NS), Just(T_CNAME), Just(T_PTR)]).prop_map({
            let p = pick.clone();
            move |(i, t)| (t, RData::Name(p(i)))
        }),
        3 => (any::<u16>(), any::<u16>(), prop_oneof![Just(T_MX), Just(T_RT), Just(T_AFSDB)]).prop_map({
            let p = pick.clone();
            move |(i, pref, t)| (t, RData::PrefName(pref, p(i)))
        }),
        2 => (any::<u16>(), any::<u16>(), any::<[u32; 5]>()).prop_map({
            let p = pick.clone();
            move |(a, b, v)| (T_SOA, RData::Soa {
                mname: p(a), rname: p(b), serial: v[0], refresh: v[1], retry: v[2], expire: v[3], minimum: v[4],
            })
        }),
        1 => (any::<u16>(), any::<u16>()).prop_map({
            let p = pick.clone();
            move |(a, b)| (T_RP, RData::Rp(p(a), p(b)))
        }),
        1 => (any::<u16>(), any::<u16>(), any::<u16>(),
              proptest::collection::vec(any::<u8>(), 0..8),
              proptest::collection::vec(any::<u8>(), 0..20),
              prop_oneof![4 => proptest::collection::vec(any::<u8>(), 0..30), 1 => proptest::collection::vec(any::<u8>(), 255..=255)],
        ).prop_map({
            let p = pick.clone();
            move |(i, order, preference, flags, services, regexp)| (T_NAPTR, RData::Naptr {
                order, preference, flags, services, regexp, replacement: p(i),
            })
        }),
        6 => (prop_oneof![Just(T_A), Just(T_AAAA), Just(T_TXT), Just(T_RRSIG), Just(99u16), Just(65280u16), Just(48u16)],
              prop_oneof![
                  10 => proptest::collection::vec(any::<u8>(), 0..40),
                  1 => proptest::collection::vec(any::<u8>(), 0..=sz.max_raw.max(1)),
              ]).prop_map(|(t, raw)| (t, RData::Raw(raw))),
    ];
    (any::<u16>(), prop_oneof![8 => Just(1u16), 1 => Just(3u16), 1 => any::<u16>()], ttl_strategy(), rdata).prop_map(
        move |(ni, class, ttl, (rtype, rdata))| {
            let _ = &p1;
            Rr {
                name: p2(ni),
                rtype,
                class,
                ttl,
                rdata,
            }
        },
    )
}

pub fn edns_strategy() -> impl Strategy<Value = Option<Edns>> {
    let opt = (
        prop_oneof![Just(3u16), Just(8u16), Just(10u16), Just(15u16), Just(12u16), any::<u16>()],
        proptest::collection::vec(any::<u8>(), 0..40),
    )
        .prop_map(|(c, mut d)| {
            // options erbium's own accessors slice into: keep them at their minimum sizes here
            // (shorter ones belong to C05, not to a round-trip property)
            if c == 10 && d.len() < 8 {
                d.resize(8, 0);
            }
            if c == 15 && d.len() < 2 {
                d.resize(2, 0);
            }
            (c, d)
        });
    proptest::option::weighted(
        0.7,
        (
            prop_oneof![Just(512u16), Just(1232u16), Just(4096u16), Just(65535u16), 512u16..=65535],
            any::<u8>(),
            any::<bool>(),
            proptest::collection::vec(opt, 0..=6),
        )
            .prop_map(|(udp_size, ext_rcode, do_bit, options)| Edns {
                udp_size,
                ext_rcode,
                version: 0,
                do_bit,
                options,
            }),
    )
}

pub fn header_strategy() -> impl Strategy<Value = Header> {
    (any::<u16>(), any::<[bool; 7]>(), 0u8..16, 0u8..16).prop_map(|(id, b, opcode, rcode)| Header {
        id,
        qr: b[0],
        opcode,
        aa: b[1],
        tc: b[2],
        rd: b[3],
        ra: b[4],
        z: false,
        ad: b[5],
        cd: b[6],
        rcode,
    })
}

#[derive(Clone, Copy, Debug)]
pub struct MsgSize {
    pub min_records: usize,
    pub max_records: usize,
    pub max_raw: usize,
}

/// A whole message (one question; OPT, if any, last in the additional section).
pub fn message_strategy(sz: MsgSize) -> impl Strategy<Value = Message> {
    (name_pool_strategy(), sz.min_records.max(1)..=sz.max_records).prop_flat_map(move |(pool, n)| {
        let np = pool.len();
        let pool2 = pool.clone();
        (
            header_strategy(),
            any::<u16>(),
            prop_oneof![Just(T_A), Just(T_AAAA), Just(T_MX), Just(T_NS), Just(T_SOA), Just(T_TXT), any::<u16>()],
            prop_oneof![9 => Just(1u16), 1 => any::<u16>()],
            proptest::collection::vec(
                (rr_strategy(pool.clone(), RrSize { max_raw: sz.max_raw }), 0u8..3),
                (if sz.min_records > 0 { n } else { 0 })..=n,
            ),
            edns_strategy(),
            // a ladder: the k-th name of the message is one label in front of the (k-1)-th, so
            // that a compressing encoder chains k pointers (suffixes shared at every depth)
            proptest::option::weighted(0.15, (2usize..=126, 1usize..=3)),
        )
            .prop_map(move |(header, qi, qtype, qclass, rrs, edns, ladder)| {
                let mut m = Message {
                    header,
                    questions: vec![Question {
                        name: pool2[pick_idx(qi, np)].clone(),
                        qtype,
                        qclass,
                    }],
                    ..Default::default()
                };
                for (r, sec) in rrs {
                    match sec {
                        0 => m.answer.push(r),
                        1 => m.authority.push(r),
                        _ => m.additional.push(r),
                    }
                }
                if let Some((depth, lablen)) = ladder {
                    let mut names: Vec<Name> = vec![];
                    let mut cur: Name = vec![b"top".to_vec()];
                    let mut wire = 5;
                    names.push(cur.clone());
                    for k in 0..depth {
                        let l: Vec<u8> = format!("{:03}", k).as_bytes()[3 - lablen..].to_vec();
                        if wire + l.len() + 1 > 255 {
                            break;
                        }
                        wire += l.len() + 1;
                        cur.insert(0, l);
                        names.push(cur.clone());
                    }
                    m.questions[0].name = names[0].clone();
                    let last = names.len() - 1;
                    for (k, r) in m.answer.iter_mut().chain(m.authority.iter_mut()).chain(m.additional.iter_mut()).enumerate() {
                        r.name = names[(k + 1).min(last)].clone();
                    }
                }
                if let Some(e) = &edns {
                    // usually last, as senders write it; RFC 6891 6.1.1 lets it sit anywhere in
                    // the additional section
                    let n = m.additional.len();
                    let at = if e.udp_size % 4 == 3 && n > 0 { (e.udp_size as usize / 4) % (n + 1) } else { n };
                    m.additional.insert(at, opt_rr(e));
                } else {
                    // without OPT there is no place for the extended rcode
                }
                m
            })
    })
}
