//! Common plumbing: run context, counters, evidence writer, known findings, proptest driver,
//! shrinking to a replay file, panic capture.

use proptest::strategy::Strategy;
use proptest::test_runner::{Config, RngSeed, TestCaseError, TestError, TestRunner};
use serde::de::DeserializeOwned;
use serde::Serialize;
use serde_json::{json, Value};
use std::cell::RefCell;
use std::collections::{BTreeMap, HashSet};
use std::hash::{Hash, Hasher};
use std::sync::atomic::{AtomicBool, AtomicU64, Ordering};
use std::sync::Mutex;
use std::time::Instant;

pub const VERIF_DIR: &str = "/verif";

#[derive(Clone, Copy, PartialEq, Eq, Debug)]
pub enum Tier {
    Quick,
    Thorough,
}

impl Tier {
    pub fn name(self) -> &'static str {
        match self {
            Tier::Quick => "quick",
            Tier::Thorough => "thorough",
        }
    }
    /// pick(quick, thorough)
    pub fn pick<T>(self, q: T, t: T) -> T {
        match self {
            Tier::Quick => q,
            Tier::Thorough => t,
        }
    }
}

/// A failed oracle.  `sig` identifies the failing class (used for known findings and for keeping
/// the same failure while shrinking); `detail` is for humans.
#[derive(Clone, Debug)]
pub struct Fail {
    pub sig: String,
    pub detail: String,
}

impl Fail {
    pub fn new(sig: impl Into<String>, detail: impl Into<String>) -> Fail {
        Fail {
            sig: sig.into(),
            detail: detail.into(),
        }
    }
}

/// What one executed case reports back.
#[derive(Default, Debug)]
pub struct Outcome {
    pub nontrivial: bool,
    pub classes: Vec<&'static str>,
    /// known-finding signatures met (and masked) while executing this case
    pub known_hits: Vec<String>,
    /// reasons for which (part of) the case was skipped
    pub excluded: Vec<&'static str>,
    pub fail: Option<Fail>,
}

impl Outcome {
    pub fn class(&mut self, c: &'static str) {
        if !self.classes.contains(&c) {
            self.classes.push(c);
        }
    }
    pub fn fail(&mut self, sig: impl Into<String>, detail: impl Into<String>) {
        if self.fail.is_none() {
            self.fail = Some(Fail::new(sig, detail));
        }
    }
}

pub struct Known {
    pub key: String,
    pub text: String,
}

pub struct Violation {
    pub sub: String,
    pub sig: String,
    pub detail: String,
    pub replay: String,
}

pub struct Ctx {
    pub id: String,
    pub tier: Tier,
    pub seed: u64,
    pub level: &'static str,
    start: Instant,
    evals: AtomicU64,
    nontrivial: Mutex<HashSet<u64>>,
    classes: Mutex<BTreeMap<String, u64>>,
    excluded: Mutex<BTreeMap<String, u64>>,
    samples: Mutex<Samples>,
    pub violations: Mutex<Vec<Violation>>,
    pub known: Vec<Known>,
    known_hits: Mutex<BTreeMap<String, u64>>,
    assumptions: Mutex<Vec<String>>,
    rules: Mutex<Vec<String>>,
    extra: Mutex<BTreeMap<String, Value>>,
    transient: AtomicU64,
    exhaustive: AtomicBool,
    inconclusive: Mutex<Option<String>>,
}

#[derive(Default)]
struct Samples {
    any: Option<Value>,
    first: Option<Value>,
    largest: Option<(usize, Value)>,
    lowhash: Vec<(u64, Value)>,
}

pub fn hash64<T: Hash>(t: &T) -> u64 {
    let mut h = std::collections::hash_map::DefaultHasher::new();
    t.hash(&mut h);
    h.finish()
}

pub fn mix(a: u64, b: u64) -> u64 {
    hash64(&(a, b))
}

fn clip_sample(v: Value) -> Value {
    let s = v.to_string();
    if s.len() <= 6000 {
        v
    } else {
        let mut cut = 6000;
        while !s.is_char_boundary(cut) {
            cut -= 1;
        }
        json!({"truncated_case_json_prefix": &s[..cut], "full_json_len": s.len()})
    }
}

pub fn load_known(id: &str) -> Vec<Known> {
    let mut out = vec![];
    let path = format!("{}/KNOWN_FINDINGS.txt", VERIF_DIR);
    if let Ok(text) = std::fs::read_to_string(&path) {
        for line in text.lines() {
            let line = line.trim();
            if let Some(rest) = line.strip_prefix("known:") {
                let rest = rest.trim();
                let mut parts = rest.splitn(3, ' ');
                let p = parts.next().unwrap_or("");
                let k = parts.next().unwrap_or("");
                let text = parts.next().unwrap_or("").to_string();
                if p == format!("property={}", id) {
                    if let Some(key) = k.strip_prefix("key=") {
                        out.push(Known {
                            key: key.to_string(),
                            text,
                        });
                    }
                }
            }
        }
    }
    out
}

impl Ctx {
    pub fn new(id: &str, tier: Tier, level: &'static str) -> Ctx {
        let seed = std::env::var("VERIF_SEED")
            .ok()
            .and_then(|s| s.trim().parse::<i64>().ok())
            .map(|v| v as u64)
            .unwrap_or(0);
        Ctx {
            id: id.to_string(),
            tier,
            seed,
            level,
            start: Instant::now(),
            evals: AtomicU64::new(0),
            nontrivial: Default::default(),
            classes: Default::default(),
            excluded: Default::default(),
            samples: Default::default(),
            violations: Default::default(),
            known: load_known(id),
            known_hits: Default::default(),
            assumptions: Default::default(),
            rules: Default::default(),
            extra: Default::default(),
            transient: AtomicU64::new(0),
            exhaustive: AtomicBool::new(false),
            inconclusive: Mutex::new(None),
        }
    }

    pub fn is_known(&self, sig: &str) -> bool {
        self.known.iter().any(|k| k.key == sig)
    }

    pub fn assume(&self, s: impl Into<String>) {
        let s = s.into();
        let mut a = self.assumptions.lock().unwrap();
        if !a.contains(&s) {
            a.push(s);
        }
    }

    pub fn rule(&self, s: impl Into<String>) {
        self.rules.lock().unwrap().push(s.into());
    }

    pub fn extra(&self, k: &str, v: Value) {
        self.extra.lock().unwrap().insert(k.to_string(), v);
    }

    pub fn set_exhaustive(&self, b: bool) {
        self.exhaustive.store(b, Ordering::Relaxed);
    }

    pub fn set_inconclusive(&self, why: impl Into<String>) {
        *self.inconclusive.lock().unwrap() = Some(why.into());
    }

    pub fn add_transient(&self) {
        self.transient.fetch_add(1, Ordering::Relaxed);
    }

    pub fn count_class(&self, c: &str, n: u64) {
        *self.classes.lock().unwrap().entry(c.to_string()).or_insert(0) += n;
    }

    pub fn count_excluded(&self, c: &str, n: u64) {
        *self.excluded.lock().unwrap().entry(c.to_string()).or_insert(0) += n;
    }

    pub fn known_hit(&self, sig: &str) {
        *self
            .known_hits
            .lock()
            .unwrap()
            .entry(sig.to_string())
            .or_insert(0) += 1;
    }

    pub fn evaluations(&self) -> u64 {
        self.evals.load(Ordering::Relaxed)
    }

    /// Account for one executed case (not called while shrinking).
    pub fn record<C: Serialize>(&self, sub: &str, case: &C, out: &Outcome) {
        self.evals.fetch_add(1, Ordering::Relaxed);
        {
            let mut cl = self.classes.lock().unwrap();
            for c in &out.classes {
                *cl.entry(format!("{}:{}", sub, c)).or_insert(0) += 1;
            }
            *cl.entry(format!("{}:cases", sub)).or_insert(0) += 1;
            if out.nontrivial {
                *cl.entry(format!("{}:nontrivial", sub)).or_insert(0) += 1;
            }
        }
        for e in &out.excluded {
            self.count_excluded(&format!("{}:{}", sub, e), 1);
        }
        for k in &out.known_hits {
            self.known_hit(k);
        }
        if !out.nontrivial {
            let mut s = self.samples.lock().unwrap();
            if s.any.is_none() {
                s.any = Some(json!({"sub": sub, "trivial": true, "case": serde_json::to_value(case).unwrap_or(Value::Null)}));
            }
        }
        if out.nontrivial {
            let bytes = serde_json::to_vec(case).unwrap_or_default();
            let h = hash64(&(sub, &bytes));
            let fresh = self.nontrivial.lock().unwrap().insert(h);
            if fresh {
                let mut s = self.samples.lock().unwrap();
                let want_first = s.first.is_none();
                let want_largest = s.largest.as_ref().map(|(l, _)| bytes.len() > *l).unwrap_or(true);
                let want_low = s.lowhash.len() < 3 || s.lowhash.iter().any(|(x, _)| h < *x);
                if want_first || want_largest || want_low {
                    let v = json!({"sub": sub, "case": serde_json::from_slice::<Value>(&bytes).unwrap_or(Value::Null)});
                    if want_first {
                        s.first = Some(v.clone());
                    }
                    if want_largest {
                        s.largest = Some((bytes.len(), v.clone()));
                    }
                    if want_low {
                        s.lowhash.push((h, v));
                        s.lowhash.sort_by_key(|(x, _)| *x);
                        s.lowhash.truncate(3);
                    }
                }
            }
        }
    }

    /// Results of an external engine (a libFuzzer campaign): `evals` executions, of which the
    /// inputs identified by `distinct` (content hashes of what the engine kept as
    /// coverage-distinct) count as non-trivial.
    pub fn add_bulk(&self, sub: &str, evals: u64, distinct: impl Iterator<Item = u64>) {
        self.evals.fetch_add(evals, Ordering::Relaxed);
        let mut n = 0u64;
        {
            let mut nt = self.nontrivial.lock().unwrap();
            for h in distinct {
                if nt.insert(h) {
                    n += 1;
                }
            }
        }
        let mut cl = self.classes.lock().unwrap();
        *cl.entry(format!("{}:cases", sub)).or_insert(0) += evals;
        *cl.entry(format!("{}:nontrivial", sub)).or_insert(0) += n;
    }

    /// Record a violation with its shrunk case; writes the replay file.
    pub fn violation<C: Serialize>(&self, sub: &str, fail: &Fail, case: &C) {
        {
            // one replay per failure signature is enough
            let v = self.violations.lock().unwrap();
            if v.iter().any(|x| x.sig == fail.sig && x.sub == sub) {
                return;
            }
        }
        let casev = serde_json::to_value(case).unwrap_or(Value::Null);
        let body = json!({
            "property": self.id,
            "sub": sub,
            "sig": fail.sig,
            "detail": fail.detail,
            "seed": self.seed,
            "tier": self.tier.name(),
            "case": casev,
        });
        let text = serde_json::to_string_pretty(&body).unwrap();
        let h = hash64(&text);
        let dir = format!("{}/replays", VERIF_DIR);
        let _ = std::fs::create_dir_all(&dir);
        let path = format!("{}/{}-{}-{:016x}.json", dir, self.id, sub, h);
        let _ = std::fs::write(&path, text);
        self.violations.lock().unwrap().push(Violation {
            sub: sub.to_string(),
            sig: fail.sig.clone(),
            detail: fail.detail.clone(),
            replay: path,
        });
    }

    /// Writes evidence, prints the result lines, returns the process exit code.
    pub fn finish(&self) -> i32 {
        let wall = self.start.elapsed().as_secs_f64();
        let viol = self.violations.lock().unwrap();
        let s = self.samples.lock().unwrap();
        let mut samples: Vec<Value> = vec![];
        if let Some(f) = &s.first {
            samples.push(clip_sample(f.clone()));
        }
        if let Some((_, l)) = &s.largest {
            samples.push(clip_sample(l.clone()));
        }
        for (_, v) in &s.lowhash {
            samples.push(clip_sample(v.clone()));
        }
        samples.dedup();
        if samples.is_empty() {
            if let Some(a) = &s.any {
                samples.push(clip_sample(a.clone()));
            }
        }
        let classes: BTreeMap<String, u64> = self.classes.lock().unwrap().clone();
        let excluded: BTreeMap<String, u64> = self.excluded.lock().unwrap().clone();
        let known_hits: BTreeMap<String, u64> = self.known_hits.lock().unwrap().clone();
        let mut coverage = json!({
            "evaluations": self.evals.load(Ordering::Relaxed),
            "distinct_nontrivial": self.nontrivial.lock().unwrap().len(),
            "rule": self.rules.lock().unwrap().join(" || "),
            "samples": samples,
            "classes": classes,
            "excluded": excluded,
            "known_finding_hits": known_hits,
            "transient": self.transient.load(Ordering::Relaxed),
            "exhaustive": self.exhaustive.load(Ordering::Relaxed),
        });
        for (k, v) in self.extra.lock().unwrap().iter() {
            coverage[k] = v.clone();
        }
        let ev = json!({
            "property_id": self.id,
            "tier": self.tier.name(),
            "seed": self.seed as i64,
            "level": self.level,
            "coverage": coverage,
            "assumptions": *self.assumptions.lock().unwrap(),
            "wall_s": wall,
            "violations": viol.len(),
            "violation_list": viol.iter().map(|v| json!({"sub": v.sub, "sig": v.sig, "detail": v.detail, "replay": v.replay})).collect::<Vec<_>>(),
        });
        let dir = format!("{}/evidence", VERIF_DIR);
        let _ = std::fs::create_dir_all(&dir);
        let path = format!("{}/{}.json", dir, self.id);
        std::fs::write(&path, serde_json::to_string_pretty(&ev).unwrap()).expect("write evidence");

        println!(
            "[{}] tier={} seed={} evaluations={} distinct_nontrivial={} wall={:.1}s",
            self.id,
            self.tier.name(),
            self.seed,
            self.evals.load(Ordering::Relaxed),
            self.nontrivial.lock().unwrap().len(),
            wall
        );
        for k in &self.known {
            let n = known_hits.get(&k.key).copied().unwrap_or(0);
            println!(
                "KNOWN-FINDING: property={} key={} {} (met {} times in this run)",
                self.id, k.key, k.text, n
            );
        }
        for v in viol.iter() {
            println!("  violation sub={} sig={} detail={}", v.sub, v.sig, v.detail);
            println!("VIOLATION property={} replay={}", self.id, v.replay);
        }
        if !viol.is_empty() {
            return 1;
        }
        if let Some(why) = &*self.inconclusive.lock().unwrap() {
            println!("INCONCLUSIVE property={} reason={}", self.id, why);
            return 2;
        }
        if self.nontrivial.lock().unwrap().len() < 2 {
            println!(
                "INCONCLUSIVE property={} reason=generator-degenerate (fewer than 2 distinct non-trivial cases)",
                self.id
            );
            return 2;
        }
        0
    }
}

// ---------------------------------------------------------------------------------------------
// panic capture

thread_local! {
    static LAST_PANIC: RefCell<Option<(String, String)>> = const { RefCell::new(None) };
    static QUIET: RefCell<bool> = const { RefCell::new(false) };
}

pub fn install_panic_hook() {
    let default = std::panic::take_hook();
    std::panic::set_hook(Box::new(move |info| {
        let msg = if let Some(s) = info.payload().downcast_ref::<&str>() {
            s.to_string()
        } else if let Some(s) = info.payload().downcast_ref::<String>() {
            s.clone()
        } else {
            "<non-string panic>".to_string()
        };
        let loc = info
            .location()
            .map(|l| format!("{}:{}", l.file(), l.line()))
            .unwrap_or_else(|| "<unknown>".into());
        LAST_PANIC.with(|p| *p.borrow_mut() = Some((msg, loc)));
        let quiet = QUIET.with(|q| *q.borrow());
        if !quiet {
            default(info);
        }
    }));
}

/// Signature of a panic: file (without line, relative to the repository) + the message with digits
/// folded, so that "index 7 out of range for slice of length 5" and "... 3 ... 2" are one class.
pub fn panic_sig(msg: &str, loc: &str) -> String {
    let file = loc.rsplit_once(':').map(|(f, _)| f).unwrap_or(loc);
    let file = file
        .trim_start_matches("/repo/crates/")
        .trim_start_matches("/repo/");
    let mut m = String::new();
    let mut last_digit = false;
    for ch in msg.chars().take(80) {
        if ch.is_ascii_digit() {
            if !last_digit {
                m.push('N');
            }
            last_digit = true;
        } else {
            last_digit = false;
            m.push(if ch == ' ' || ch == '\n' { '_' } else { ch });
        }
    }
    format!("panic:{}:{}", file, m)
}

/// Run `f`, turning a panic into a `Fail` with a stable signature.
pub fn guard<T>(f: impl FnOnce() -> T) -> Result<T, Fail> {
    QUIET.with(|q| *q.borrow_mut() = true);
    LAST_PANIC.with(|p| *p.borrow_mut() = None);
    let r = std::panic::catch_unwind(std::panic::AssertUnwindSafe(f));
    QUIET.with(|q| *q.borrow_mut() = false);
    match r {
        Ok(v) => Ok(v),
        Err(_) => {
            let (msg, loc) = LAST_PANIC
                .with(|p| p.borrow_mut().take())
                .unwrap_or_else(|| ("<unknown>".into(), "<unknown>".into()));
            Err(Fail::new(
                panic_sig(&msg, &loc),
                format!("panicked at {}: {}", loc, msg),
            ))
        }
    }
}

// ---------------------------------------------------------------------------------------------
// property driver

pub trait Prop: Sync {
    type Case: std::fmt::Debug + Clone + Serialize + DeserializeOwned + Send;
    fn sub(&self) -> &'static str;
    /// Execute one case against the real code and the oracle.  Must not panic for a property
    /// violation: panics of the code under test are to be caught with `guard` where the property
    /// is about panics; elsewhere a panic is reported by the driver as a failure with a panic
    /// signature.
    fn check(&self, case: &Self::Case) -> Outcome;
}

/// Execute `prop.check` under the panic guard.
pub fn exec<P: Prop>(prop: &P, case: &P::Case) -> Outcome {
    match guard(|| prop.check(case)) {
        Ok(o) => o,
        Err(f) => Outcome {
            fail: Some(f),
            ..Default::default()
        },
    }
}

/// Masks a failure that matches a known finding; returns the effective outcome.
fn mask_known(ctx: &Ctx, mut out: Outcome) -> Outcome {
    if let Some(f) = &out.fail {
        if ctx.is_known(&f.sig) {
            out.known_hits.push(f.sig.clone());
            out.excluded.push("known-finding");
            out.fail = None;
        }
    }
    out
}

/// Run `cases` generated cases of `prop`, split over `workers` threads.
pub fn run_prop<P, S, M>(ctx: &Ctx, prop: &P, mk: M, cases: u64, workers: usize)
where
    P: Prop,
    S: Strategy<Value = P::Case>,
    M: Fn() -> S + Sync,
{
    let workers = workers.max(1);
    let per = cases.div_ceil(workers as u64);
    let stop = AtomicBool::new(false);
    std::thread::scope(|scope| {
        for w in 0..workers {
            let stop = &stop;
            let mk = &mk;
            scope.spawn(move || {
                let strat = mk();
                let strat = &strat;
                let wseed = mix(mix(ctx.seed, hash64(&(ctx.id.as_str(), prop.sub()))), w as u64);
                let cfg = Config {
                    cases: per as u32,
                    rng_seed: RngSeed::Fixed(wseed),
                    failure_persistence: None,
                    max_shrink_iters: 4000,
                    // shrinking is a convenience; a big failing case must not hold the verdict
                    // up for minutes (the unshrunk case is a valid replay too)
                    max_shrink_time: 45_000,
                    max_global_rejects: 1 << 20,
                    ..Config::default()
                };
                let mut runner = TestRunner::new(cfg);
                let failed = AtomicBool::new(false);
                let res = runner.run(strat, |case| {
                    if stop.load(Ordering::Relaxed) && !failed.load(Ordering::Relaxed) {
                        // another worker found a violation: finish quietly
                        return Ok(());
                    }
                    let out = mask_known(ctx, exec(prop, &case));
                    if !failed.load(Ordering::Relaxed) {
                        ctx.record(prop.sub(), &case, &out);
                    }
                    match out.fail {
                        None => Ok(()),
                        Some(f) => {
                            failed.store(true, Ordering::Relaxed);
                            Err(TestCaseError::fail(f.sig))
                        }
                    }
                });
                match res {
                    Ok(()) => {}
                    Err(TestError::Fail(_reason, minimal)) => {
                        stop.store(true, Ordering::Relaxed);
                        let out = mask_known(ctx, exec(prop, &minimal));
                        let fail = out.fail.unwrap_or_else(|| {
                            Fail::new(
                                "unstable",
                                "failure did not reproduce on the shrunk case (non-deterministic?)",
                            )
                        });
                        if fail.sig == "unstable" {
                            ctx.add_transient();
                        } else {
                            ctx.violation(prop.sub(), &fail, &minimal);
                        }
                    }
                    Err(TestError::Abort(reason)) => {
                        ctx.set_inconclusive(format!("proptest aborted: {}", reason));
                    }
                }
            });
        }
    });
}

/// Run explicit cases (enumerations, corpus replay).  Stops at the first unknown failure.
pub fn run_list<P: Prop>(ctx: &Ctx, prop: &P, cases: impl IntoIterator<Item = P::Case>) {
    for case in cases {
        let out = mask_known(ctx, exec(prop, &case));
        ctx.record(prop.sub(), &case, &out);
        if let Some(f) = out.fail {
            ctx.violation(prop.sub(), &f, &case);
            return;
        }
    }
}

/// Parallel version of run_list for large enumerations; cases are produced by index.
pub fn run_indexed<P, G>(ctx: &Ctx, prop: &P, n: u64, workers: usize, produce: G)
where
    P: Prop,
    G: Fn(u64) -> Option<P::Case> + Sync,
{
    let next = AtomicU64::new(0);
    let stop = AtomicBool::new(false);
    std::thread::scope(|scope| {
        for _ in 0..workers.max(1) {
            scope.spawn(|| loop {
                if stop.load(Ordering::Relaxed) {
                    return;
                }
                let i = next.fetch_add(1, Ordering::Relaxed);
                if i >= n {
                    return;
                }
                if let Some(case) = produce(i) {
                    let out = mask_known(ctx, exec(prop, &case));
                    ctx.record(prop.sub(), &case, &out);
                    if let Some(f) = out.fail {
                        if !stop.swap(true, Ordering::Relaxed) {
                            ctx.violation(prop.sub(), &f, &case);
                        }
                        return;
                    }
                }
            });
        }
    });
}

/// Replay one saved case without proptest.  Returns the outcome (known findings are NOT masked:
/// replay is strict).
pub fn replay_prop<P: Prop>(prop: &P, case: &Value) -> Result<Outcome, String> {
    let c: P::Case = serde_json::from_value(case.clone()).map_err(|e| e.to_string())?;
    Ok(exec(prop, &c))
}

/// Monotone index map: keeps shrinking towards the first element.
pub fn pick_idx(i: u16, len: usize) -> usize {
    if len == 0 {
        0
    } else {
        ((i as usize) * len) >> 16
    }
}

// ---------------------------------------------------------------------------------------------
// wire driver: cases are generated by a proptest strategy, executed in concurrent batches against
// a long-lived rig, confirmed by re-execution and shrunk with a bounded number of re-executions.

pub trait WireProp: Sync {
    type Case: std::fmt::Debug + Clone + Serialize + DeserializeOwned + Send + Sync;
    fn sub(&self) -> &'static str;
    /// Execute the cases concurrently; one outcome per case, in order.
    fn exec_batch(&self, cases: &[Self::Case]) -> Vec<Outcome>;
}

pub fn exec_one<P: WireProp>(prop: &P, case: &P::Case) -> Outcome {
    prop.exec_batch(std::slice::from_ref(case)).pop().unwrap_or_default()
}

pub fn run_wire<P, S>(ctx: &Ctx, prop: &P, strat: S, total: u64, batch: usize)
where
    P: WireProp,
    S: Strategy<Value = P::Case>,
{
    use proptest::strategy::ValueTree;
    let seed = mix(mix(ctx.seed, hash64(&(ctx.id.as_str(), prop.sub()))), 0x77);
    let cfg = Config {
        rng_seed: RngSeed::Fixed(seed),
        failure_persistence: None,
        ..Config::default()
    };
    let mut runner = TestRunner::new(cfg);
    let mut done = 0u64;
    while done < total {
        let n = batch.min((total - done) as usize);
        let mut trees = vec![];
        for _ in 0..n {
            match strat.new_tree(&mut runner) {
                Ok(t) => trees.push(t),
                Err(e) => {
                    ctx.set_inconclusive(format!("strategy rejected: {}", e));
                    return;
                }
            }
        }
        let cases: Vec<P::Case> = trees.iter().map(|t| t.current()).collect();
        let outs = prop.exec_batch(&cases);
        done += n as u64;
        let mut failing: Option<usize> = None;
        for (i, out) in outs.into_iter().enumerate() {
            let out = mask_known(ctx, out);
            ctx.record(prop.sub(), &cases[i], &out);
            if out.fail.is_some() && failing.is_none() {
                failing = Some(i);
                // keep the signature for confirmation
                trees[i].current();
                FAIL_SIG.with(|f| *f.borrow_mut() = out.fail.clone());
            }
        }
        if let Some(i) = failing {
            let first = FAIL_SIG.with(|f| f.borrow_mut().take()).unwrap();
            // confirm twice, alone
            let mut confirmed = true;
            for _ in 0..2 {
                let o = mask_known(ctx, exec_one(prop, &cases[i]));
                if o.fail.as_ref().map(|f| &f.sig) != Some(&first.sig) {
                    confirmed = false;
                    break;
                }
            }
            if !confirmed && first.sig.starts_with("panic:") {
                // a panic line in the server's log is a fact about the server whether or not
                // this case brings it about again: it may be the late effect of an earlier case
                // of the run (a timer, a reply in flight).  Reported as found.
                let mut f = first.clone();
                f.detail = format!("{} [seen once in this run and not reproduced by re-running this case alone: it may stem from an earlier case]", f.detail);
                ctx.violation(prop.sub(), &f, &cases[i]);
                return;
            }
            if !confirmed {
                ctx.add_transient();
                ctx.count_excluded(&format!("{}:transient-not-reproduced:{}", prop.sub(), first.sig), 1);
                continue;
            }
            // bounded shrinking
            let tree = &mut trees[i];
            let mut best = cases[i].clone();
            let mut best_fail = first.clone();
            let mut budget = 40;
            while budget > 0 {
                if !tree.simplify() {
                    break;
                }
                loop {
                    budget -= 1;
                    let c = tree.current();
                    let o = mask_known(ctx, exec_one(prop, &c));
                    if o.fail.as_ref().map(|f| &f.sig) == Some(&first.sig) {
                        best = c;
                        best_fail = o.fail.unwrap();
                        break;
                    }
                    if budget == 0 || !tree.complicate() {
                        budget = 0;
                        break;
                    }
                }
            }
            ctx.violation(prop.sub(), &best_fail, &best);
            return;
        }
    }
}

thread_local! {
    static FAIL_SIG: RefCell<Option<Fail>> = const { RefCell::new(None) };
}

pub fn replay_wire<P: WireProp>(prop: &P, case: &Value) -> Result<Outcome, String> {
    let c: P::Case = serde_json::from_value(case.clone()).map_err(|e| e.to_string())?;
    Ok(exec_one(prop, &c))
}
