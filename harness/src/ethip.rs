//! Ethernet II / IPv4 / UDP decoder with one's-complement verification (RFC 791, 768, 1071).

use std::net::Ipv4Addr;

#[derive(Clone, Debug, PartialEq, Eq)]
pub struct Udp4Frame {
    pub eth_dst: [u8; 6],
    pub eth_src: [u8; 6],
    pub ip_src: Ipv4Addr,
    pub ip_dst: Ipv4Addr,
    pub ttl: u8,
    pub sport: u16,
    pub dport: u16,
    pub udp_checksum: u16,
    pub udp_zero_corner: bool,
    pub payload: Vec<u8>,
}

pub fn ones_sum(mut sum: u32, b: &[u8]) -> u32 {
    let mut i = 0;
    while i + 1 < b.len() {
        sum += ((b[i] as u32) << 8) | b[i + 1] as u32;
        i += 2;
    }
    if i < b.len() {
        sum += (b[i] as u32) << 8;
    }
    while sum > 0xffff {
        sum = (sum >> 16) + (sum & 0xffff);
    }
    sum
}

/// Decode and verify.  Every rule that fails is reported with a distinct tag.
pub fn decode_udp4(f: &[u8]) -> Result<Udp4Frame, (String, String)> {
    let bad = |tag: &str, d: String| Err((tag.to_string(), d));
    if f.len() < 14 + 20 + 8 {
        return bad("short-frame", format!("{} octets", f.len()));
    }
    let ethertype = ((f[12] as u16) << 8) | f[13] as u16;
    if ethertype != 0x0800 {
        return bad("ethertype", format!("{:#06x}", ethertype));
    }
    let ip = &f[14..];
    if ip[0] >> 4 != 4 {
        return bad("ip-version", format!("{}", ip[0] >> 4));
    }
    let ihl = (ip[0] & 0x0f) as usize * 4;
    if ihl < 20 || ip.len() < ihl {
        return bad("ihl", format!("{}", ihl));
    }
    let total = ((ip[2] as usize) << 8) | ip[3] as usize;
    if total != ip.len() {
        return bad(
            "ip-total-length",
            format!("header says {}, frame carries {}", total, ip.len()),
        );
    }
    if ones_sum(0, &ip[..ihl]) != 0xffff {
        return bad(
            "ip-checksum",
            format!("header sums to {:#06x}", ones_sum(0, &ip[..ihl])),
        );
    }
    let frag = ((ip[6] as u16) << 8 | ip[7] as u16) & 0x3fff;
    if frag != 0 {
        return bad("ip-fragment", format!("{:#06x}", frag));
    }
    if ip[9] != 17 {
        return bad("ip-protocol", format!("{}", ip[9]));
    }
    let src = Ipv4Addr::new(ip[12], ip[13], ip[14], ip[15]);
    let dst = Ipv4Addr::new(ip[16], ip[17], ip[18], ip[19]);
    let udp = &ip[ihl..];
    if udp.len() < 8 {
        return bad("udp-short", format!("{}", udp.len()));
    }
    let ulen = ((udp[4] as usize) << 8) | udp[5] as usize;
    if ulen != udp.len() {
        return bad(
            "udp-length",
            format!("header says {}, datagram carries {}", ulen, udp.len()),
        );
    }
    let ck = ((udp[6] as u16) << 8) | udp[7] as u16;
    let mut zero_corner = false;
    // pseudo header
    let mut ph = vec![];
    ph.extend_from_slice(&ip[12..20]);
    ph.push(0);
    ph.push(17);
    ph.extend_from_slice(&(ulen as u16).to_be_bytes());
    let mut s = ones_sum(0, &ph);
    s = ones_sum(s, udp);
    if ck == 0 {
        // "no checksum" is legal for UDP over IPv4, but an all-zero field is also what a sender
        // would emit if it forgot the 0 -> 0xffff substitution: verify which one it is.
        let mut z = udp.to_vec();
        z[6] = 0;
        z[7] = 0;
        let c = ones_sum(ones_sum(0, &ph), &z);
        if c != 0xffff {
            return bad(
                "udp-checksum-absent",
                "UDP checksum field is zero (not computed)".to_string(),
            );
        }
        // computed checksum is 0 and was sent as 0 instead of 0xffff: receivers take it as "no
        // checksum" and accept the datagram; counted as a separate class, not a failure
        zero_corner = true;
    } else if s != 0xffff {
        return bad("udp-checksum", format!("datagram sums to {:#06x}", s));
    }
    let mut eth_dst = [0u8; 6];
    eth_dst.copy_from_slice(&f[0..6]);
    let mut eth_src = [0u8; 6];
    eth_src.copy_from_slice(&f[6..12]);
    Ok(Udp4Frame {
        eth_dst,
        eth_src,
        ip_src: src,
        ip_dst: dst,
        ttl: ip[8],
        sport: ((udp[0] as u16) << 8) | udp[1] as u16,
        dport: ((udp[2] as u16) << 8) | udp[3] as u16,
        udp_checksum: ck,
        udp_zero_corner: zero_corner,
        payload: udp[8..].to_vec(),
    })
}

/// Build a UDP/IPv4/Ethernet frame (for injecting client packets on the wire tiers).
pub fn build_udp4(
    eth_dst: [u8; 6],
    eth_src: [u8; 6],
    src: Ipv4Addr,
    sport: u16,
    dst: Ipv4Addr,
    dport: u16,
    payload: &[u8],
) -> Vec<u8> {
    let ulen = 8 + payload.len();
    let mut udp = vec![];
    udp.extend_from_slice(&sport.to_be_bytes());
    udp.extend_from_slice(&dport.to_be_bytes());
    udp.extend_from_slice(&(ulen as u16).to_be_bytes());
    udp.extend_from_slice(&[0, 0]);
    udp.extend_from_slice(payload);
    let mut ph = vec![];
    ph.extend_from_slice(&src.octets());
    ph.extend_from_slice(&dst.octets());
    ph.push(0);
    ph.push(17);
    ph.extend_from_slice(&(ulen as u16).to_be_bytes());
    let s = ones_sum(ones_sum(0, &ph), &udp);
    let mut ck = !(s as u16);
    if ck == 0 {
        ck = 0xffff;
    }
    udp[6] = (ck >> 8) as u8;
    udp[7] = ck as u8;
    let mut ip = vec![0x45, 0, 0, 0, 0, 0, 0x40, 0, 64, 17, 0, 0];
    let total = 20 + ulen;
    ip[2] = (total >> 8) as u8;
    ip[3] = total as u8;
    ip.extend_from_slice(&src.octets());
    ip.extend_from_slice(&dst.octets());
    let c = !(ones_sum(0, &ip) as u16);
    ip[10] = (c >> 8) as u8;
    ip[11] = c as u8;
    let mut f = vec![];
    f.extend_from_slice(&eth_dst);
    f.extend_from_slice(&eth_src);
    f.extend_from_slice(&[0x08, 0x00]);
    f.extend_from_slice(&ip);
    f.extend_from_slice(&udp);
    f
}
