//! Entry points for the coverage-guided targets in /verif/fuzz (cargo-fuzz / libFuzzer).
//!
//! Each target feeds the raw input to the same code the generated checks drive and keeps the
//! semantic oracle inside the target: a violation is turned into a panic whose message starts
//! with `ORACLE <property> <signature>`, which libFuzzer saves as a crash input.  The check that
//! runs the campaign re-executes every saved input in-process through the ordinary property
//! (outside libFuzzer) to obtain the signature and the replay file.
use crate::engine::{Outcome, Prop};

fn raise(prop: &str, o: Outcome) {
    if let Some(f) = o.fail {
        panic!("ORACLE {} {}: {}", prop, f.sig, f.detail);
    }
}

/// C05 (DNS decoder and everything a query/reply passes through) + C14 (accepted bytes
/// re-encode to the same message, pointers backwards and below 0x4000).
pub fn dns(data: &[u8]) {
    crate::props_crash::run_target("dns", data);
    raise("C14", crate::props_codec::C14Bytes.check(&crate::props_codec::HexBytes(data.to_vec())));
}

/// C05 (DHCP decoder, logging helpers, handle_pkt on a fresh store, reply serialisation).
pub fn dhcp(data: &[u8]) {
    crate::props_crash::run_target("dhcp", data);
    crate::props_crash::run_target("dhcp-option-types", data);
}

/// C05 (ICMPv6 router solicitation / advertisement decoder and re-serialisation).
pub fn icmp6(data: &[u8]) {
    crate::props_crash::run_target("icmp6", data);
}

/// C05 (LLDP frame decoder).
pub fn lldp(data: &[u8]) {
    crate::props_crash::run_target("lldp", data);
}

/// C19 (any text: loads or is rejected with a message; an accepted configuration serves).
pub fn config(data: &[u8]) {
    if data.len() > 8192 {
        return;
    }
    let Ok(text) = std::str::from_utf8(data) else { return };
    raise(
        "C19",
        crate::props_conf::C19Load.check(&crate::props_conf::ConfCase {
            must_load: false,
            text: text.to_string(),
        }),
    );
}
