//! Coverage-guided tier: drives the cargo-fuzz (libFuzzer, ASan) targets of /verif/fuzz from the
//! thorough tier of C05, C14 and C19.
//!
//! A campaign is K independent libFuzzer processes (distinct -seed values derived from
//! VERIF_SEED, fixed -runs, fresh work corpus each, the committed corpus and the harness's seed
//! packets as read-only starting corpus).  The semantic oracle sits inside the target
//! (`fuzz_entry`).  Every saved crash input is re-executed alone with the target binary; what
//! fails again becomes a violation with the input as replay case, what does not is counted as
//! not reproduced.  A build failure or a missing nightly toolchain makes the tier unavailable
//! (recorded as an assumption); it is never a violation.
use crate::engine::*;
use serde::{Deserialize, Serialize};
use std::path::{Path, PathBuf};
use std::process::{Command, Stdio};

pub const FUZZ_DIR: &str = "/verif/fuzz";

#[derive(Clone, Debug, Serialize, Deserialize)]
pub struct FuzzCase {
    pub target: String,
    pub bytes: crate::props_codec::HexBytes,
}

fn bin_path(target: &str) -> PathBuf {
    PathBuf::from(format!("{}/target/x86_64-unknown-linux-gnu/release/{}", FUZZ_DIR, target))
}

pub fn build(target: &str) -> Result<(), String> {
    // development aid for long background runs that must not pick up a working tree that is
    // being modified: with this flag file present the targets are used as they were last built
    if std::path::Path::new("/dev/shm/vcheck-fuzz-nobuild").exists() && bin_path(target).exists() {
        return Ok(());
    }
    let out = Command::new("cargo")
        .args(["+nightly", "fuzz", "build", "--fuzz-dir", FUZZ_DIR, target])
        .env("CARGO_NET_OFFLINE", "true")
        .current_dir(VERIF_DIR)
        .stdout(Stdio::null())
        .stderr(Stdio::piped())
        .output()
        .map_err(|e| format!("cargo fuzz build could not be started: {}", e))?;
    if !out.status.success() || !bin_path(target).exists() {
        let e = String::from_utf8_lossy(&out.stderr);
        let tail: String = e.lines().rev().take(6).collect::<Vec<_>>().into_iter().rev().collect::<Vec<_>>().join(" | ");
        return Err(format!("cargo fuzz build {} failed: {}", target, tail));
    }
    Ok(())
}

fn seeds_for(target: &str) -> Vec<Vec<u8>> {
    match target {
        "dns" => crate::mutate::dns_seeds(),
        "dhcp" => crate::mutate::dhcp_seeds().into_iter().chain(crate::mutate::dhcp_long_split().into_iter().step_by(37)).collect(),
        "icmp6" => crate::mutate::icmp6_seeds(),
        "lldp" => crate::mutate::lldp_seeds(),
        "config" => crate::conf::reference_docs().into_iter().map(|(_, d)| d.into_bytes()).collect(),
        _ => vec![],
    }
}

/// Normalise a panic / sanitizer line into a signature (numbers folded, paths kept).
fn sig_of(stderr: &str, target: &str) -> (String, String) {
    for l in stderr.lines() {
        if let Some(p) = l.find("ORACLE ") {
            let rest = &l[p + 7..];
            // "C14 C14:roundtrip-differs: detail"
            let mut it = rest.splitn(2, ' ');
            let _prop = it.next().unwrap_or("");
            let tail = it.next().unwrap_or("");
            let sig = tail.split(": ").next().unwrap_or(tail).to_string();
            return (sig, l.trim().to_string());
        }
    }
    let lines: Vec<&str> = stderr.lines().collect();
    for (i, l) in lines.iter().enumerate() {
        if l.contains("panicked at ") {
            let loc = l.split("panicked at ").nth(1).unwrap_or("").trim_end_matches(':');
            let file = loc.split(':').next().unwrap_or("").trim_start_matches("/repo/crates/");
            let msg = lines.get(i + 1).copied().unwrap_or("");
            let mut m = String::new();
            let mut last_digit = false;
            for ch in msg.chars() {
                if ch.is_ascii_digit() {
                    if !last_digit {
                        m.push('N');
                    }
                    last_digit = true;
                } else {
                    last_digit = false;
                    m.push(if ch.is_alphanumeric() || ch == ':' { ch } else { '_' });
                }
            }
            m.truncate(48);
            return (format!("panic:{}:{}", file, m), format!("{} {}", l.trim(), msg.trim()));
        }
    }
    for l in &lines {
        if l.contains("ERROR: AddressSanitizer") || l.contains("ERROR: libFuzzer") {
            let kind: String = l.split("ERROR: ").nth(1).unwrap_or("").split_whitespace().take(2).collect::<Vec<_>>().join("-");
            return (format!("fuzz-crash:{}:{}", target, kind), l.trim().to_string());
        }
    }
    (format!("fuzz-crash:{}", target), lines.iter().rev().take(3).cloned().collect::<Vec<_>>().join(" | "))
}

/// Re-execute one input alone with the target binary.  None = it passes.
pub fn reproduce(target: &str, bytes: &[u8]) -> Result<Option<Fail>, String> {
    let bin = bin_path(target);
    if !bin.exists() {
        build(target)?;
    }
    let f = PathBuf::from(format!("/dev/shm/vcheck-fuzz-repro-{}-{:016x}", std::process::id(), hash64(&bytes)));
    std::fs::write(&f, bytes).map_err(|e| e.to_string())?;
    let out = Command::new(&bin)
        .arg(&f)
        .arg("-rss_limit_mb=4096")
        .arg("-timeout=60")
        .env("RUST_BACKTRACE", "0")
        .stdout(Stdio::null())
        .stderr(Stdio::piped())
        .output()
        .map_err(|e| e.to_string());
    let _ = std::fs::remove_file(&f);
    let out = out?;
    if out.status.success() {
        return Ok(None);
    }
    let e = String::from_utf8_lossy(&out.stderr);
    let (sig, detail) = sig_of(&e, target);
    Ok(Some(Fail { sig, detail }))
}

pub struct Campaign<'a> {
    pub target: &'a str,
    /// -runs per process
    pub runs: u64,
    pub procs: usize,
    pub max_len: usize,
}

fn stat(stderr: &str, key: &str) -> Option<u64> {
    stderr
        .lines()
        .rev()
        .find_map(|l| l.strip_prefix(&format!("stat::{}:", key)).and_then(|v| v.trim().parse().ok()))
}

pub fn run_campaign(ctx: &Ctx, c: &Campaign) {
    let sub = format!("libfuzzer-{}", c.target);
    if let Err(e) = build(c.target) {
        ctx.assume(format!("libFuzzer tier of target {} unavailable: {}", c.target, e));
        return;
    }
    let work = PathBuf::from(format!("/dev/shm/vcheck-fuzz-{}-{}", std::process::id(), c.target));
    let _ = std::fs::remove_dir_all(&work);
    let seed_dir = work.join("seeds");
    std::fs::create_dir_all(&seed_dir).ok();
    for (i, s) in seeds_for(c.target).iter().enumerate() {
        let _ = std::fs::write(seed_dir.join(format!("seed-{:03}", i)), s);
    }
    let committed = PathBuf::from(format!("{}/corpus/{}", VERIF_DIR, c.target));
    let bin = bin_path(c.target);
    let mut children = vec![];
    for k in 0..c.procs {
        let corp = work.join(format!("corpus-{}", k));
        let arts = work.join(format!("artifacts-{}", k));
        std::fs::create_dir_all(&corp).ok();
        std::fs::create_dir_all(&arts).ok();
        let mut cmd = Command::new(&bin);
        cmd.arg(&corp).arg(&seed_dir);
        if committed.is_dir() {
            cmd.arg(&committed);
        }
        // the last process explores long inputs, the others stay short (many cheap executions)
        let max_len = if k + 1 == c.procs && c.procs > 1 { c.max_len } else { c.max_len.min(2048) };
        cmd.arg(format!("-runs={}", c.runs))
            .arg(format!("-seed={}", (ctx.seed.wrapping_mul(1000) + k as u64 + 1) & 0x7fff_ffff))
            .arg("-len_control=0")
            .arg(format!("-max_len={}", max_len))
            .arg("-rss_limit_mb=4096")
            .arg("-timeout=60")
            .arg("-print_final_stats=1")
            .arg(format!("-artifact_prefix={}/", arts.display()))
            .env("RUST_BACKTRACE", "0")
            .stdout(Stdio::null())
            .stderr(Stdio::piped());
        match cmd.spawn() {
            Ok(ch) => children.push((k, ch, arts, corp)),
            Err(e) => ctx.assume(format!("libFuzzer process {} of {} could not be started: {}", k, c.target, e)),
        }
    }
    let mut executed = 0u64;
    let mut corpus_units = 0u64;
    let mut crashes: Vec<PathBuf> = vec![];
    for (k, ch, arts, corp) in children {
        let out = match ch.wait_with_output() {
            Ok(o) => o,
            Err(e) => {
                ctx.assume(format!("libFuzzer process {} of {}: {}", k, c.target, e));
                continue;
            }
        };
        let e = String::from_utf8_lossy(&out.stderr);
        executed += stat(&e, "number_of_executed_units").unwrap_or(0);
        corpus_units += std::fs::read_dir(&corp).map(|d| d.count() as u64).unwrap_or(0);
        if let Ok(d) = std::fs::read_dir(&arts) {
            for f in d.flatten() {
                crashes.push(f.path());
            }
        }
    }
    // what the campaign kept (coverage-distinct inputs; libFuzzer names them by content hash)
    let mut kept: Vec<(String, PathBuf)> = vec![];
    for k in 0..c.procs {
        if let Ok(d) = std::fs::read_dir(work.join(format!("corpus-{}", k))) {
            for f in d.flatten() {
                kept.push((f.file_name().to_string_lossy().to_string(), f.path()));
            }
        }
    }
    kept.sort();
    kept.dedup_by(|a, b| a.0 == b.0);
    let _ = corpus_units;
    let mut sampled = 0u64;
    for (_, p) in kept.iter().take(2) {
        if let Ok(b) = std::fs::read(p) {
            let mut o = Outcome::default();
            o.nontrivial = true;
            o.class("kept-by-coverage");
            ctx.record(
                &sub,
                &FuzzCase { target: c.target.to_string(), bytes: crate::props_codec::HexBytes(b) },
                &o,
            );
            sampled += 1;
        }
    }
    ctx.add_bulk(&sub, executed.saturating_sub(sampled), kept.iter().skip(2).map(|(n, _)| hash64(&(c.target, n))));
    let mut not_reproduced = 0u64;
    for f in crashes {
        let Ok(bytes) = std::fs::read(&f) else { continue };
        match reproduce(c.target, &bytes) {
            Ok(Some(fail)) => {
                if ctx.is_known(&fail.sig) {
                    ctx.known_hit(&fail.sig);
                    continue;
                }
                ctx.violation(
                    &sub,
                    &fail,
                    &FuzzCase { target: c.target.to_string(), bytes: crate::props_codec::HexBytes(bytes) },
                );
            }
            Ok(None) => not_reproduced += 1,
            Err(e) => ctx.assume(format!("crash input {} could not be re-executed: {}", f.display(), e)),
        }
    }
    if not_reproduced > 0 {
        ctx.count_excluded(&format!("{}:crash-input-not-reproduced-alone", sub), not_reproduced);
    }
    let _ = std::fs::remove_dir_all(&work);
}

pub fn replay(sub: &str, case: &serde_json::Value) -> Option<Result<Outcome, String>> {
    let target = sub.strip_prefix("libfuzzer-")?;
    let c: FuzzCase = match serde_json::from_value(case.clone()) {
        Ok(c) => c,
        Err(e) => return Some(Err(e.to_string())),
    };
    let mut out = Outcome::default();
    out.nontrivial = true;
    // always from /repo's current working tree
    if let Err(e) = build(target) {
        return Some(Err(e));
    }
    match reproduce(target, &c.bytes.0) {
        Ok(Some(f)) => out.fail(f.sig, f.detail),
        Ok(None) => {}
        Err(e) => return Some(Err(e)),
    }
    Some(Ok(out))
}

#[allow(dead_code)]
fn _unused(_: &Path) {}

/// The campaigns of one property's thorough tier.
pub fn run_for(ctx: &Ctx, id: &str) {
    if ctx.tier != Tier::Thorough {
        return;
    }
    if !ctx.violations.lock().unwrap().is_empty() {
        return;
    }
    let procs = crate::props_codec::workers();
    let targets: &[(&str, u64, usize)] = match id {
        "C05" => &[("dns", 400_000, 65535), ("dhcp", 50_000, 4096), ("icmp6", 250_000, 4096), ("lldp", 250_000, 4096)],
        "C14" => &[("dns", 600_000, 65535)],
        "C19" => &[("config", 40_000, 8192)],
        _ => &[],
    };
    ctx.rule(format!(
        "libfuzzer: coverage-guided campaigns (cargo-fuzz, ASan, debug assertions) on target(s) {:?}: {} processes each with its own -seed, fixed -runs, fresh work corpus, starting from the harness's seed packets and /verif/corpus/<target>; the oracle of the generated check (no panic/abort; C14 re-encode equality and pointer audit; C19 load-or-message plus serve-smoke) runs inside the target; non-trivial = inputs libFuzzer kept as coverage-distinct",
        targets.iter().map(|t| t.0).collect::<Vec<_>>(),
        procs
    ));
    // development aid: VCHECK_FUZZ_SCALE=n divides the number of runs
    let scale = std::env::var("VCHECK_FUZZ_SCALE").ok().and_then(|s| s.parse::<u64>().ok()).unwrap_or(1).max(1);
    for (t, runs, max_len) in targets {
        run_campaign(ctx, &Campaign { target: t, runs: *runs / scale, procs, max_len: *max_len });
        if !ctx.violations.lock().unwrap().is_empty() {
            break;
        }
    }
}
