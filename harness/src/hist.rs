//! HIST engine: DHCP histories against the real `handle_pkt` + `Pool`, time advanced by shifting
//! the stored timestamps (hook H2).

use crate::engine::pick_idx;
use crate::rfc2131 as wire;
use erbium::dhcp::{self, dhcppkt, pool};
use proptest::prelude::*;
use serde::{Deserialize, Serialize};
use std::collections::{BTreeMap, HashSet};
use std::net::Ipv4Addr;

#[derive(Clone, Debug, Serialize, Deserialize, PartialEq, Eq)]
pub struct ClientSpec {
    pub chaddr: Vec<u8>,
    pub client_id: Option<Vec<u8>>,
    pub hostname: Option<Vec<u8>>,
}

impl ClientSpec {
    pub fn identity(&self) -> Vec<u8> {
        self.client_id.clone().unwrap_or_else(|| self.chaddr.clone())
    }
}

#[derive(Clone, Debug, Serialize, Deserialize, PartialEq, Eq)]
pub struct World {
    pub clients: Vec<ClientSpec>,
    /// number of addresses in the universe 10.9.0.UADDR[i]
    pub universe: u8,
    /// pools as lists of universe indices; pool p is served on server address 10.9.0.(1+p)
    pub pools: Vec<Vec<u8>>,
    pub file_backed: bool,
}

/// Last octets of the universe addresses.  Neighbouring indices straddle the places where the
/// decimal text of an address changes width (9|10, 99|100): the store keeps addresses as TEXT,
/// and anything that compares or sorts them as text behaves differently exactly there.
const UADDR: [u8; 12] = [9, 10, 8, 11, 99, 100, 7, 12, 98, 101, 254, 4];

pub fn uaddr(i: u8) -> Ipv4Addr {
    Ipv4Addr::new(10, 9, 0, UADDR[i as usize % UADDR.len()])
}

pub fn server_ip(pool: usize) -> Ipv4Addr {
    Ipv4Addr::new(10, 9, 0, 1 + pool as u8)
}

#[derive(Clone, Debug, Serialize, Deserialize, PartialEq, Eq)]
pub enum Addr {
    None,
    /// the address last assigned to this client
    Own,
    /// the address last assigned to client k
    OfClient(u16),
    /// universe member
    Univ(u16),
    /// an address outside every pool
    Foreign,
}

#[derive(Clone, Debug, Serialize, Deserialize, PartialEq, Eq)]
pub enum Sid {
    Ours,
    /// an address this server used on another pool (in the id set only if it replied there)
    OtherOurs,
    Foreign,
    Absent,
    Malformed,
    /// option 54 present with the value 0.0.0.0: an address like any other that is not ours
    Zero,
}

#[derive(Clone, Debug, Serialize, Deserialize, PartialEq, Eq)]
pub enum SwapHow {
    Shrink,
    Grow,
    Disjoint,
    Restore,
}

#[derive(Clone, Debug, Serialize, Deserialize, PartialEq, Eq)]
pub enum Op {
    Discover {
        client: u16,
        pool: u16,
        requested: Addr,
    },
    /// SELECTING / INIT-REBOOT style: option 50, ciaddr zero
    RequestSel {
        client: u16,
        pool: u16,
        sid: Sid,
        requested: Addr,
    },
    /// RENEWING / REBINDING style: ciaddr set
    RequestRenew {
        client: u16,
        pool: u16,
        sid: Sid,
        ciaddr: Addr,
    },
    /// any other message type (or none), for C13
    Other {
        client: u16,
        pool: u16,
        msgtype: Option<u8>,
        sid: Sid,
        requested: Addr,
        ciaddr: Addr,
    },
    /// a DISCOVER/REQUEST arriving on an interface no policy matches
    Unmatched {
        client: u16,
        request: bool,
    },
    Advance {
        secs: u32,
    },
    SwapPool {
        pool: u16,
        how: SwapHow,
    },
    Reopen,
    /// Move the clock to the instant the client's latest lease expires (`off` seconds before,
    /// at, or after it), *without* the snapping of `Advance`: the next message is handled in the
    /// second in which "expired" and "unexpired" are both defensible readings.
    AdvanceToExpiry {
        client: u16,
        off: i8,
    },
}

#[derive(Clone, Debug, Serialize, Deserialize, PartialEq, Eq)]
pub struct History {
    pub world: World,
    pub ops: Vec<Op>,
}

// ---------------------------------------------------------------------------------------------
// generators

#[derive(Clone, Copy, Debug)]
pub struct Profile {
    pub max_ops: usize,
    pub w_other: u32,
    pub w_unmatched: u32,
    pub w_reopen: u32,
    pub w_swap: u32,
    pub w_advance: u32,
    /// weight of AdvanceToExpiry
    pub w_edge: u32,
    pub file_backed: bool,
}

impl Profile {
    pub fn base(max_ops: usize) -> Profile {
        Profile {
            max_ops,
            w_other: 3,
            w_unmatched: 1,
            w_reopen: 0,
            w_swap: 6,
            w_advance: 16,
            w_edge: 0,
            file_backed: false,
        }
    }
}

fn addr_strategy() -> impl Strategy<Value = Addr> {
    prop_oneof![
        1 => Just(Addr::None),
        8 => Just(Addr::Own),
        3 => any::<u16>().prop_map(Addr::OfClient),
        3 => any::<u16>().prop_map(Addr::Univ),
        1 => Just(Addr::Foreign),
    ]
}

fn sid_strategy() -> impl Strategy<Value = Sid> {
    prop_oneof![
        10 => Just(Sid::Ours),
        3 => Just(Sid::Absent),
        1 => Just(Sid::OtherOurs),
        2 => Just(Sid::Foreign),
        1 => Just(Sid::Malformed),
        1 => Just(Sid::Zero),
    ]
}

pub const ADVANCES: [u32; 12] = [
    1, 10, 100, 150, 297, 303, 600, 900, 2000, 7200, 86403, 604800,
];

pub fn op_strategy(p: Profile) -> impl Strategy<Value = Op> {
    prop_oneof![
        30 => (any::<u16>(), any::<u16>(), addr_strategy())
            .prop_map(|(client, pool, requested)| Op::Discover { client, pool, requested }),
        22 => (any::<u16>(), any::<u16>(), sid_strategy(), addr_strategy())
            .prop_map(|(client, pool, sid, requested)| Op::RequestSel { client, pool, sid, requested }),
        16 => (any::<u16>(), any::<u16>(), sid_strategy(), addr_strategy())
            .prop_map(|(client, pool, sid, ciaddr)| Op::RequestRenew { client, pool, sid, ciaddr }),
        p.w_other => (any::<u16>(), any::<u16>(), proptest::option::weighted(0.9, any::<u8>()), sid_strategy(), addr_strategy(), addr_strategy())
            .prop_map(|(client, pool, msgtype, sid, requested, ciaddr)| Op::Other { client, pool, msgtype, sid, requested, ciaddr }),
        p.w_unmatched => (any::<u16>(), any::<bool>()).prop_map(|(client, request)| Op::Unmatched { client, request }),
        p.w_advance => any::<u16>().prop_map(|i| Op::Advance { secs: ADVANCES[pick_idx(i, ADVANCES.len())] }),
        p.w_swap => (any::<u16>(), prop_oneof![Just(SwapHow::Shrink), Just(SwapHow::Grow), Just(SwapHow::Disjoint), Just(SwapHow::Restore)])
            .prop_map(|(pool, how)| Op::SwapPool { pool, how }),
        p.w_reopen => Just(Op::Reopen),
        p.w_edge => (any::<u16>(), -1i8..=1).prop_map(|(client, off)| Op::AdvanceToExpiry { client, off }),
    ]
}

fn client_strategy(i: usize) -> impl Strategy<Value = ClientSpec> {
    (
        prop_oneof![
            6 => Just(0u8),
            3 => Just(1u8),
            1 => Just(2u8),
            2 => Just(3u8),
        ],
        proptest::collection::vec(any::<u8>(), 0..7),
        any::<u16>(),
        proptest::option::weighted(0.5, proptest::collection::vec(any::<u8>(), 0..12)),
        // hardware address: the usual six octets, or (one client in eight) five, eight (EUI-64)
        // or all sixteen
        prop_oneof![21 => Just(6usize), 1 => Just(5usize), 1 => Just(8usize), 1 => Just(16usize)],
    )
        .prop_map(move |(kind, idbytes, other, hostname, hwlen)| {
            let chaddr: Vec<u8> = match hwlen {
                5 => vec![2u8, 0, 0, 0, i as u8],
                6 => vec![2u8, 0, 0, 0, 0, i as u8],
                n => {
                    let mut v = vec![2u8, 0, 0, 0, 0, i as u8];
                    v.resize(n, 0xa0 + i as u8);
                    v
                }
            };
            let client_id = match kind {
                0 => None,
                1 => {
                    // distinct by construction: type octet + client index + random tail
                    let mut v = vec![0u8, i as u8];
                    v.extend(idbytes);
                    Some(v)
                }
                2 => {
                    // the hardware address of some (possibly other) client: same identity as that
                    // client if it sends no client-id of its own
                    Some(vec![2u8, 0, 0, 0, 0, (other % 6) as u8])
                }
                _ => {
                    // the usual form on Ethernet: hardware type 1 followed by a hardware address,
                    // its own or another client's.  A different identifier than the bare address:
                    // a different client.
                    Some(vec![1u8, 2, 0, 0, 0, 0, (other % 6) as u8])
                }
            };
            ClientSpec {
                chaddr: chaddr.clone(),
                client_id,
                hostname,
            }
        })
}

pub fn world_strategy(file_backed: bool) -> impl Strategy<Value = World> {
    (2usize..=6, 2u8..=12, 1usize..=3).prop_flat_map(move |(nc, nu, np)| {
        let clients: Vec<_> = (0..nc).map(client_strategy).collect();
        let pools = proptest::collection::vec((any::<u16>(), any::<u16>()), np);
        (clients, pools).prop_map(move |(clients, pools)| {
            let pools = pools
                .into_iter()
                .map(|(mask, k)| {
                    // small pools are common: AND two draws half of the time
                    let mask = if k & 1 == 1 { mask & (k >> 1) } else { mask };
                    let mut v: Vec<u8> = (0..nu).filter(|i| mask & (1 << i) != 0).collect();
                    if v.is_empty() {
                        v.push((k % nu as u16) as u8);
                    }
                    v
                })
                .collect();
            World {
                clients,
                universe: nu,
                pools,
                file_backed,
            }
        })
    })
}

pub fn history_strategy(p: Profile) -> impl Strategy<Value = History> {
    (
        world_strategy(p.file_backed),
        proptest::collection::vec(op_strategy(p), 1..=p.max_ops),
    )
        .prop_map(|(world, ops)| History { world, ops })
}

// ---------------------------------------------------------------------------------------------
// interpreter

#[derive(Clone, Debug, PartialEq, Eq, PartialOrd, Ord)]
pub struct Row {
    pub ip: Ipv4Addr,
    pub client: Vec<u8>,
    pub start: u32,
    pub expire: u32,
    pub options: Vec<u8>,
}

#[derive(Clone, Debug)]
pub struct Reply {
    pub op: String,
    pub hlen: u8,
    pub xid: u32,
    pub flags: u16,
    pub ciaddr: Ipv4Addr,
    pub yiaddr: Ipv4Addr,
    pub giaddr: Ipv4Addr,
    pub chaddr: Vec<u8>,
    pub options: BTreeMap<u8, Vec<u8>>,
}

impl Reply {
    pub fn lease_time(&self) -> Option<u32> {
        match self.options.get(&wire::OPT_LEASE_TIME) {
            Some(v) if v.len() == 4 => Some(u32::from_be_bytes([v[0], v[1], v[2], v[3]])),
            _ => None,
        }
    }
    pub fn msg_type(&self) -> Option<u8> {
        match self.options.get(&wire::OPT_MSG_TYPE) {
            Some(v) if v.len() == 1 => Some(v[0]),
            _ => None,
        }
    }
    pub fn server_id(&self) -> Option<Ipv4Addr> {
        match self.options.get(&wire::OPT_SERVER_ID) {
            Some(v) if v.len() == 4 => Some(Ipv4Addr::new(v[0], v[1], v[2], v[3])),
            _ => None,
        }
    }
}

pub fn options_of(o: &dhcppkt::DhcpOptions) -> BTreeMap<u8, Vec<u8>> {
    let mut m = BTreeMap::new();
    for c in 0..=255u8 {
        if let Some(v) = o.other.get(&dhcppkt::DhcpOption::new(c)) {
            m.insert(c, v.clone());
        }
    }
    m
}

pub fn reply_of(r: &dhcppkt::Dhcp) -> Reply {
    Reply {
        op: format!("{}", r.op),
        hlen: r.hlen,
        xid: r.xid,
        flags: r.flags,
        ciaddr: r.ciaddr,
        yiaddr: r.yiaddr,
        giaddr: r.giaddr,
        chaddr: r.chaddr.clone(),
        options: options_of(&r.options),
    }
}

#[derive(Clone, Debug, PartialEq, Eq)]
pub enum ErrKind {
    NoAddress,
    AddressInUse,
    OtherServer,
    NoPolicy,
    NoLeases,
    UnknownType,
    Parse,
    Internal(String),
}

pub fn errkind(e: &dhcp::DhcpError) -> ErrKind {
    use dhcp::DhcpError::*;
    match e {
        UnknownMessageType(_) => ErrKind::UnknownType,
        NoLeasesConfigured => ErrKind::NoLeases,
        ParseError(_) => ErrKind::Parse,
        PoolError(pool::Error::NoAssignableAddress) => ErrKind::NoAddress,
        PoolError(pool::Error::RequestedAddressInUse) => ErrKind::AddressInUse,
        PoolError(x) => ErrKind::Internal(format!("{:?}", x)),
        InternalError(s) => ErrKind::Internal(s.clone()),
        OtherServer(_) => ErrKind::OtherServer,
        NoPolicyConfigured => ErrKind::NoPolicy,
    }
}

/// What one message step looked like from outside.
#[derive(Clone, Debug)]
pub struct MsgObs {
    pub client: usize,
    pub identity: Vec<u8>,
    pub pool: usize,
    /// addresses of the pool the request was served from (empty when no policy matches)
    pub pool_addrs: Vec<Ipv4Addr>,
    pub matched: bool,
    pub request: wire::Msg,
    pub msgtype: Option<u8>,
    /// ciaddr if non-zero, else option 50 (only meaningful for DISCOVER/REQUEST)
    pub named: Option<Ipv4Addr>,
    pub server_ip: Ipv4Addr,
    /// server-id option as sent (raw)
    pub sid_raw: Option<Vec<u8>>,
    pub ids_before: HashSet<Ipv4Addr>,
    pub before: Vec<Row>,
    pub after: Vec<Row>,
    pub wall_before: u64,
    pub wall_after: u64,
    /// virtual time = wall + total shift, at the call
    pub vnow: i64,
    pub shift: i64,
    /// some row (before or after) is within 1 s of the wall clock: expired/unexpired ambiguous
    pub clock_edge: bool,
    pub result: Result<Reply, ErrKind>,
}

pub enum StepObs {
    Msg(Box<MsgObs>),
    Advance { secs: i64 },
    Swap,
    Reopen { before: Vec<Row>, after: Vec<Row>, ok: Result<(), String> },
    Noop,
}

pub struct Sim {
    pub world: World,
    pub pool: Option<pool::Pool>,
    path: Option<std::path::PathBuf>,
    pub pools_now: Vec<Vec<u8>>,
    pub serverids: HashSet<Ipv4Addr>,
    pub last_addr: Vec<Option<Ipv4Addr>>,
    pub shift: i64,
    pub step_no: u32,
}

static FILE_SEQ: std::sync::atomic::AtomicU64 = std::sync::atomic::AtomicU64::new(0);

pub fn scratch_path(tag: &str) -> std::path::PathBuf {
    let n = FILE_SEQ.fetch_add(1, std::sync::atomic::Ordering::Relaxed);
    let base = if std::path::Path::new("/dev/shm").is_dir() {
        "/dev/shm".to_string()
    } else {
        std::env::temp_dir().to_string_lossy().to_string()
    };
    std::path::PathBuf::from(format!(
        "{}/vcheck-{}-{}-{}.sqlite",
        base,
        std::process::id(),
        tag,
        n
    ))
}

pub fn wall_now() -> u64 {
    std::time::SystemTime::now()
        .duration_since(std::time::UNIX_EPOCH)
        .unwrap()
        .as_secs()
}

/// The stored option blob is the request's options in the server's hash-map order, which is
/// random per process and per map; compare it as a sorted TLV list.
pub fn canon_options(blob: &[u8]) -> Vec<u8> {
    let mut tlvs: Vec<(u8, Vec<u8>)> = vec![];
    let mut i = 0;
    while i < blob.len() {
        let c = blob[i];
        i += 1;
        if c == 0 {
            continue;
        }
        if c == 255 {
            break;
        }
        if i >= blob.len() {
            return blob.to_vec();
        }
        let l = blob[i] as usize;
        i += 1;
        if i + l > blob.len() {
            return blob.to_vec();
        }
        tlvs.push((c, blob[i..i + l].to_vec()));
        i += l;
    }
    tlvs.sort();
    let mut out = vec![];
    for (c, v) in tlvs {
        out.push(c);
        out.push(v.len() as u8);
        out.extend(v);
    }
    out.push(255);
    out
}

pub fn rows_of(p: &mut pool::Pool) -> Vec<Row> {
    let mut v: Vec<Row> = p
        .get_leases()
        .expect("get_leases failed")
        .into_iter()
        .map(|l| Row {
            ip: l.ip,
            client: l.client_id,
            start: l.start,
            expire: l.expire,
            options: if l.options.is_empty() { vec![] } else { canon_options(&l.options) },
        })
        .collect();
    v.sort();
    v
}

/// The stored rows read straight from the database file with our own connection; independent
/// of `Pool::get_leases`.  NULL option blobs (rows written before the column existed) read as
/// empty.
pub fn rows_sql(path: &std::path::Path) -> Result<Vec<Row>, String> {
    let conn = rusqlite::Connection::open_with_flags(path, rusqlite::OpenFlags::SQLITE_OPEN_READ_ONLY)
        .map_err(|e| e.to_string())?;
    let mut st = conn
        .prepare("SELECT address, clientid, start, expiry, options FROM leases")
        .map_err(|e| e.to_string())?;
    let mut v: Vec<Row> = st
        .query_map([], |r| {
            let a: String = r.get(0)?;
            let c: Option<Vec<u8>> = r.get(1)?;
            let s: i64 = r.get(2)?;
            let e: i64 = r.get(3)?;
            let o: Option<Vec<u8>> = r.get(4)?;
            Ok((a, c, s, e, o))
        })
        .map_err(|e| e.to_string())?
        .collect::<Result<Vec<_>, _>>()
        .map_err(|e| e.to_string())?
        .into_iter()
        .map(|(a, c, s, e, o)| Row {
            ip: a.parse().unwrap_or(Ipv4Addr::UNSPECIFIED),
            client: c.unwrap_or_default(),
            start: s as _,
            expire: e as _,
            options: match o {
                Some(o) if !o.is_empty() => canon_options(&o),
                _ => vec![],
            },
        })
        .collect();
    v.sort();
    Ok(v)
}

/// The listing the API is built from, as a Result (rows_of panics on an error).
pub fn listing_of(p: &mut pool::Pool) -> Result<Vec<Row>, String> {
    let mut v: Vec<Row> = p
        .get_leases()
        .map_err(|e| e.to_string())?
        .into_iter()
        .map(|l| Row {
            ip: l.ip,
            client: l.client_id,
            start: l.start,
            expire: l.expire,
            options: if l.options.is_empty() { vec![] } else { canon_options(&l.options) },
        })
        .collect();
    v.sort();
    Ok(v)
}

pub fn make_config(subnet_base: Ipv4Addr, addrs: &[Ipv4Addr]) -> erbium::config::Config {
    let mut pol = dhcp::config::Policy::default();
    pol.match_subnet = Some(erbium_net::Ipv4Subnet::new(subnet_base, 24).unwrap());
    pol.apply_address = Some(addrs.iter().copied().collect());
    let mut conf = erbium::config::Config::default();
    conf.dhcp = dhcp::config::Config {
        policies: vec![pol],
    };
    conf
}

impl Drop for Sim {
    fn drop(&mut self) {
        self.pool = None;
        if let Some(p) = &self.path {
            let _ = std::fs::remove_file(p);
            let _ = std::fs::remove_file(format!("{}-journal", p.display()));
        }
    }
}

impl Sim {
    pub fn new(world: &World) -> Sim {
        let (pool, path) = if world.file_backed {
            let path = scratch_path("hist");
            let _ = std::fs::remove_file(&path);
            (
                pool::Pool::verif_open(&path).expect("open scratch lease db"),
                Some(path),
            )
        } else {
            (pool::Pool::new_in_memory().expect("in-memory pool"), None)
        };
        Sim {
            world: world.clone(),
            pool: Some(pool),
            path,
            pools_now: world.pools.clone(),
            serverids: HashSet::new(),
            last_addr: vec![None; world.clients.len()],
            shift: 0,
            step_no: 0,
        }
    }

    /// A file-backed world whose database file already exists (written by the caller, e.g. in
    /// the layout of an older release); the file is removed when the Sim is dropped.
    pub fn with_existing_db(world: &World, path: std::path::PathBuf) -> Result<Sim, String> {
        let pool = pool::Pool::verif_open(&path).map_err(|e| e.to_string())?;
        Ok(Sim {
            world: world.clone(),
            pool: Some(pool),
            path: Some(path),
            pools_now: world.pools.clone(),
            serverids: HashSet::new(),
            last_addr: vec![None; world.clients.len()],
            shift: 0,
            step_no: 0,
        })
    }

    pub fn rows(&mut self) -> Vec<Row> {
        rows_of(self.pool.as_mut().unwrap())
    }

    pub fn db_path(&self) -> Option<std::path::PathBuf> {
        self.path.clone()
    }

    fn resolve(&self, a: &Addr, client: usize) -> Option<Ipv4Addr> {
        match a {
            Addr::None => None,
            Addr::Own => self.last_addr[client],
            Addr::OfClient(k) => {
                let k = pick_idx(*k, self.world.clients.len());
                self.last_addr[k].or(Some(uaddr(0)))
            }
            Addr::Univ(i) => Some(uaddr(pick_idx(*i, self.world.universe as usize) as u8)),
            Addr::Foreign => Some(Ipv4Addr::new(192, 168, 77, 77)),
        }
    }

    fn sid_bytes(&self, sid: &Sid, pool: usize) -> Option<Vec<u8>> {
        match sid {
            Sid::Ours => Some(server_ip(pool).octets().to_vec()),
            Sid::OtherOurs => Some(server_ip((pool + 1) % 3).octets().to_vec()),
            Sid::Foreign => Some(vec![192, 168, 77, 1]),
            Sid::Absent => None,
            Sid::Malformed => Some(vec![10, 9, 0]),
            Sid::Zero => Some(vec![0, 0, 0, 0]),
        }
    }

    fn build_request(
        &self,
        client: usize,
        msgtype: Option<u8>,
        sid: Option<Vec<u8>>,
        requested: Option<Ipv4Addr>,
        ciaddr: Option<Ipv4Addr>,
    ) -> wire::Msg {
        let c = &self.world.clients[client];
        let mut m = wire::Msg {
            xid: 0x1000_0000 + self.step_no,
            flags: if self.step_no % 3 == 0 { 0x8000 } else { 0 },
            ciaddr: ciaddr.unwrap_or(Ipv4Addr::UNSPECIFIED),
            // every fifth message came through a relay agent (echoed in the reply, C13)
            giaddr: if self.step_no % 5 == 2 { Ipv4Addr::new(10, 9, 0, 250) } else { Ipv4Addr::UNSPECIFIED },
            hops: (self.step_no % 4) as u8,
            secs: (self.step_no % 7) as u16,
            ..Default::default()
        };
        m.set_hw(&c.chaddr);
        if let Some(t) = msgtype {
            m.options.push((wire::OPT_MSG_TYPE, vec![t]));
        }
        if let Some(id) = &c.client_id {
            m.options.push((wire::OPT_CLIENT_ID, id.clone()));
        }
        if let Some(h) = &c.hostname {
            m.options.push((wire::OPT_HOSTNAME, h.clone()));
        }
        if let Some(r) = requested {
            m.options.push((wire::OPT_REQUESTED_IP, r.octets().to_vec()));
        }
        if let Some(s) = sid {
            m.options.push((wire::OPT_SERVER_ID, s));
        }
        m.options
            .push((wire::OPT_PARAM_LIST, vec![1, 3, 6, 15, 28, 51, 58, 59]));
        // a client may say how long a lease it would like (RFC 2131 3.5): below, at and above
        // the bounds the server keeps to whatever it is asked for
        const WISHES: [u32; 11] = [0, 1, 60, 120, 299, 300, 301, 3600, 86400, 86401, u32::MAX];
        if self.step_no % 3 == 1 {
            m.options.push((wire::OPT_LEASE_TIME, WISHES[(self.step_no as usize / 3) % WISHES.len()].to_be_bytes().to_vec()));
        }
        m
    }

    /// Send one message through the real parser and `handle_pkt`.
    fn deliver(&mut self, client: usize, pool: usize, matched: bool, m: wire::Msg) -> MsgObs {
        let bytes = m.encode();
        let pkt = dhcppkt::parse(&bytes).expect("harness-built request must parse");
        let sip = if matched {
            server_ip(pool)
        } else {
            Ipv4Addr::new(172, 31, 5, 1)
        };
        let pool_addrs: Vec<Ipv4Addr> = if matched {
            self.pools_now[pool].iter().map(|i| uaddr(*i)).collect()
        } else {
            vec![]
        };
        let conf = make_config(
            Ipv4Addr::new(10, 9, 0, 0),
            &self.pools_now[pool]
                .iter()
                .map(|i| uaddr(*i))
                .collect::<Vec<_>>(),
        );
        let req = dhcp::DHCPRequest {
            pkt,
            serverip: sip,
            ifindex: 1 + pool as u32,
            if_mtu: None,
            if_router: None,
        };
        let before = self.rows();
        let ids_before = self.serverids.clone();
        let wall_before = wall_now();
        let result = dhcp::handle_pkt(
            self.pool.as_mut().unwrap(),
            &req,
            self.serverids.clone(),
            &conf,
        );
        let wall_after = wall_now();
        let after = self.rows();
        let result = match result {
            Ok(r) => {
                let rep = reply_of(&r);
                // what recvdhcp does after a successful handle_pkt
                if let Some(si) = rep.server_id() {
                    self.serverids.insert(si);
                }
                self.last_addr[client] = Some(rep.yiaddr);
                Ok(rep)
            }
            Err(e) => Err(errkind(&e)),
        };
        let edge = before
            .iter()
            .chain(after.iter())
            .any(|r| (r.expire as i64 - wall_before as i64).abs() <= 1)
            || wall_after != wall_before
                && before
                    .iter()
                    .chain(after.iter())
                    .any(|r| (r.expire as i64 - wall_after as i64).abs() <= 1);
        let msgtype = m.msg_type();
        // the address the client names: ciaddr (renewing) or the requested-address option
        // (selecting, rebooting, or a wish in a DISCOVER).  A message that carries both with
        // *different* addresses names neither in particular (no client state of RFC 2131 fills
        // in both; the statement does not say which would win): unconstrained.
        let wished = match m.opt(wire::OPT_REQUESTED_IP) {
            Some(v) if v.len() == 4 => Some(Ipv4Addr::new(v[0], v[1], v[2], v[3])),
            _ => None,
        };
        let named = if m.ciaddr != Ipv4Addr::UNSPECIFIED {
            match wished {
                Some(w) if w != m.ciaddr => None,
                _ => Some(m.ciaddr),
            }
        } else {
            wished
        };
        MsgObs {
            client,
            identity: self.world.clients[client].identity(),
            pool,
            pool_addrs,
            matched,
            sid_raw: m.opt(wire::OPT_SERVER_ID),
            request: m,
            msgtype,
            named,
            server_ip: sip,
            ids_before,
            before,
            after,
            wall_before,
            wall_after,
            vnow: wall_before as i64 + self.shift,
            shift: self.shift,
            clock_edge: edge,
            result,
        }
    }

    /// Counts an operation that this Sim does not execute (the uninterrupted twin of a reopen),
    /// so that everything derived from the position in the history stays the same in both.
    pub fn skip(&mut self) {
        self.step_no += 1;
    }

    pub fn step(&mut self, op: &Op) -> StepObs {
        self.step_no += 1;
        let nc = self.world.clients.len();
        let np = self.world.pools.len();
        match op {
            Op::Discover {
                client,
                pool,
                requested,
            } => {
                let c = pick_idx(*client, nc);
                let p = pick_idx(*pool, np);
                let r = self.resolve(requested, c);
                let m = self.build_request(c, Some(wire::DISCOVER), None, r, None);
                StepObs::Msg(Box::new(self.deliver(c, p, true, m)))
            }
            Op::RequestSel {
                client,
                pool,
                sid,
                requested,
            } => {
                let c = pick_idx(*client, nc);
                let p = pick_idx(*pool, np);
                let r = self.resolve(requested, c);
                let s = self.sid_bytes(sid, p);
                let m = self.build_request(c, Some(wire::REQUEST), s, r, None);
                StepObs::Msg(Box::new(self.deliver(c, p, true, m)))
            }
            Op::RequestRenew {
                client,
                pool,
                sid,
                ciaddr,
            } => {
                let c = pick_idx(*client, nc);
                let p = pick_idx(*pool, np);
                let ci = self.resolve(ciaddr, c);
                let s = self.sid_bytes(sid, p);
                let m = self.build_request(c, Some(wire::REQUEST), s, None, ci);
                StepObs::Msg(Box::new(self.deliver(c, p, true, m)))
            }
            Op::Other {
                client,
                pool,
                msgtype,
                sid,
                requested,
                ciaddr,
            } => {
                let c = pick_idx(*client, nc);
                let p = pick_idx(*pool, np);
                let r = self.resolve(requested, c);
                let ci = self.resolve(ciaddr, c);
                let s = self.sid_bytes(sid, p);
                let m = self.build_request(c, *msgtype, s, r, ci);
                StepObs::Msg(Box::new(self.deliver(c, p, true, m)))
            }
            Op::Unmatched { client, request } => {
                let c = pick_idx(*client, nc);
                let own = self.last_addr[c];
                let m = self.build_request(
                    c,
                    Some(if *request {
                        wire::REQUEST
                    } else {
                        wire::DISCOVER
                    }),
                    None,
                    own,
                    None,
                );
                StepObs::Msg(Box::new(self.deliver(c, 0, false, m)))
            }
            Op::Advance { secs } => {
                let mut total = *secs as i64;
                self.pool
                    .as_mut()
                    .unwrap()
                    .verif_shift_clock(*secs as i64)
                    .expect("shift");
                // snap away from every stored expiry
                for _ in 0..4 {
                    let now = wall_now() as i64;
                    let near = self
                        .rows()
                        .iter()
                        .any(|r| (r.expire as i64 - now).abs() <= 2);
                    if !near {
                        break;
                    }
                    self.pool.as_mut().unwrap().verif_shift_clock(5).expect("shift");
                    total += 5;
                }
                self.shift += total;
                StepObs::Advance { secs: total }
            }
            Op::AdvanceToExpiry { client, off } => {
                let c = pick_idx(*client, self.world.clients.len());
                let id = self.world.clients[c].identity();
                let now = wall_now() as i64;
                let latest = self.rows().iter().filter(|r| r.client == id).map(|r| r.expire as i64).max();
                match latest {
                    Some(e) if e - now - (*off as i64) > 0 => {
                        let d = e - now - (*off as i64);
                        self.pool.as_mut().unwrap().verif_shift_clock(d).expect("shift");
                        self.shift += d;
                        StepObs::Advance { secs: d }
                    }
                    _ => StepObs::Noop,
                }
            }
            Op::SwapPool { pool, how } => {
                let p = pick_idx(*pool, np);
                let nu = self.world.universe;
                let cur = self.pools_now[p].clone();
                let new: Vec<u8> = match how {
                    SwapHow::Shrink => {
                        if cur.len() > 1 {
                            cur[cur.len() / 2..].to_vec()
                        } else {
                            cur
                        }
                    }
                    SwapHow::Grow => {
                        let mut v = cur.clone();
                        for i in 0..nu {
                            if !v.contains(&i) {
                                v.push(i);
                                if v.len() >= cur.len() + 2 {
                                    break;
                                }
                            }
                        }
                        v
                    }
                    SwapHow::Disjoint => {
                        let v: Vec<u8> = (0..nu).filter(|i| !cur.contains(i)).collect();
                        if v.is_empty() {
                            cur
                        } else {
                            v
                        }
                    }
                    SwapHow::Restore => self.world.pools[p].clone(),
                };
                self.pools_now[p] = new;
                StepObs::Swap
            }
            Op::Reopen => {
                if let Some(path) = self.path.clone() {
                    let before = self.rows();
                    self.pool = None;
                    match pool::Pool::verif_open(&path) {
                        Ok(p) => {
                            self.pool = Some(p);
                            let after = self.rows();
                            StepObs::Reopen {
                                before,
                                after,
                                ok: Ok(()),
                            }
                        }
                        Err(e) => {
                            // keep going on a fresh store so the interpreter stays total
                            self.pool = Some(pool::Pool::new_in_memory().unwrap());
                            StepObs::Reopen {
                                before,
                                after: vec![],
                                ok: Err(e.to_string()),
                            }
                        }
                    }
                } else {
                    StepObs::Noop
                }
            }
        }
    }
}

pub fn is_alloc(t: Option<u8>) -> bool {
    t == Some(wire::DISCOVER) || t == Some(wire::REQUEST)
}
