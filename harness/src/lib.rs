pub mod conf;
pub mod dnsconv;
pub mod engine;
pub mod fuzz_entry;
pub mod fuzzdrv;
pub mod ethip;
pub mod hist;
pub mod mutate;
pub mod netns;
pub mod props_acl;
pub mod props_codec;
pub mod props_conf;
pub mod props_confwire;
pub mod props_policy;
pub mod props_ra;
pub mod rfc4861;
pub mod props_crash;
pub mod props_crashpoint;
pub mod props_dnsconc;
pub mod props_dnsfunc;
pub mod props_dnsroute;
pub mod props_dnswire;
pub mod props_dnswire2;
pub mod props_netwire;
pub mod rfc1035;
pub mod wire_dns;
pub mod wire_net;
pub mod props_dhcp;
pub mod rfc2131;

use engine::{Ctx, Tier};

pub fn level_of(id: &str) -> &'static str {
    match id {
        "C07" | "C18" => "fault_enumeration",
        _ => "exploration",
    }
}

pub fn has_wire_tier(id: &str) -> bool {
    matches!(id, "C01" | "C03" | "C04" | "C05" | "C06" | "C07" | "C08" | "C10" | "C12" | "C15" | "C16" | "C17" | "C18" | "C19" | "C20")
}

pub fn has_net_tier(id: &str) -> bool {
    matches!(id, "C01" | "C05" | "C08" | "C10" | "C12" | "C17" | "C18" | "C20")
}

/// Enter the private namespaces if this property has a wire tier.  Ok(true) = wire available.
pub fn prepare_wire(id: &str) -> Result<bool, String> {
    if !has_wire_tier(id) || std::env::var("VCHECK_NO_WIRE").is_ok() {
        return Ok(false);
    }
    if !std::path::Path::new(&format!("{}/erbium-dns", wire_dns::repo_bin_dir())).exists() {
        return Err("erbium binaries not built (run ./setup.sh)".into());
    }
    netns::enter_private_namespaces()?;
    if has_net_tier(id) {
        wire_net::setup_topology()?;
    }
    Ok(true)
}

/// Run one property's check; returns the exit code.
pub fn run_check(id: &str, tier: Tier) -> i32 {
    if std::env::var("VCHECK_ONLY").as_deref() == Ok("libfuzzer") {
        // development aid: only the coverage-guided tier (evidence is written as usual)
        let ctx = Ctx::new(id, tier, level_of(id));
        fuzzdrv::run_for(&ctx, id);
        return ctx.finish();
    }
    let wire = prepare_wire(id);
    let ctx = Ctx::new(id, tier, level_of(id));
    let wire_ok = match &wire {
        Ok(b) => *b,
        Err(e) => {
            ctx.assume(format!("wire tier unavailable: {}", e));
            false
        }
    };
    match id {
        "C01" => {
            ctx.rule("generated DHCP histories (DISCOVER/REQUEST x clock advance x pool change x reopen) against handle_pkt+Pool; oracle: grant ledger kept by the harness; non-trivial = some address granted to >=2 clients over time AND a grant made while another client holds an address of the same pool; distinct = hash of the history");
            ctx.assume("shifting all stored timestamps by d is observationally equal to advancing the clock by d (pool only compares stored times with now)");
            // development aid: VCHECK_ONLY=wire skips the history engine
            if std::env::var("VCHECK_ONLY").as_deref() != Ok("wire") {
                props_dhcp::run_hist_func(&ctx, id);
            }
            if wire_ok && ctx.violations.lock().unwrap().is_empty() {
                ctx.rule("wire-race: 2..32 clients (24 hardware addresses, a third with one of 6 client identifiers, so that two hardware addresses can be one client and one hardware address two clients) race in 1..3 bursts of back-to-back frames for a pool of 1..6 addresses against the real erbium-dhcp (one task per packet): DISCOVER then REQUEST of the offer, DISCOVER/REQUEST naming a chosen pool address, REQUEST of the address offered to a neighbour; oracle: over all OFFER/ACK frames captured in the case (plus the rows the readiness probe left) the map address -> client is a function - every lease runs >= 300 s and a case lasts seconds, so nothing expires in between - and the store records the same client for each address; non-trivial = more clients than addresses and >= 2 replies");
                props_netwire::run_c01_wire(&ctx);
            }
        }
        "C09" => {
            ctx.rule("same histories; oracle: pre-state/post-state relation on the observed lease table; non-trivial = a holder asks again while holding a second lease / naming another address / after a pool change, or a refusal for lack of addresses; the clock is also placed one second before, at and after a client's expiry (no snapping), where only the reading-independent part is judged: a refusal needs every pool address held by another client whose lease may still be running; after every step each stored row must run exactly as long as its holder was last told (ledger of replies kept by the oracle); one client in eight has a hardware address of 5, 8 or 16 octets; enumerated long-lived histories (6..14 renewals up to the 24 h maximum, restarts, return after expiry) run first");
            props_dhcp::run_hist_func(&ctx, id);
            if ctx.violations.lock().unwrap().is_empty() {
                ctx.rule("one-address-left: pools of 1..150 addresses (thorough: every size 1..200) in which every address but one is held by its own client; enumerated over every position of the free address: a newcomer must be given exactly that address, never refused; non-trivial = pool of at least two addresses");
                props_dhcp::run_c09_exhaust(&ctx);
            }
        }
        "C10" => {
            ctx.rule("same histories; oracle: option 51 present, 300..=86400, record duration equals it and record does not expire early; non-trivial = reply for an address the client already had a row for (lease time computed from history)");
            props_dhcp::run_hist_func(&ctx, id);
            if ctx.violations.lock().unwrap().is_empty() {
                ctx.rule("file-held-by-another-connection: as under C18 - a second writer or a reader in an open transaction holds the lease file while the pool allocates; a lease the pool reports (so that its time is advertised) has its record in the file afterwards");
                props_dhcp::run_c18_locked(&ctx);
            }
            if ctx.violations.lock().unwrap().is_empty() {
                ctx.rule("policy-options: generated configurations (policy trees whose apply-* options include lease-time, renewal-time and rebind-time as a value or null) x parameter request lists (any codes, incl. 51) through the real loader; DISCOVER then REQUEST through handle_pkt: both replies carry option 51 within [300,86400] and the record runs exactly that long; non-trivial = an applied policy names lease-time, renewal-time or rebind-time and the client asks for it");
                props_policy::run_reply_invariants(&ctx, "C10");
            }
            if wire_ok && ctx.violations.lock().unwrap().is_empty() {
                ctx.rule("wire-dhcp-exchange: OFFER and ACK frames captured from the real erbium-dhcp: option 51 present and within bounds; the database row of the ACK runs exactly that long and does not expire early");
                props_netwire::run_c10_wire(&ctx);
            }
        }
        "C13" => {
            ctx.rule("same histories with every message type 0..255/absent and server-id kinds (ours, another of ours, foreign, 0.0.0.0, malformed, absent); oracle: frame condition on the lease table + header echo; non-trivial = an unanswered message arriving while the sender already has a row");
            props_dhcp::run_hist_func(&ctx, id);
            if ctx.violations.lock().unwrap().is_empty() {
                ctx.rule("policy-options: generated configurations (policy trees whose apply-* options include server-id as an address or null) x parameter request lists (any codes, incl. 54) through the real loader; DISCOVER then REQUEST through handle_pkt: both replies carry a server identifier naming this server and the right message type, echo xid / hardware address (5, 6, 8 or 16 octets, with type-1 and opaque client identifiers) / relay address / flags, and change no row but the one they assign; a client for which the documented-set model of C02 finds no pool gets no reply; non-trivial = an applied policy names server-id and the client asks for it");
                props_policy::run_reply_invariants(&ctx, "C13");
            }
        }
        "C18" => {
            ctx.rule("file-held-by-another-connection: a second connection holds a write reservation (BEGIN IMMEDIATE) or sits in an open read transaction on the lease file while the pool allocates for a new client and renews an old one; afterwards (holder gone, file reopened) every allocation the pool reported as made, before or while the file was held, is a row of the file");
            ctx.rule("large-store: lease files in the current layout holding 1, 999, 1000, 1001, 1100, 2500 rows (thorough: up to 65537), 100/90/50/0 % of them expired hours to months ago, written by the harness's own connection into a schema created by the real code; opened the way the server opens it, twice; rows read by the harness before and after must be identical and the listing must show them all; non-trivial = more than one row");
            ctx.rule("reopen: twin histories (file-backed, reopened at generated points) vs uninterrupted in-memory twin; oldschema: generated v0/v1/newer databases; non-trivial = reopen with live leases of >=2 clients / a database with rows");
            props_dhcp::run_c18_func(&ctx);
            if ctx.violations.lock().unwrap().is_empty() {
                ctx.rule("crash-points: a child process performs scripted allocations (new clients, renewals, a full pool) through Pool::verif_open under strace fault injection, killed with SIGKILL at the n-th write-like call (write, pwrite64, pwritev, writev, fsync, fdatasync, ftruncate) on the database file or its rollback journal, for every n until the script completes; after each kill: the database opens, every lease acknowledged before the kill is present, SQLite's integrity check passes, rows are well-formed and unique per address, the acknowledged clients get their addresses again and a new client does not get one of them; non-trivial = every enumerated kill");
                props_crashpoint::run_c18_crashpoints(&ctx);
            }
            if wire_ok && ctx.violations.lock().unwrap().is_empty() {
                ctx.rule("wire-kill: a stream of DISCOVER/REQUEST frames from 4..16 clients to the real erbium-dhcp, SIGKILL after a generated number of frames + 0..2000 us; then: the database opens, every row is well-formed, every lease whose reply was captured before the kill has its row, and the restarted server offers the same clients the same addresses");
                props_netwire::run_c18_kill(&ctx);
            }
        }
        "C20" => {
            ctx.rule("gauges-in-real-time: leases of 1..3 s written through the pool's own allocation call on a file-backed and an in-memory store, then no write at all while real time carries them over their expiry; every 300 ms the gauges must equal the count of listed rows on either side of the clock (samples straddling a change of second are skipped); non-trivial = a lease was seen running and later run out");
            ctx.rule("gauges: after every step of a generated history get_pool_metrics must equal the harness's own count over the listing (get_leases), and on file-backed worlds (1/8 of the histories, with restarts) the listing must equal the rows read from the SQLite file by the harness's own connection; non-trivial = both classes non-empty");
            ctx.rule("upgraded-db: the same walk over a lease file written in the layout of an older release (no version row / version 0 / version 1 whose option blobs are NULL), 1..8 pre-existing rows owned by world clients or strangers, active and expired, followed by a generated history; non-trivial = rows written before the option column existed are still stored at the end");
            props_dhcp::run_c20_func(&ctx);
            if wire_ok && ctx.violations.lock().unwrap().is_empty() {
                ctx.rule("wire-listing: 2..40 (thorough 250) DHCP clients whose client-identifier and host-name options are drawn from byte strings 0..255 with quotes, backslashes, C0 controls, DEL, invalid UTF-8, multi-byte octets, and strings of whole characters (U+2028/2029, NEL, NBSP, BOM, U+FFFD, noncharacters, first and last code point of each encoded length, bidi override, combining accent), and of text that reads like an escape, an entity or the end of a value (backslash-u0000, backslash-n, a quote and a brace, ...; one client per such text in a first, fixed case) against the real erbium; GET /api/v1/leases.json must parse with a strict JSON parser and be in bijection (address, client id bytes, start, expiry) with the rows read from the same SQLite file; gauges from /metrics equal the harness's count before any generated lease, when first scraped over TCP by a client whose rule grants http-metrics and nothing else, and after ageing every n-th row; eight times a burst of 30 back-to-back DISCOVERs from new clients is sent and the gauges are scraped while the server is still working through it: the scrape, taken between two listings, must report a count between theirs");
                props_netwire::run_c20_wire(&ctx);
            }
        }
        "C12" => {
            ctx.rule("message: generated DHCP messages (all header values, hlen 0..16, option multisets with repeated/zero-length/1500-octet values, repeats with equal contents and instances equal to everything sent for their code before; one message in four with 25..100 options under distinct codes plus one or two values longer than one instance) -> parse -> serialise -> parse and an RFC 2131/3396 decoder; frame: generated payloads 0..1472 x addresses x MACs through Fragment::new_udp4, decoded by an independent Ethernet/IPv4/UDP decoder with checksum verification; broadcast-flag: all 65536 flag values; non-trivial = long/repeated/zero-length option, odd payload, every flag value");
            props_codec::run_c12_func(&ctx);
            if wire_ok && ctx.violations.lock().unwrap().is_empty() {
                ctx.rule("wire-dhcp-exchange: DISCOVER, REQUEST and two renewals with ciaddr filled in (the flag value as sampled and with bit 15 inverted) against the real erbium-dhcp over a veth pair; captured frames decoded by the independent Ethernet/IPv4/UDP decoder: IPv4 destination is 255.255.255.255 iff bit 15, else yiaddr; Ethernet destination = chaddr; reply echoes xid/flags");
                ctx.rule("wire-large-replies: the real erbium-dhcp configured with search lists of 0..26 domains and portal URLs of 20..250 octets (quick: 7 configurations, thorough 81), four parameter request lists each, so that replies run from 300 octets to beyond what one frame on the link carries; every frame that appears is decoded in full (lengths, checksums, option walk up to the end option) and options 114 and 119 must carry the configured values; no frame is accepted for a reply that cannot fit, provided the server answers the next small request");
                props_netwire::run_c12_wire(&ctx);
            }
        }
        "C14" => {
            ctx.rule("structured: first two enumerated sweeps (names of 120..127 labels whose every suffix occurs earlier and whose longest is used once more: pointer chains of up to 127 hops; messages of 1000..2000 records with 33..61-label owners sharing their suffix, i.e. more than 65535 labels in all; and a name first written at every offset 0x3fe8..0x4003, as owner and inside rdata, then reused whole, extended and by each suffix); then generated messages (1..2000 records, names sharing suffixes at every depth incl. ladders in which the k-th name extends the (k-1)-th by one label up to 126 levels (pointer chains as long as the name), all rdata kinds, EDNS options) -> erbium DNSPkt -> serialise -> crate parser (equality) and independent RFC 1035 decoder (field-by-field at RFC bit positions, pointer audit); bytes: harness-encoded messages under three compression modes with 0..2 byte edits, accepted inputs re-encoded and compared; non-trivial = pointer inside rdata, or > 16 KiB, or EDNS options / accepted multi-record input");
            props_codec::run_c14_func(&ctx);
            fuzzdrv::run_for(&ctx, "C14");
        }
        "C03" => {
            ctx.rule("relay (repeated queries also in the other letter case, over the other transport, and in another class - the upstream must then have been asked that question; one upstream in four echoes the question with its name in lower case, and the client must still get its own question back): generated client queries (names of 1..7 labels with arbitrary octets and mixed case, any type but ANY, EDNS sizes/DO/NSID/cookie/unknown options, CD/AD, UDP and TCP, IPv4-mapped and IPv6 sources) x generated upstream replies (any rcode incl. extended, 0..24 records over three sections, every rdata kind erbium re-encodes plus opaque types, compression off/owners/all) through the real erbium-dns with a scripted upstream; a quarter asked again after 0..2.1 s (cache); oracle: independent RFC 1035 decoder on both sides: id, QR, question, rcode, the three sections record by record, TTL equal / aged; non-trivial = upstream reply with authority or additional records, non-zero rcode or name-bearing rdata");
            if !wire_ok {
                ctx.set_inconclusive("C03 is decided on the wire only and the wire rig is unavailable");
            } else {
                props_dnswire::run_c03(&ctx);
            }
        }
        "C07" => {
            ctx.rule("concurrent: (1) every listener family (127.0.0.1, 0.0.0.0, ::1, ::) x UDP to several local destination addresses / TCP in one write / TCP with the length prefix split over segments; (2) enumerated drop patterns over the upstream transmissions (quick: all with <= 2 losses + all lost; thorough: all 32), run concurrently; (3) generated sets of up to 48 (thorough 256) queries in flight on a fresh server each, per-question upstream script: delay 0..1500 ms (arbitrary reordering), 0..2 duplicates, wrong id first (forces the TCP retry), TC (forces TCP), losses; oracle: exactly one response per query within the server's own back-off bound (late duplicates collected for 1.5 s), carrying its own question and own answer, SERVFAIL iff the upstream never answered, <= 5 transmissions, response source == query destination, complete TCP frames, no task panic; non-trivial = a query whose upstream exchange was disturbed or whose TCP request came in several segments; (after a slow answer) the upstream answers one query 3 s after each transmission, then queries whose first one or two transmissions are lost and a TCP query must still be answered; (late reply) one TCP-path query whose upstream reply comes 11.5 s late (SERVFAIL or the answer), then thirteen more TCP-path queries, each of which must get its own answer; a SERVFAIL for a query the healthy upstream was never asked is a violation of its own");
            ctx.rule("empty-ahead: one or three empty UDP datagrams and then a query, back to back from one socket to a fresh server (every listener family), then silence until the answer comes or 12 s pass; four rounds per server; every query must get its own answer");
            ctx.rule("slow-writer: a TCP client writes the first 0/1/2/3/20 octets of its framed query and pauses; three TCP clients on their own connections and a UDP client then send complete queries and must each get their own answer while the first is still pending; it completes only then (or after 10 s) and must get its own answer too");
            ctx.assume("tokio's task interleaving inside the server is exercised by real concurrency and repetition, not enumerated");
            if !wire_ok {
                ctx.set_inconclusive("C07 is decided on the wire only and the wire rig is unavailable");
            } else {
                props_dnsconc::run_c07(&ctx);
            }
        }
        "C15" => {
            ctx.rule("routes: generated route tables (1..6 routes, 0..4 suffixes each over a 7-label alphabet so nesting and siblings are common, \"\" default, forward / forge-nxdomain, the keys of a route in either order, forge routes with a left-over dns-servers key before or after their type; one scripted upstream per forward route; suffixes optionally written in upper case) x 4..30 names (suffix + 0..3 extra labels, class IN and (a third) CH/HS/CSNET/NONE, random letter case, near misses at label boundaries, the first two labels written as one label with a dot inside (asked in a second round, after the name it reads like was answered and cached), reversed labels, the root, unrelated names, RD on/off); each table is run as generated and with routes and suffixes permuted; oracle: reference longest-suffix model (whole labels, ASCII case-insensitive): forge => NXDOMAIN and no upstream asked, forward+RD => own answer from exactly that route's upstream, forward without RD => REFUSED and nobody asked, no route => SERVFAIL; outcomes equal under permutation; non-trivial = a name matching suffixes of >= 2 routes, or differing in case from the configured suffix");
            if !wire_ok {
                ctx.set_inconclusive("C15 is decided on the wire only and the wire rig is unavailable");
            } else {
                props_dnsroute::run_c15(&ctx);
            }
        }
        "C04" => {
            if wire_ok {
                ctx.rule("wire-size: generated queries (no EDNS / advertised sizes 0,1,511,512,513,1232,4096,65535,random; UDP and TCP) x upstream replies of 12..40000 octets through the real erbium-dns; oracle: independent decoder accepts, UDP length <= max(512, advertised), dropped records <=> TC, TCP complete");
                props_dnswire::run_c04_wire(&ctx);
            }
            ctx.rule("truncate: first the enumerated sweep of names first written at 0x3fe8..0x4003 (see C14) under limits 65535, 16500 and 16384; then generated messages x size limits placed at/around every record boundary or absolute 512..65535 through serialise_with_size; oracle: independent decoder accepts, len<=limit, fits => identical to full, else TC + proper record prefix; non-trivial = full encoding within 32 octets of the limit or above it");
            props_codec::run_c04_func(&ctx);
        }
        "C05" => {
            ctx.rule("bytes: (1) complete enumeration of the single-position family over harness-built seed packets of every protocol (each octet := 12 boundary values and +-1, each 16-bit position := 12 boundary values, every truncation point), (2) committed corpus, (3) generated multi-edit mutations (set/flip/truncate/insert/delete/duplicate) and random bytes 0..65535; each input goes through the decoder and then through what the handler does with the decoded value (option accessors, logging formatters, handle_pkt, reply serialisation, frame build); oracle: returns, no panic/overflow, < 30 s CPU; non-trivial = input accepted by the decoder (handler code ran) or a failure");
            ctx.assume("frames shorter than 14 octets cannot be delivered to the LLDP service by the kernel; the LLDP target starts after the Ethernet header");
            props_crash::run_c05_func(&ctx);
            fuzzdrv::run_for(&ctx, "C05");
            if wire_ok && ctx.violations.lock().unwrap().is_empty() {
                ctx.rule("wire-dns: first a matrix of well-formed queries (refused by type ANY/AXFR, refused for lack of RD, ordinary) x 14 sizes from tiny to 3000 octets (EDNS padding, a large unknown option plus NSID, extra records) over UDP and TCP; then batches of 16..64 hostile byte strings (seed packets, members of the boundary family, extra edits) delivered (after two well-formed upstream replies that arrive 3.5 s and 6.5 s late on the upstream TCP connection - thorough also 12 s and 31 s - each outwaited before judging) to the real erbium-dns as UDP datagrams, as TCP frames, and as upstream replies over UDP and over TCP; after every batch: no panic line in the server log, process alive, a well-formed query over UDP and over TCP answered with its own answer");
                props_dnswire2::run_c05_wire(&ctx);
            }
            if wire_ok && ctx.violations.lock().unwrap().is_empty() {
                ctx.rule("wire-dhcp: batches of 16..64 hostile DHCP payloads (seed messages, boundary-family members, every hlen 0..255, every message type, option-length families), preceded by the complete family of text/list options of 256..1180 octets split over several instances (RFC 3396; 1848 messages: 11 options x 8 lengths x 21 fills - ASCII, invalid UTF-8, 2/3/4-octet characters at every alignment - in three instance layouts), broadcast to the real erbium-dhcp over a veth pair; after every batch: no new panic line in the server log, process alive, a well-formed DISCOVER answered");
                props_netwire::run_c05_dhcp_wire(&ctx);
            }
            if wire_ok && ctx.violations.lock().unwrap().is_empty() {
                ctx.rule("wire-ra: ICMPv6 messages (seed solicitations and advertisements, every option type x length 0..4; thorough: the complete boundary family of the seeds) in frames to all-routers from a link-local, the unspecified, a global, a multicast and the loopback source address, hop limit 255 and 64, delivered to the real erbium (router advertisements configured on the server-side interface of the veth rig) in batches of 48; after every batch: no new panic line in the server log, process alive, an ordinary solicitation answered with an advertisement");
                props_netwire::run_c05_ra_wire(&ctx);
            }
        }
        "C02" => {
            ctx.rule("address-set: generated configurations (0..2 top-level addresses /22../30 with and without host bits; dhcp-policies trees depth<=3 width<=3 with match-subnet/match-hardware-address and apply-address/apply-subnet/apply-range blocks cut from one /22 so that parents, children and siblings overlap; receiving address on first/last/middle host, inside a child's block, or on another subnet; the interface's router anywhere or a host of the same universe) rendered to YAML and loaded through the real loader; oracle: documented set D from an independent model of erbium.conf(5); pools <= 300 addresses are drained with fresh client identifiers (leases == D exactly, each once), larger pools are probed with option 50 at every boundary; non-trivial = D non-empty and different from a plain host range");
            ctx.assume("unconstrained (manual silent): the server's own address and the network/broadcast addresses when an explicit apply-range/apply-address/apply-subnet names them; overlap between sibling policies");
            props_policy::run_c02(&ctx);
        }
        "C11" => {
            ctx.rule("options: generated policy trees (conditions: match-subnet, match-hardware-address, match-host-name/class-id/user-class with value or null; apply-<option> with value or null over 20 options with unambiguous RFC 2132 encodings, plus ipv6-preferred, and lease-time, server-id, renewal-time, rebind-time and classless routes, whose own octets are not judged; a quarter of the REQUESTs name another address of this server in option 54; top-level dns-servers with $self4/IPv6 entries, dns-search, captive-portal; interface MTU and router) x requests (three in four preceded by another client's request on the same address seen with other interface facts, which must change nothing) (receiving address, chaddr, option values, parameter request list incl. empty and absent); oracle: independent model of the manual's semantics, options(reply) == model as a map code -> bytes (domain search compared as a decoded list); non-trivial = two siblings match, an inner policy or a policy overrides an outer/default value, null unsets, or an applied option is withheld by the parameter list");
            ctx.assume("unconstrained (manual silent): netmask/broadcast when two different matching subnets are in play; empty list values; options 53/54/51 are protocol fields");
            props_policy::run_c11(&ctx);
        }
        "C08" => {
            ctx.rule("decision: generated ACL lists (0..6 rules or the documented defaults; match-subnets over IPv4/IPv6/::ffff-mapped prefixes of every length, with and without host bits; match-unix true/false/absent; any subset of the six access strings) rendered to YAML and loaded through the real loader; clients placed at the first/last address of a prefix, just before/after it, inside it, anywhere, as IPv4, IPv6, IPv4-mapped or unix; oracle: reference first-match model vs require_permission for the four operations incl. the refusal kind; non-trivial = a prefix written with host bits, a mapped client, or a case where rule order matters");
            ctx.assume("unconstrained (documentation silent): pure IPv4 client against an IPv6 prefix shorter than /96 that covers the mapped range; whether the http-ro alias grants the root page");
            props_acl::run_c08_func(&ctx);
            if wire_ok && ctx.violations.lock().unwrap().is_empty() {
                ctx.rule("wire-dns-acl: generated ACL lists over the addresses available on loopback (127/8 sub-prefixes, ::1, fd00:e::/64 sub-prefixes, ::ffff:127.x/96+n, with and without host bits; ::/0../80 which contain the whole IPv4-mapped range and ::/81, ::/95 which miss it) on a real erbium-dns with a dual-stack listener; clients from 8 source addresses over UDP and TCP ask a fresh name and a name another client may have put in the cache; oracle: first-match model: granted <=> own answer; refused => REFUSED (or silence on UDP), upstream never asked, also for cached names");
                props_dnswire2::run_c08_wire(&ctx);
            }
            if wire_ok && ctx.violations.lock().unwrap().is_empty() {
                ctx.rule("wire-http-acl: generated ACL lists over the client addresses of the veth rig (10.55.0.0/24 sub-prefixes, fd55::/64 sub-prefixes, ::ffff:10.55.0.x/96+n, host bits, match-unix) on the real erbium; GET /, /metrics and /api/v1/leases.json from TCP/IPv4 (seen as mapped), TCP/IPv6 and the unix socket with bound and unbound clients, granted and refused pages on one keep-alive connection, ten other spellings of a refused page's path, and HEAD/POST/PUT/DELETE/OPTIONS to every page the model refuses (never 200); oracle: status 200 <=> first-match model grants http / http-metrics / http-leases, else 403; every request answered");
                props_netwire::run_c08_http(&ctx);
            }
        }
        "C17" => {
            ctx.rule("build: generated interface sections (every field absent/null/value; lifetimes {0,1,8,600,1800,9000,9001,65535,65536,4294967,4294968,2^31,2^32-1,2^32,random} written as integers, '<n>s', mixed units or digit strings; max-router-advertisement-interval set on a third of the interfaces; 0..6 prefixes of any length with and without host bits, addresses from the documentation range, random, and one of each special-purpose class (unspecified, loopback, link-local, site-local, ULA, multicast, v4-mapped, 6to4, Teredo); RDNSS 0..8 incl. $self6 and the interface's own address written out; DNSSL lists of 0..5 (1 in 25: 7..10 names of ~250 octets, i.e. more than one option can hold) domains of 1..8 labels of 1..63 octets, plus labels of 64..400 octets and names above 255 octets as unrepresentable values; PREF64 lengths {32,40,48,56,64,96}; URLs 0..240 octets) plus top-level defaults, rendered to YAML, loaded through the real loader, built by the pure builder, serialised, and decoded by a decoder written from RFC 4861/8106/8781/8910; oracle: decoded == expected(config), reserved fields zero, unrepresentable values rejected or clamped; non-trivial = >= 3 option kinds in the message or an unrepresentable value");
            ctx.assume("the mtu / lifetime tri-state resolution against interface and routing table lives in the impure wrapper and is decided by the wire tier; the hook takes the resolved values as parameters");
            props_ra::run_c17_func(&ctx);
            if wire_ok && ctx.violations.lock().unwrap().is_empty() {
                ctx.rule("wire-ra: mtu {absent, null, 1400, 9000} x lifetime {absent, null, value} plus mtu 1280, 1500 and 65535 (below, at and above the 1500 of the link) configured for the server-side interface of the veth rig on the real erbium, plus a configuration with no router-advertisements section at all (prefixes derived from the interface's own addresses under the top-level addresses: advertised with the bits beyond the prefix length zero), plus 12 (thorough 120) generated interface sections; a router solicitation is injected as a raw frame, the advertisement captured: hop limit 255, ICMPv6 checksum verifies, body decoded by the RFC decoder and compared with expected(config) where mtu absent => interface MTU, null => no option; lifetime absent/null => 0 (no default route in the rig)");
                props_netwire::run_c17_wire(&ctx);
            }
        }
        "C19" => {
            ctx.rule("load-and-serve: (1) the manual's examples, the shipped example file (as is and uncommented) and a full-grammar document must load; (2) complete single-substitution family over them (every node replaced by each wrong type / empty collection / boundary number / hostile string incl. long strings of 2/3/4-octet characters at four alignments and strings of 2030..2048 / 4086..4095 octets, every key replaced or deleted, every list also with its first element repeated 31..1000 times); (3) generated double substitutions; (4) generated byte/token mutations of the texts; every document goes through the real loader, every accepted configuration is used to serve DHCP (DISCOVER/REQUEST on the first host of every configured prefix, with every configured hardware address, all options requested), to build and serialise an RA per interface, and to decide ACLs for IPv4/IPv6/mapped/unix clients; oracle: Ok or Err with text, no panic; non-trivial = rejected by a typed section parser or accepted and served");
            ctx.assume("yaml-rust recursion depth: documents nesting deeper than 64 and documents using anchors/aliases are not executed (counted)");
            props_conf::run_c19(&ctx);
            fuzzdrv::run_for(&ctx, "C19");
            if wire_ok && ctx.violations.lock().unwrap().is_empty() {
                ctx.rule("wire-dns-smoke: generated dns-routes sections (0..4 routes; domain-suffixes absent / empty / 1..3 names incl. the root and mixed case; type absent / forward / forge-nxdomain / null; dns-servers absent / [] / null / a scripted upstream / an address nobody listens on / an unreachable address) through the real loader; every accepted document is served by a fresh erbium-dns and asked, under every configured suffix and under none, with RD set and clear over UDP and with RD set over TCP; oracle: a response to every question (any rcode) within 15 s (40 s where the configured upstream never answers: the forwarder's own back-off runs up to 20.3 s), no panic line in the server log, process alive; non-trivial = at least one route");
                props_confwire::run_c19_wire(&ctx);
            }
        }
        "C06" => {
            ctx.rule("cache-model: generated query sequences (keys with near misses: label/type/DO/CD/case/printed-alike framing (a dot inside a label against a label boundary, an octet against its backslash-decimal spelling); lookups are unconstrained while another spelling of the name in letter case is resolved; replies with 0..12 records (address records, SOA in the authority section with MINIMUM on either side of the TTLs, NS, opaque), TTLs {0,1,2,59,600,2^31,2^32-1,random} over three sections, cached error kinds) x clock moves (fixed steps from 250 ms to ten minutes, and 2^24+1 s .. 2e9 s against TTLs of months and years; placements at +-2 s around the entry's smallest TTL in 250 ms steps) x sweeps, driven through the cache's own functions in handle_query order under tokio's paused clock; oracle: reference cache model; non-trivial = near-miss lookup, hit within 1 s of expiry, or hit on a reply with >=2 distinct TTLs in >=2 sections");
            props_dnsfunc::run_c06_func(&ctx);
            if wire_ok && ctx.violations.lock().unwrap().is_empty() {
                ctx.rule("wire-cache (then: two clients ask the same question at once while the upstream answers only the first transmission it sees, TTL 1..2 s; the client whose query fails 6..20 s later must not be given that answer): 40 (thorough 200) names with 1..5 records of TTL 1..4 s over the three sections through the real erbium-dns; right after the first resolution four near-miss queries (other type, DO set, CD set, class CH) must each reach the upstream; the exact query is repeated at +0.4..+5.4 s: answered from cache (upstream counter still) only within minTTL (+1 s clock slack), TTLs aged and never above the original");
                props_dnswire2::run_c06_wire(&ctx);
            }
        }
        "C16" => {
            ctx.rule("bucket: burst B and rate R inferred black-box, then generated arrival sequences (dt in {0,1,2,10,49,50,51,10^4} s, sizes 0..3.2B) applied check-then-deplete as the limiter does, on a harness clock; oracle: every window's granted volume <= B + R*span (+R per grant rounding), idle >= B/R => request <= B granted; non-trivial = grant after a denial or an idle gap");
            props_dnsfunc::run_c16_func(&ctx);
            if wire_ok && ctx.violations.lock().unwrap().is_empty() {
                ctx.rule("wire-limiter: first a steady flood of 20 refused queries a second from one source for 35 s (thorough 100 s), which must get no more REFUSED than burst + rate x time allows however the seconds fall; then on a fresh erbium-dns per case: (1) 1..4 sources that never spoke send one refused (ANY) query each over UDP and must get one REFUSED; (before the generated cases: the upstream refuses with 0..180 records, i.e. relayed REFUSED responses of 42..3000 octets, six questions per size from a fresh source each; the octets of REFUSED sent to one source must stay within burst + rate x time) (the server has two listening sockets: a dual-stack one and a v4 one on the next port; a source past its allowance at one must get nothing more at the other) (2) a burst of 200..2000 refused queries from one source address (spread over eight source ports) gets REFUSED for at most a quarter, and not more than a 200-query burst from another source (+2), and a second burst from the same source 0.3 s later gets at most 2; (3) a server cookie obtained from an answered query exempts a 60-query burst only with the same client cookie, source and server address; presented from another source, to another server address, with a flipped bit, with an invented server part, after a restart, or with a server part computed by the public algorithm (HMAC-SHA256 over client cookie, server address, client address) under a guessable key (all-zero, all-ones, 01..08), or cut to 1, 8 or 16 octets of server part it does not; (4) a source past its allowance tries all 256 one-octet server parts, none of which may exempt it");
                ctx.assume("key rotation (24..36 h) cannot be driven in a running server: acceptance under the previous key and rejection after two rotations are not covered");
                props_dnswire2::run_c16_wire(&ctx);
            }
        }
        _ => {
            eprintln!("unknown property {}", id);
            return 2;
        }
    }
    ctx.finish()
}

pub fn run_replay(path: &str) -> i32 {
    let text = match std::fs::read_to_string(path) {
        Ok(t) => t,
        Err(e) => {
            eprintln!("cannot read {}: {}", path, e);
            return 2;
        }
    };
    let v: serde_json::Value = match serde_json::from_str(&text) {
        Ok(v) => v,
        Err(e) => {
            eprintln!("cannot parse {}: {}", path, e);
            return 2;
        }
    };
    let id = v["property"].as_str().unwrap_or("");
    let sub = v["sub"].as_str().unwrap_or("");
    let case = &v["case"];
    let res = props_dhcp::replay(id, sub, case).or_else(|| props_codec::replay(id, sub, case))
        .or_else(|| props_dnsfunc::replay(id, sub, case))
        .or_else(|| props_crash::replay(id, sub, case))
        .or_else(|| props_conf::replay(id, sub, case))
        .or_else(|| props_ra::replay(id, sub, case))
        .or_else(|| props_acl::replay(id, sub, case))
        .or_else(|| props_policy::replay(id, sub, case))
        .or_else(|| fuzzdrv::replay(sub, case))
        .or_else(|| props_crashpoint::replay(id, sub, case));
    let res = match res {
        Some(r) => Some(r),
        None => {
            if let Err(e) = prepare_wire(id) {
                eprintln!("wire rig unavailable: {}", e);
            }
            props_dnswire::replay(id, sub, case)
                .or_else(|| props_dnsroute::replay(id, sub, case))
                .or_else(|| props_dnsconc::replay(id, sub, case))
                .or_else(|| props_dnswire2::replay(id, sub, case))
                .or_else(|| props_netwire::replay(id, sub, case))
                .or_else(|| props_confwire::replay(id, sub, case))
        }
    };
    // A replay file whose case is not a generated value records one of the enumerated scenarios
    // of its tier (a steady flood, a late upstream reply, a large-reply configuration, ...).
    // Those are deterministic and run before anything generated: re-run the tier.
    let rerun = |why: String| -> i32 {
        let tier = if v["tier"].as_str() == Some("thorough") { Tier::Thorough } else { Tier::Quick };
        eprintln!("{}: the file records an enumerated scenario of `{} {}`; re-running that tier", why, id, if tier == Tier::Thorough { "thorough" } else { "quick" });
        if id.is_empty() {
            return 2;
        }
        run_check(id, tier)
    };
    match res {
        None => rerun(format!("no case replayer for {} / {}", id, sub)),
        Some(Err(e)) => rerun(format!("case is not a generated value ({})", e)),
        Some(Ok(out)) => match out.fail {
            Some(f) => {
                println!("replay: FAIL sig={} detail={}", f.sig, f.detail);
                println!("VIOLATION property={} replay={}", id, path);
                1
            }
            None => {
                println!("replay: pass");
                0
            }
        },
    }
}

pub const NET_CONF: &str = "---\naddresses: [10.55.0.0/24, \"fd55::/64\"]\napi-listeners: [\"/var/lib/erbium/control\", \"[::]:9968\"]\ndns-routes: []\n";

pub fn net_selftest() -> i32 {
    if let Err(e) = netns::enter_private_namespaces() {
        eprintln!("ns: {}", e);
        return 2;
    }
    if let Err(e) = wire_net::setup_topology() {
        eprintln!("topology: {}", e);
        return 2;
    }
    let raw = wire_net::RawIf::open("cli0").expect("raw");
    let mut srv = wire_net::NetServer::start("erbium", NET_CONF, "info").expect("start");
    match srv.wait_dhcp_ready(&raw) {
        Ok(()) => println!("dhcp ready"),
        Err(e) => {
            println!("not ready: {}", e);
            return 1;
        }
    }
    let mut m = rfc2131::Msg { xid: 77, flags: 0, ..Default::default() };
    m.set_hw(&[2, 0, 0, 0, 0, 9]);
    m.options.push((rfc2131::OPT_MSG_TYPE, vec![rfc2131::DISCOVER]));
    m.options.push((rfc2131::OPT_HOSTNAME, b"a\x01b\"c".to_vec()));
    println!("exchange: {:?}", wire_net::dhcp_exchange(&raw, &m, std::time::Duration::from_secs(2)).map(|r| r.map(|f| (f.frame.ip_dst, f.msg.yiaddr, f.msg.option_map().keys().cloned().collect::<Vec<_>>()))));
    println!("unix /: {:?}", wire_net::http_unix(wire_net::CONTROL, Some("/var/lib/erbium/cli.sock"), "/").map(|r| (r.status, String::from_utf8_lossy(&r.body).to_string())));
    println!("tcp4 /api: {:?}", wire_net::http_tcp(std::net::IpAddr::V4(wire_net::CLI4[0]), std::net::SocketAddr::new(std::net::IpAddr::V4(wire_net::SRV4), 9968), "/api/v1/leases.json").map(|r| (r.status, String::from_utf8_lossy(&r.body).to_string())));
    println!("tcp6 /metrics: {:?}", wire_net::http_tcp(std::net::IpAddr::V6(wire_net::cli6(0)), std::net::SocketAddr::new(std::net::IpAddr::V6(wire_net::srv6()), 9968), "/metrics").map(|r| (r.status, r.body.len())));
    println!("db rows: {:?}", wire_net::db_rows().map(|r| r.len()));
    println!("unix unbound /: {:?}", wire_net::http_unix(wire_net::CONTROL, None, "/").map(|r| r.status));
    println!("unix bound again /: {:?}", wire_net::http_unix(wire_net::CONTROL, Some("/var/lib/erbium/cli.sock"), "/").map(|r| r.status));
    println!("panics: {:?}", srv.panics());
    println!("---- stderr tail ----\n{}", srv.stderr_tail());
    0
}
