use vlib::engine::Tier;

fn main() {
    vlib::engine::install_panic_hook();
    let args: Vec<String> = std::env::args().collect();
    let code = if args.len() >= 3 && args[1] == "--replay" {
        vlib::run_replay(&args[2])
    } else if args.len() >= 3 {
        let tier = match args[2].as_str() {
            "quick" => Tier::Quick,
            "thorough" => Tier::Thorough,
            other => {
                eprintln!("unknown tier {}", other);
                std::process::exit(2);
            }
        };
        vlib::run_check(&args[1], tier)
    } else {
        eprintln!("usage: vcheck <ID> <quick|thorough> | --replay <file>");
        2
    };
    std::process::exit(code);
}
