use vlib::engine::Tier;

/// The check runs in a child process; the parent only interprets how it ended, so that an abort,
/// a stack overflow or a watchdog kill inside the code under test still yields a replay file.
fn parent(args: &[String]) -> i32 {
    let exe = std::env::current_exe().expect("current_exe");
    let mut child = std::process::Command::new(exe)
        .args(&args[1..])
        .env("VCHECK_CHILD", "1")
        .spawn()
        .expect("spawn child");
    let pid = child.id();
    let status = child.wait().expect("wait");
    let prefix = vlib::props_crash::slot_prefix(pid);
    let cleanup = |keep: bool| {
        let dir = vlib::props_crash::slot_dir();
        if let Ok(rd) = std::fs::read_dir(&dir) {
            for e in rd.flatten() {
                let p = e.path().to_string_lossy().to_string();
                if p.starts_with(&prefix) && !keep {
                    let _ = std::fs::remove_file(&p);
                }
            }
        }
    };
    match status.code() {
        Some(c) if (0..=2).contains(&c) => {
            cleanup(false);
            c
        }
        other => {
            // abnormal end: look for in-flight inputs
            let mut reported = 0;
            let dir = vlib::props_crash::slot_dir();
            if let Ok(rd) = std::fs::read_dir(&dir) {
                let mut paths: Vec<String> = rd
                    .flatten()
                    .map(|e| e.path().to_string_lossy().to_string())
                    .filter(|p| p.starts_with(&prefix) && !p.ends_with(".hang"))
                    .collect();
                paths.sort();
                let any_hang = paths.iter().any(|p| std::path::Path::new(&format!("{}.hang", p)).exists());
                for p in paths {
                    let hang = std::path::Path::new(&format!("{}.hang", p)).exists();
                    if any_hang && !hang {
                        continue;
                    }
                    if let Some((id, target, bytes)) = vlib::props_crash::read_slot(&p) {
                        let sig = if hang {
                            format!("hang:{}", target)
                        } else {
                            format!("abort:{}", target)
                        };
                        let body = serde_json::json!({
                            "property": id,
                            "sub": "bytes",
                            "sig": sig,
                            "detail": format!("child process ended abnormally ({:?}) while this input was in flight", other),
                            "case": {"target": target, "bytes": vlib::props_codec::to_hex(&bytes)},
                        });
                        let text = serde_json::to_string_pretty(&body).unwrap();
                        let _ = std::fs::create_dir_all("/verif/replays");
                        let path = format!("/verif/replays/{}-bytes-abnormal-{}.json", id, reported);
                        let _ = std::fs::write(&path, text);
                        println!("  violation sig={} ({} octets in flight)", sig, bytes.len());
                        println!("VIOLATION property={} replay={}", id, path);
                        reported += 1;
                    }
                }
            }
            cleanup(false);
            if reported > 0 {
                1
            } else {
                println!("INCONCLUSIVE reason=child-ended-abnormally status={:?}", other);
                2
            }
        }
    }
}

fn main() {
    let args: Vec<String> = std::env::args().collect();
    if args.len() >= 3 && args[1] == "_c14min" {
        // development aid: minimise the byte input of a C14 replay file
        let v: serde_json::Value = serde_json::from_str(&std::fs::read_to_string(&args[2]).unwrap()).unwrap();
        let hex = v["case"]["bytes"].as_str().or(v["case"].as_str()).unwrap().to_string();
        let bytes: Vec<u8> = (0..hex.len() / 2).map(|i| u8::from_str_radix(&hex[2 * i..2 * i + 2], 16).unwrap()).collect();
        let m = vlib::props_codec::minimise_c14(&bytes);
        println!("{} -> {} octets", bytes.len(), m.len());
        println!("{}", m.iter().map(|b| format!("{:02x}", b)).collect::<String>());
        if let Ok(p1) = erbium::dns::verif_parse(&m) {
            let b2 = p1.serialise();
            println!("re-encoded: {} octets", b2.len());
            println!("sections of the decoded input: answer {} nameserver {} additional {}; bufsize {}", p1.answer.len(), p1.nameserver.len(), p1.additional.len(), p1.bufsize);
            for (i, rr) in p1.answer.iter().chain(p1.nameserver.iter()).chain(p1.additional.iter()).enumerate() {
                let d = format!("{:?}", rr);
                println!("  rr {}: {} chars: {}", i, d.len(), &d[..d.len().min(160)]);
            }
            match erbium::dns::verif_parse(&b2) {
                Ok(p2) => {
                    let (a, b) = (format!("{:?}", p1), format!("{:?}", p2));
                    let i = a.bytes().zip(b.bytes()).position(|(x, y)| x != y).unwrap_or(a.len().min(b.len()));
                    let lo = i.saturating_sub(300);
                    println!("first difference at char {} of {} / {}", i, a.len(), b.len());
                    println!("A: {}", &a[lo..(i + 200).min(a.len())]);
                    println!("B: {}", &b[lo..(i + 200).min(b.len())]);
                }
                Err(e) => println!("re-encoded message rejected: {}", e),
            }
        }
        std::process::exit(0);
    }
    if args.len() >= 4 && args[1] == "_c18child" {
        // the process that gets killed at an enumerated write (props_crashpoint.rs)
        std::process::exit(vlib::props_crashpoint::c18_child(&args[2], &args[3]));
    }
    if std::env::var("VCHECK_CHILD").is_err() && args.len() >= 3 {
        std::process::exit(parent(&args));
    }
    vlib::engine::install_panic_hook();
    // SQLite keeps allocation statistics under one global mutex by default, which serialises the
    // sixteen worker threads (each with its own private database); switch the statistics off.
    unsafe {
        rusqlite::ffi::sqlite3_config(rusqlite::ffi::SQLITE_CONFIG_MEMSTATUS, 0 as std::os::raw::c_int);
    }
    let code = if args.len() >= 2 && args[1] == "_nettest" {
        vlib::net_selftest()
    } else if args.len() >= 3 && args[1] == "--replay" {
        vlib::run_replay(&args[2])
    } else if args.len() >= 3 {
        let tier = match args[2].as_str() {
            "quick" => Tier::Quick,
            "thorough" => Tier::Thorough,
            other => {
                eprintln!("unknown tier {}", other);
                std::process::exit(2);
            }
        };
        vlib::run_check(&args[1], tier)
    } else {
        eprintln!("usage: vcheck <ID> <quick|thorough> | --replay <file>");
        2
    };
    std::process::exit(code);
}
