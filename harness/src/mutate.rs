//! Seed packets (built by the harness's own encoders / by hand from the RFCs) and the finite
//! structure-aware mutation family of DESIGN 3/C05: every octet and every 16-bit position set to
//! each boundary value, every truncation point.

use crate::rfc1035 as dns;
use crate::rfc2131 as wire;

pub const BYTE_VALUES: [u8; 12] = [
    0x00, 0x01, 0x02, 0x3f, 0x40, 0x7f, 0x80, 0xbf, 0xc0, 0xc1, 0xfe, 0xff,
];
pub const WORD_VALUES: [u16; 12] = [
    0x0000, 0x0001, 0x0007, 0x00ff, 0x0100, 0x3fff, 0x4000, 0xc000, 0xc00c, 0x7fff, 0x8000, 0xffff,
];

/// Number of members of the family for a seed of length n.
pub fn family_size(n: usize) -> u64 {
    // byte sets + byte +-1 + word sets + truncations + 1 (the seed itself)
    (n * (BYTE_VALUES.len() + 2) + n.saturating_sub(1) * WORD_VALUES.len() + n + 1) as u64
}

/// The i-th member of the family.
pub fn family_member(seed: &[u8], mut i: u64) -> Vec<u8> {
    let n = seed.len();
    let mut b = seed.to_vec();
    if i == 0 {
        return b;
    }
    i -= 1;
    let nb = (n * (BYTE_VALUES.len() + 2)) as u64;
    if i < nb {
        let pos = (i / (BYTE_VALUES.len() as u64 + 2)) as usize;
        let k = (i % (BYTE_VALUES.len() as u64 + 2)) as usize;
        b[pos] = if k < BYTE_VALUES.len() {
            BYTE_VALUES[k]
        } else if k == BYTE_VALUES.len() {
            seed[pos].wrapping_sub(1)
        } else {
            seed[pos].wrapping_add(1)
        };
        return b;
    }
    i -= nb;
    let nw = (n.saturating_sub(1) * WORD_VALUES.len()) as u64;
    if i < nw {
        let pos = (i / WORD_VALUES.len() as u64) as usize;
        let v = WORD_VALUES[(i % WORD_VALUES.len() as u64) as usize];
        b[pos] = (v >> 8) as u8;
        b[pos + 1] = v as u8;
        return b;
    }
    i -= nw;
    b.truncate(i as usize);
    b
}

// ---------------------------------------------------------------------------------------------
// seeds

fn n(s: &str) -> dns::Name {
    dns::name_from_str(s)
}

fn edns(size: u16, do_bit: bool, options: Vec<(u16, Vec<u8>)>) -> dns::Edns {
    dns::Edns {
        udp_size: size,
        ext_rcode: 0,
        version: 0,
        do_bit,
        options,
    }
}

pub fn dns_seeds() -> Vec<Vec<u8>> {
    let mut v = vec![];
    let q = |name: &str, t: u16, e: Option<dns::Edns>| {
        dns::encode(&dns::query(0x1234, &n(name), t, 1, true, e), dns::Compress::Off)
    };
    v.push(q("example.com", 1, None));
    v.push(q("", 2, None));
    v.push(q("www.example.com", 28, Some(edns(1232, true, vec![]))));
    // COOKIE (client only, client+server of 8/16/32), NSID, EDE, client subnet, padding
    v.push(q("a.example.com", 1, Some(edns(4096, false, vec![(10, vec![1, 2, 3, 4, 5, 6, 7, 8])]))));
    v.push(q(
        "a.example.com",
        1,
        Some(edns(4096, false, vec![(10, (0u8..16).collect())])),
    ));
    v.push(q(
        "a.example.com",
        1,
        Some(edns(4096, false, vec![(10, (0u8..40).collect()), (3, vec![])])),
    ));
    v.push(q(
        "b.example.com",
        15,
        Some(edns(
            512,
            false,
            vec![
                (3, vec![]),
                (8, vec![0, 1, 24, 0, 192, 0, 2]),
                (15, vec![0, 18, b'n', b'o']),
                (12, vec![0; 5]),
            ],
        )),
    ));
    // replies with every rdata kind, compressed and not
    let mut r = dns::Message {
        header: dns::Header {
            id: 0x4321,
            qr: true,
            rd: true,
            ra: true,
            ..Default::default()
        },
        questions: vec![dns::Question {
            name: n("www.example.com"),
            qtype: 1,
            qclass: 1,
        }],
        ..Default::default()
    };
    let rr = |name: &str, t: u16, rd: dns::RData| dns::Rr {
        name: n(name),
        rtype: t,
        class: 1,
        ttl: 300,
        rdata: rd,
    };
    r.answer.push(rr("www.example.com", dns::T_CNAME, dns::RData::Name(n("host.example.com"))));
    r.answer.push(rr("host.example.com", dns::T_A, dns::RData::Raw(vec![192, 0, 2, 1])));
    r.authority.push(rr("example.com", dns::T_NS, dns::RData::Name(n("ns1.example.com"))));
    r.authority.push(rr(
        "example.com",
        dns::T_SOA,
        dns::RData::Soa {
            mname: n("ns1.example.com"),
            rname: n("admin.example.com"),
            serial: 1,
            refresh: 2,
            retry: 3,
            expire: 4,
            minimum: 5,
        },
    ));
    r.additional.push(rr("example.com", dns::T_MX, dns::RData::PrefName(10, n("mx.example.com"))));
    r.additional.push(rr("example.com", dns::T_RP, dns::RData::Rp(n("a.example.com"), n("b.example.com"))));
    r.additional.push(rr(
        "example.com",
        dns::T_NAPTR,
        dns::RData::Naptr {
            order: 1,
            preference: 2,
            flags: b"U".to_vec(),
            services: b"E2U+sip".to_vec(),
            regexp: b"!^.*$!sip:x@example.com!".to_vec(),
            replacement: n("sip.example.com"),
        },
    ));
    r.additional.push(rr("example.com", dns::T_AFSDB, dns::RData::PrefName(1, n("afs.example.com"))));
    r.additional.push(rr("1.2.0.192.in-addr.arpa", dns::T_PTR, dns::RData::Name(n("host.example.com"))));
    r.additional.push(rr("example.com", dns::T_TXT, dns::RData::Raw(vec![3, b'a', b'b', b'c'])));
    for c in [dns::Compress::Off, dns::Compress::All] {
        v.push(dns::encode(&r, c));
    }
    let mut r2 = r.clone();
    r2.additional.push(dns::opt_rr(&edns(
        1232,
        true,
        vec![(15, vec![0, 22, b't', b'i', b'm', b'e']), (10, (0u8..24).collect())],
    )));
    r2.header.rcode = 2;
    v.push(dns::encode(&r2, dns::Compress::All));
    // truncated-flag reply with counts larger than content
    let mut t = dns::encode(&r, dns::Compress::All);
    t[2] |= 0x02;
    t.truncate(t.len() - 20);
    v.push(t);
    v
}

pub fn dhcp_seeds() -> Vec<Vec<u8>> {
    let mut v = vec![];
    let base = |t: u8| {
        let mut m = wire::Msg {
            xid: 0xdead_beef,
            flags: 0x8000,
            ..Default::default()
        };
        m.set_hw(&[2, 0, 0, 0, 0, 9]);
        m.with_opt(wire::OPT_MSG_TYPE, &[t])
    };
    v.push(base(wire::DISCOVER).encode());
    v.push(
        base(wire::DISCOVER)
            .with_opt(wire::OPT_CLIENT_ID, &[1, 2, 0, 0, 0, 0, 9])
            .with_opt(wire::OPT_HOSTNAME, b"laptop")
            .with_opt(wire::OPT_PARAM_LIST, &[1, 3, 6, 15, 26, 28, 51, 58, 59, 119, 121, 114])
            .with_opt(wire::OPT_REQUESTED_IP, &[192, 0, 2, 55])
            .with_opt(57, &[5, 220])
            .with_opt(60, b"MSFT 5.0")
            .encode(),
    );
    v.push(
        base(wire::REQUEST)
            .with_opt(wire::OPT_SERVER_ID, &[192, 0, 2, 1])
            .with_opt(wire::OPT_REQUESTED_IP, &[192, 0, 2, 55])
            .with_opt(wire::OPT_LEASE_TIME, &[0, 0, 14, 16])
            .encode(),
    );
    // options whose values the server decodes when logging: routes (121), domain search (119),
    // ip lists, u16/u32/i32, bool
    v.push(
        base(wire::REQUEST)
            .with_opt(121, &[24, 192, 0, 2, 0, 192, 0, 2, 254, 8, 10, 0, 0, 0, 192, 0, 2, 1])
            .with_opt(119, &[7, b'e', b'x', b'a', b'm', b'p', b'l', b'e', 3, b'c', b'o', b'm', 0, 3, b'n', b'e', b't', 0])
            .with_opt(6, &[192, 0, 2, 53, 192, 0, 2, 54])
            .with_opt(2, &[0, 0, 14, 16])
            .with_opt(26, &[5, 220])
            .with_opt(19, &[1])
            .with_opt(23, &[64])
            .with_opt(58, &[0, 0, 7, 8])
            .with_opt(81, &[0, 0, 0, b'h'])
            .with_opt(77, b"VPN")
            .with_opt(114, b"https://portal.example.com/")
            .encode(),
    );
    let mut m = base(wire::INFORM);
    m.ciaddr = std::net::Ipv4Addr::new(192, 0, 2, 77);
    v.push(m.encode());
    v.push(base(wire::RELEASE).with_opt(wire::OPT_SERVER_ID, &[192, 0, 2, 1]).encode());
    let mut m = base(wire::DISCOVER);
    m.sname = b"server".to_vec();
    m.file = b"boot/pxelinux.0".to_vec();
    m.giaddr = std::net::Ipv4Addr::new(10, 0, 0, 1);
    m.hops = 1;
    v.push(m.encode());
    v
}

fn nd_opt(t: u8, body: &[u8]) -> Vec<u8> {
    let mut v = vec![t, ((body.len() + 2) / 8) as u8];
    v.extend_from_slice(body);
    v
}

pub fn icmp6_seeds() -> Vec<Vec<u8>> {
    let mut v = vec![];
    // RS bare, RS + source link-layer address
    v.push(vec![133, 0, 0, 0, 0, 0, 0, 0]);
    let mut rs = vec![133, 0, 0, 0, 0, 0, 0, 0];
    rs.extend(nd_opt(1, &[2, 0, 0, 0, 0, 1]));
    v.push(rs);
    // RA with every option kind
    let mut ra = vec![134, 0, 0, 0, 64, 0xc0, 0x07, 0x08, 0, 0, 0x75, 0x30, 0, 0, 0x03, 0xe8];
    ra.extend(nd_opt(1, &[2, 0, 0, 0, 0, 1]));
    ra.extend(nd_opt(5, &[0, 0, 0, 0, 5, 220]));
    let mut pi = vec![64, 0xc0, 0, 0x27, 0x8d, 0, 0, 0x09, 0x3a, 0x80, 0, 0, 0, 0];
    pi.extend_from_slice(&[0x20, 0x01, 0x0d, 0xb8, 0, 0, 0, 0, 0, 0, 0, 0, 0, 0, 0, 0]);
    ra.extend(nd_opt(3, &pi));
    let mut rd = vec![0, 0, 0, 0, 0x0e, 0x10];
    rd.extend_from_slice(&[0x20, 0x01, 0x0d, 0xb8, 0, 0, 0, 0, 0, 0, 0, 0, 0, 0, 0, 0x53]);
    ra.extend(nd_opt(25, &rd));
    let mut sl = vec![0, 0, 0, 0, 0x0e, 0x10];
    sl.extend_from_slice(&[7, b'e', b'x', b'a', b'm', b'p', b'l', b'e', 3, b'c', b'o', b'm', 0, 0, 0, 0, 0, 0]);
    ra.extend(nd_opt(31, &sl));
    let mut cp = b"https://example.com/portal".to_vec();
    while (cp.len() + 2) % 8 != 0 {
        cp.push(0);
    }
    ra.extend(nd_opt(37, &cp));
    let mut p64 = vec![0x02, 0x58];
    p64.extend_from_slice(&[0, 0x64, 0xff, 0x9b, 0, 0, 0, 0, 0, 0, 0, 0]);
    ra.extend(nd_opt(38, &p64));
    ra.extend(nd_opt(24, &[64, 0, 0, 0, 0x0e, 0x10, 0x20, 0x01, 0x0d, 0xb8, 0, 0, 0, 0]));
    v.push(ra);
    // neighbour solicitation, redirect, unknown types
    v.push(vec![135, 0, 0, 0, 0, 0, 0, 0, 0xfe, 0x80, 0, 0, 0, 0, 0, 0, 0, 0, 0, 0, 0, 0, 0, 1]);
    v.push(vec![1, 0, 0, 0, 0, 0, 0, 0]);
    v
}

fn lldp_tlv(t: u8, body: &[u8]) -> Vec<u8> {
    let hdr = ((t as u16) << 9) | (body.len() as u16 & 0x1ff);
    let mut v = hdr.to_be_bytes().to_vec();
    v.extend_from_slice(body);
    v
}

pub fn lldp_seeds() -> Vec<Vec<u8>> {
    let mut v = vec![];
    let mut p = vec![];
    p.extend(lldp_tlv(1, &[4, 0, 0x19, 0x2f, 0xa7, 0xb2, 0x8d]));
    p.extend(lldp_tlv(2, b"\x01Uplink to S1"));
    p.extend(lldp_tlv(3, &[0, 120]));
    p.extend(lldp_tlv(4, b"GigabitEthernet0/13"));
    p.extend(lldp_tlv(5, b"S2.cisco.com"));
    p.extend(lldp_tlv(6, b"Cisco IOS Software"));
    p.extend(lldp_tlv(7, &[0, 0x14, 0, 0x04]));
    // management address: len(5) subtype(1=IPv4) addr(4) ifsubtype(2) ifnum(4) oidlen(0)
    p.extend(lldp_tlv(8, &[5, 1, 192, 0, 2, 1, 2, 0, 0, 0, 13, 0]));
    // management address with an OID
    p.extend(lldp_tlv(8, &[17, 2, 0x20, 1, 0x0d, 0xb8, 0, 0, 0, 0, 0, 0, 0, 0, 0, 0, 0, 1, 3, 0, 0, 0, 1, 3, 1, 3, 6]));
    p.extend(lldp_tlv(127, &[0x00, 0x12, 0x0f, 0x01, 0x03, 0xc0, 0x36, 0x00, 0x10]));
    p.extend(lldp_tlv(127, &[0x00, 0x80, 0xc2, 0x01, 0x00, 0x01]));
    p.extend(lldp_tlv(0, &[]));
    v.push(p);
    // each chassis / port id subtype
    for st in 0..=8u8 {
        let mut p = vec![];
        p.extend(lldp_tlv(1, &[st, b'x', b'y', b'z', 1, 2, 3]));
        p.extend(lldp_tlv(2, &[st, b'e', b't', b'h', b'0']));
        p.extend(lldp_tlv(3, &[0, 30]));
        p.extend(lldp_tlv(0, &[]));
        v.push(p);
    }
    v.push(lldp_tlv(0x55, &[0x42]));
    v
}

// ---------------------------------------------------------------------------------------------
// nested-length families: inner lengths varied with every enclosing length kept consistent, which
// single-position mutation cannot produce

/// DNS: every EDNS option code of interest x every data length 0..=41, in a query and in a reply.
pub fn dns_nested() -> Vec<Vec<u8>> {
    let mut v = vec![];
    for code in [0u16, 3, 8, 10, 12, 15, 65001, 65535] {
        for len in 0..=41usize {
            let data: Vec<u8> = (0..len).map(|i| (i as u8).wrapping_mul(7).wrapping_add(1)).collect();
            let e = edns(1232, len % 2 == 0, vec![(code, data.clone())]);
            v.push(dns::encode(&dns::query(1, &n("q.example.com"), 1, 1, true, Some(e.clone())), dns::Compress::Off));
            let mut r = dns::query(2, &n("q.example.com"), 1, 1, true, None);
            r.header.qr = true;
            r.header.rcode = (len % 6) as u8;
            r.answer.push(dns::Rr {
                name: n("q.example.com"),
                rtype: 1,
                class: 1,
                ttl: 60,
                rdata: dns::RData::Raw(vec![192, 0, 2, 1]),
            });
            // two options: the varied one and a well-formed cookie
            let mut e2 = e.clone();
            e2.options.push((10, vec![9; 16]));
            r.additional.push(dns::opt_rr(&e2));
            v.push(dns::encode(&r, dns::Compress::All));
        }
    }
    // pointer pairs: a name that points (legally backwards) at two octets which are themselves
    // a pointer - to themselves, to each other, or onwards - anywhere in the header; and the
    // same from inside a record of a reply.  Loops that add no label are bounded by nothing but
    // a hop count.
    {
        let q = dns::encode(&dns::query(0, &n("loop.example.com"), 1, 1, true, None), dns::Compress::Off);
        let mut r = dns::query(2, &n("q.example.com"), 1, 1, true, None);
        r.header.qr = true;
        r.answer.push(dns::Rr { name: n("q.example.com"), rtype: 5, class: 1, ttl: 60, rdata: dns::RData::Raw(vec![0xc0, 0x00]) });
        let r = dns::encode(&r, dns::Compress::Off);
        for t in (0u8..12).step_by(2) {
            for u in (0u8..12).step_by(2) {
                // header position t holds a pointer to position u, position u one to t
                let mut b = q.clone();
                b[t as usize] = 0xc0;
                b[t as usize + 1] = u;
                b[u as usize] = 0xc0;
                b[u as usize + 1] = t;
                // the question name is a pointer to t; the rest of the old name follows as junk
                b[12] = 0xc0;
                b[13] = t;
                v.push(b.clone());
                // ... and properly terminated: pointer, then type and class
                let mut c = b[..14].to_vec();
                c.extend_from_slice(&[0, 1, 0, 1]);
                v.push(c);
                let mut rr = r.clone();
                rr[t as usize] = 0xc0;
                rr[t as usize + 1] = u;
                if t != u {
                    rr[u as usize] = 0xc0;
                    rr[u as usize + 1] = t;
                }
                let l = rr.len();
                rr[l - 2] = 0xc0;
                rr[l - 1] = t;
                v.push(rr);
            }
        }
    }
    // the same octets under other section counts: a record counted in another section than
    // the one its sender meant (the OPT pseudo-record as an authority or answer record, an
    // answer as additional data, ...)
    {
        let mut r = dns::query(2, &n("q.example.com"), 1, 1, true, None);
        r.header.qr = true;
        for k in 0..2u8 {
            r.answer.push(dns::Rr { name: n("q.example.com"), rtype: 1, class: 1, ttl: 60 + k as u32, rdata: dns::RData::Raw(vec![192, 0, 2, k]) });
        }
        r.authority.push(dns::Rr { name: n("example.com"), rtype: 2, class: 1, ttl: 300, rdata: dns::RData::Name(n("ns.example.com")) });
        r.additional.push(dns::opt_rr(&edns(1232, false, vec![])));
        let b = dns::encode(&r, dns::Compress::Owners);
        let total = 4u16;
        for an in 0..=total {
            for ns in 0..=(total - an) {
                let ar = total - an - ns;
                let mut c = b.clone();
                c[6..8].copy_from_slice(&an.to_be_bytes());
                c[8..10].copy_from_slice(&ns.to_be_bytes());
                c[10..12].copy_from_slice(&ar.to_be_bytes());
                v.push(c);
            }
        }
        // and with only one ordinary record next to the OPT
        let mut r1 = dns::query(2, &n("q.example.com"), 1, 1, true, None);
        r1.header.qr = true;
        r1.answer.push(dns::Rr { name: n("q.example.com"), rtype: 1, class: 1, ttl: 60, rdata: dns::RData::Raw(vec![192, 0, 2, 9]) });
        r1.additional.push(dns::opt_rr(&edns(4096, true, vec![(10, vec![7; 8])])));
        let b1 = dns::encode(&r1, dns::Compress::Off);
        for (an, ns, ar) in [(2u16, 0u16, 0u16), (1, 1, 0), (0, 2, 0), (0, 1, 1), (0, 0, 2)] {
            let mut c = b1.clone();
            c[6..8].copy_from_slice(&an.to_be_bytes());
            c[8..10].copy_from_slice(&ns.to_be_bytes());
            c[10..12].copy_from_slice(&ar.to_be_bytes());
            v.push(c);
        }
    }
    // names: every label count 0..=40 and label length 1..=63 at the question
    for labels in 0..=40usize {
        let name: dns::Name = (0..labels).map(|i| vec![b'a' + (i % 26) as u8; 1 + i % 5]).collect();
        v.push(dns::encode(&dns::query(3, &name, 1, 1, true, None), dns::Compress::Off));
    }
    for l in 1..=63usize {
        v.push(dns::encode(&dns::query(4, &vec![vec![b'x'; l], b"com".to_vec()], 1, 1, true, None), dns::Compress::Off));
    }
    v
}

/// DHCP: every option code x value length 0..=9 (well-formed TLVs); classless routes with every
/// prefix-length octet; domain-search with every label length.
pub fn dhcp_nested() -> Vec<Vec<u8>> {
    let mut v = vec![];
    let base = |t: u8| {
        let mut m = wire::Msg {
            xid: 7,
            ..Default::default()
        };
        m.set_hw(&[2, 0, 0, 0, 0, 9]);
        m.with_opt(wire::OPT_MSG_TYPE, &[t])
    };
    for code in 1..=254u8 {
        if code == wire::OPT_MSG_TYPE {
            continue;
        }
        for len in 0..=9usize {
            let val: Vec<u8> = (0..len).map(|i| 0x41 + i as u8).collect();
            v.push(base(if len % 2 == 0 { wire::DISCOVER } else { wire::REQUEST }).with_opt(code, &val).encode());
        }
    }
    for plen in 0..=255u8 {
        v.push(base(wire::DISCOVER).with_opt(121, &[plen, 10, 0, 0, 0, 192, 0, 2, 1]).encode());
        v.push(base(wire::REQUEST).with_opt(121, &[24, 192, 0, 2, 0, 192, 0, 2, 254, plen, 0, 0, 0, 0, 192, 0, 2, 1]).encode());
    }
    for l in 0..=70u8 {
        let mut d = vec![l];
        d.extend(std::iter::repeat(b'a').take(l as usize));
        d.push(0);
        v.push(base(wire::DISCOVER).with_opt(119, &d).encode());
        // length octet promising more than is there
        v.push(base(wire::DISCOVER).with_opt(119, &[l, b'a', b'b', 0]).encode());
    }
    // message type of every value, hlen of every value
    for t in 0..=255u8 {
        v.push(base(t).encode());
    }
    for h in 0..=255u8 {
        let mut m = base(wire::DISCOVER);
        m.hlen = h;
        v.push(m.encode());
        let mut m = base(wire::REQUEST).with_opt(wire::OPT_REQUESTED_IP, &[192, 0, 2, 100]);
        m.hlen = h;
        v.push(m.encode());
    }
    v
}

/// DHCP options far longer than one instance can carry (RFC 3396 concatenation), for the options
/// whose values the server decodes as text or lists when it logs or records a request, filled
/// with ASCII, octets that are not UTF-8, and multi-octet UTF-8 characters at every alignment.
pub fn dhcp_long_split() -> Vec<Vec<u8>> {
    let mut v = vec![];
    let base = |t: u8, k: usize| {
        let mut m = wire::Msg {
            xid: 0x5151_0000 + k as u32,
            flags: 0x8000,
            ..Default::default()
        };
        // one client throughout: every well-formed member is answered with a lease, and a
        // family of distinct clients would drain a /24 before it is through
        m.set_hw(&[2, 0x51, 0, 0, 0, 9]);
        m.with_opt(wire::OPT_MSG_TYPE, &[t])
    };
    let fills: Vec<(usize, Vec<u8>)> = {
        let mut f: Vec<(usize, Vec<u8>)> = vec![
            (0, b"a".to_vec()),
            (0, vec![0xff]),
            (0, vec![0x80]),
            (0, vec![b'a', 0xff]),
            (0, vec![b'a', b'b', 0xff]),
            (0, vec![b'a', 0xff, 0xff, b'c', 0xe2]),
            (0, (0xc0u8..=0xff).collect()),
            (0, vec![0]),
            (0, b"a.".to_vec()),
        ];
        for lead in 0..4usize {
            f.push((lead, vec![0xc3, 0xa9]));
            f.push((lead, vec![0xe2, 0x82, 0xac]));
            f.push((lead, vec![0xf0, 0x9f, 0x98, 0x80]));
        }
        f
    };
    let mut k = 0usize;
    for code in [12u8, 15, 60, 61, 77, 81, 114, 119, 121, 55, 6] {
        for total in [256usize, 300, 511, 700, 766, 770, 1020, 1180] {
            for (lead, unit) in &fills {
                // the wire tier carries at most 1472 octets of payload
                let mut val: Vec<u8> = std::iter::repeat(b'x').take(*lead).collect();
                while val.len() < total {
                    val.extend_from_slice(unit);
                }
                val.truncate(total);
                k += 1;
                let t = if k % 3 == 0 { wire::REQUEST } else { wire::DISCOVER };
                let m = match k % 4 {
                    // one long value: instances of 255
                    0 | 1 => base(t, k).with_opt(code, &val),
                    // uneven instances, another option in between
                    2 => {
                        let (a, b) = val.split_at(1.max(total / 3));
                        let mut m = base(t, k).with_opt(code, &a[..a.len().min(255)]).with_opt(wire::OPT_PARAM_LIST, &[1, 3, 6, 12, 15]);
                        for c in b.chunks(200) {
                            m = m.with_opt(code, c);
                        }
                        m
                    }
                    // many small instances
                    _ => {
                        let mut m = base(t, k);
                        for c in val.chunks(97) {
                            m = m.with_opt(code, c);
                        }
                        m
                    }
                };
                v.push(m.encode());
            }
        }
    }
    v
}

/// ICMPv6: RS and RA carrying each option type 0..=40 and 108 with lengths 0..=4 (in units of 8).
pub fn icmp6_nested() -> Vec<Vec<u8>> {
    let mut v = vec![];
    let types: Vec<u8> = (0..=40u8).chain([108u8, 255]).collect();
    for t in types {
        for l in 0..=4u8 {
            for hdr in [
                vec![133u8, 0, 0, 0, 0, 0, 0, 0],
                vec![134u8, 0, 0, 0, 64, 0, 7, 8, 0, 0, 0, 0, 0, 0, 0, 0],
            ] {
                let mut p = hdr.clone();
                p.push(t);
                p.push(l);
                let body = (l as usize * 8).saturating_sub(2);
                p.extend((0..body).map(|i| (i as u8).wrapping_mul(37)));
                v.push(p.clone());
                // a body of 0xff / 0x00
                let mut q = hdr.clone();
                q.push(t);
                q.push(l);
                q.extend(std::iter::repeat(0xffu8).take(body));
                v.push(q);
                let mut q = hdr.clone();
                q.push(t);
                q.push(l);
                q.extend(std::iter::repeat(0u8).take(body));
                v.push(q);
            }
        }
    }
    v
}

/// LLDP: every TLV type x body length 0..=12, alone and after the three mandatory TLVs.
pub fn lldp_nested() -> Vec<Vec<u8>> {
    let mut v = vec![];
    let mut prefix = vec![];
    prefix.extend(lldp_tlv(1, &[4, 0, 1, 2, 3, 4, 5]));
    prefix.extend(lldp_tlv(2, &[5, b'e', b't', b'h']));
    prefix.extend(lldp_tlv(3, &[0, 120]));
    for t in 0..=127u8 {
        for l in 0..=12usize {
            for fill in [0u8, 1, 0xff] {
                let body: Vec<u8> = (0..l).map(|i| if fill == 1 { i as u8 + 1 } else { fill }).collect();
                v.push(lldp_tlv(t, &body));
                let mut p = prefix.clone();
                p.extend(lldp_tlv(t, &body));
                p.extend(lldp_tlv(0, &[]));
                v.push(p);
            }
        }
    }
    v
}
