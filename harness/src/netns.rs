//! Private network / mount namespaces for the wire rigs.

use std::process::Command;

pub fn sh(cmd: &str) -> Result<String, String> {
    let out = Command::new("/bin/sh")
        .arg("-c")
        .arg(cmd)
        .output()
        .map_err(|e| format!("{}: {}", cmd, e))?;
    if !out.status.success() {
        return Err(format!(
            "{}: {}{}",
            cmd,
            String::from_utf8_lossy(&out.stdout),
            String::from_utf8_lossy(&out.stderr)
        ));
    }
    Ok(String::from_utf8_lossy(&out.stdout).to_string())
}

/// Must be called before any thread exists.  Afterwards this process (and its children) live in
/// a fresh network namespace with `lo` up and a private mount namespace.
pub fn enter_private_namespaces() -> Result<(), String> {
    let r = unsafe { libc::unshare(libc::CLONE_NEWNET | libc::CLONE_NEWNS) };
    if r != 0 {
        return Err(format!(
            "unshare(CLONE_NEWNET|CLONE_NEWNS): {}",
            std::io::Error::last_os_error()
        ));
    }
    // keep mounts private to us
    let root = std::ffi::CString::new("/").unwrap();
    let none = std::ffi::CString::new("none").unwrap();
    let r = unsafe {
        libc::mount(
            none.as_ptr(),
            root.as_ptr(),
            std::ptr::null(),
            libc::MS_REC | libc::MS_PRIVATE,
            std::ptr::null(),
        )
    };
    if r != 0 {
        return Err(format!("mount --make-rprivate /: {}", std::io::Error::last_os_error()));
    }
    sh("ip link set lo up")?;
    // extra local IPv6 addresses for source/destination variation (127/8 is local already)
    for i in 1..=16 {
        sh(&format!("ip -6 addr add fd00:e::{:x}/128 dev lo nodad", i))?;
    }
    Ok(())
}

/// A free port number (UDP and TCP) on the given address, at the time of asking.
pub fn free_port(addr: std::net::IpAddr) -> u16 {
    for _ in 0..50 {
        if let Ok(u) = std::net::UdpSocket::bind((addr, 0)) {
            let p = u.local_addr().unwrap().port();
            if std::net::TcpListener::bind((addr, p)).is_ok() && p != 53 {
                return p;
            }
        }
    }
    panic!("no free port on {}", addr);
}
