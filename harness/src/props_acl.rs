//! C08 (function tier): generated ACL lists through the real loader, decisions of
//! `acl::require_permission` against a reference first-match model.

use crate::conf::*;
use crate::engine::*;
use erbium_net::addr::{ToNetAddr as _, WithPort as _};
use proptest::prelude::*;
use serde::{Deserialize, Serialize};
use std::net::{IpAddr, Ipv4Addr, Ipv6Addr};
use yaml_rust::yaml::Yaml;

fn workers() -> usize {
    crate::props_codec::workers()
}

#[derive(Clone, Debug, Serialize, Deserialize, PartialEq)]
pub struct Pfx {
    pub ip: IpAddr,
    pub len: u8,
}

#[derive(Clone, Debug, Serialize, Deserialize, PartialEq)]
pub struct AclRule {
    pub subnets: Option<Vec<Pfx>>,
    /// 0 absent, 1 true, 2 false
    pub unix: u8,
    pub access: Vec<String>,
}

#[derive(Clone, Debug, Serialize, Deserialize, PartialEq)]
pub enum Pos {
    First,
    Last,
    Before,
    After,
    Inside(u128),
    Anywhere(u128),
}

#[derive(Clone, Debug, Serialize, Deserialize, PartialEq)]
pub struct ClientSel {
    pub rule: u16,
    pub subnet: u16,
    pub pos: Pos,
    /// present an IPv4 address as ::ffff:a.b.c.d (what a dual-stack listener sees)
    pub mapped: bool,
    pub unix: bool,
}

#[derive(Clone, Debug, Serialize, Deserialize, PartialEq)]
pub struct AclCase {
    pub acls: Option<Vec<AclRule>>,
    pub addresses: Vec<Pfx>,
    pub clients: Vec<ClientSel>,
}

pub const ACCESS: [&str; 6] = ["dhcp-client", "dns-recursion", "http", "http-metrics", "http-leases", "http-ro"];

fn pfx_strategy() -> impl Strategy<Value = Pfx> {
    prop_oneof![
        4 => (any::<u32>(), 0u8..=32, any::<bool>()).prop_map(|(a, len, hostbits)| {
            let m: u32 = if len == 0 { 0 } else { u32::MAX << (32 - len as u32) };
            let a = if hostbits { a } else { a & m };
            Pfx { ip: IpAddr::V4(Ipv4Addr::from(a)), len }
        }),
        3 => (any::<u128>(), 0u8..=128, any::<bool>()).prop_map(|(a, len, hostbits)| {
            let m: u128 = if len == 0 { 0 } else { u128::MAX << (128 - len as u32) };
            let a = if hostbits { a } else { a & m };
            Pfx { ip: IpAddr::V6(Ipv6Addr::from(a)), len }
        }),
        2 => (any::<u32>(), prop_oneof![4 => 96u8..=128, 1 => 0u8..=95], any::<bool>()).prop_map(|(a, len, hostbits)| {
            let full: u128 = 0xffff_0000_0000u128 | a as u128;
            let m: u128 = if len == 0 { 0 } else { u128::MAX << (128 - len as u32) };
            let v = if hostbits { full } else { full & m };
            Pfx { ip: IpAddr::V6(Ipv6Addr::from(v)), len }
        }),
        1 => Just(Pfx { ip: IpAddr::V4(Ipv4Addr::new(127, 0, 0, 0)), len: 8 }),
        1 => Just(Pfx { ip: IpAddr::V6(Ipv6Addr::LOCALHOST), len: 128 }),
    ]
}

fn rule_strategy() -> impl Strategy<Value = AclRule> {
    (
        proptest::option::weighted(0.8, proptest::collection::vec(pfx_strategy(), 0..=4)),
        prop_oneof![3 => Just(0u8), 1 => Just(1u8), 1 => Just(2u8)],
        proptest::collection::vec(any::<u16>().prop_map(|i| ACCESS[pick_idx(i, ACCESS.len())].to_string()), 0..=4),
    )
        .prop_map(|(subnets, unix, access)| AclRule { subnets, unix, access })
}

fn pos_strategy() -> impl Strategy<Value = Pos> {
    prop_oneof![
        2 => Just(Pos::First),
        2 => Just(Pos::Last),
        2 => Just(Pos::Before),
        2 => Just(Pos::After),
        4 => any::<u128>().prop_map(Pos::Inside),
        2 => any::<u128>().prop_map(Pos::Anywhere),
    ]
}

pub fn acl_case_strategy() -> impl Strategy<Value = AclCase> {
    (
        proptest::option::weighted(0.85, proptest::collection::vec(rule_strategy(), 0..=6)),
        proptest::collection::vec(pfx_strategy(), 0..=3),
        proptest::collection::vec(
            (any::<u16>(), any::<u16>(), pos_strategy(), any::<bool>(), proptest::bool::weighted(0.1))
                .prop_map(|(rule, subnet, pos, mapped, unix)| ClientSel { rule, subnet, pos, mapped, unix }),
            1..=10,
        ),
    )
        .prop_map(|(acls, addresses, clients)| AclCase { acls, addresses, clients })
}

fn pfx_yaml(p: &Pfx) -> Yaml {
    ystr(&format!("{}/{}", p.ip, p.len))
}

pub fn render(c: &AclCase) -> Option<String> {
    let mut top: Vec<(&str, Yaml)> = vec![];
    if !c.addresses.is_empty() {
        top.push(("addresses", ylist(c.addresses.iter().map(pfx_yaml).collect())));
    }
    if let Some(rules) = &c.acls {
        top.push((
            "acls",
            ylist(
                rules
                    .iter()
                    .map(|r| {
                        let mut e: Vec<(&str, Yaml)> = vec![];
                        if let Some(s) = &r.subnets {
                            e.push(("match-subnets", ylist(s.iter().map(pfx_yaml).collect())));
                        }
                        match r.unix {
                            1 => e.push(("match-unix", Yaml::Boolean(true))),
                            2 => e.push(("match-unix", Yaml::Boolean(false))),
                            _ => {}
                        }
                        e.push(("apply-access", ylist(r.access.iter().map(|a| ystr(a)).collect())));
                        ymap(e)
                    })
                    .collect(),
            ),
        ));
    }
    if top.is_empty() {
        top.push(("dns-search", ylist(vec![])));
    }
    let tree = vary_key_order(&ymap(top));
    let text = emit(&tree);
    if parse_yaml(&text).as_ref() != Some(&tree) {
        return None;
    }
    Some(text)
}

#[derive(Clone, Debug, PartialEq)]
pub enum Client {
    V4(Ipv4Addr),
    V6(Ipv6Addr),
    Unix,
}

/// None = the documentation does not say (pure IPv4 client against an IPv6 prefix shorter
/// than /96).
pub fn contains(p: &Pfx, c: &Client) -> Option<bool> {
    let m4 = |len: u8| -> u32 { if len == 0 { 0 } else { u32::MAX << (32 - len as u32) } };
    let m6 = |len: u8| -> u128 { if len == 0 { 0 } else { u128::MAX << (128 - len as u32) } };
    match (p.ip, c) {
        (_, Client::Unix) => Some(false),
        (IpAddr::V4(n), Client::V4(a)) => Some(u32::from(*a) & m4(p.len) == u32::from(n) & m4(p.len)),
        (IpAddr::V4(n), Client::V6(a)) => match a.to_ipv4_mapped() {
            Some(a4) => Some(u32::from(a4) & m4(p.len) == u32::from(n) & m4(p.len)),
            None => Some(false),
        },
        (IpAddr::V6(n), Client::V6(a)) => Some(u128::from(*a) & m6(p.len) == u128::from(n) & m6(p.len)),
        (IpAddr::V6(n), Client::V4(a)) => {
            if p.len < 96 {
                // would contain the whole mapped range or none of it; the statement speaks of
                // IPv4 clients seen as mapped addresses only
                let mapped = Ipv6Addr::from(0xffff_0000_0000u128 | u32::from(*a) as u128);
                let inside = u128::from(mapped) & m6(p.len) == u128::from(n) & m6(p.len);
                if inside {
                    None
                } else {
                    Some(false)
                }
            } else {
                let mapped = 0xffff_0000_0000u128 | u32::from(*a) as u128;
                Some(mapped & m6(p.len) == u128::from(n) & m6(p.len))
            }
        }
    }
}

#[derive(Clone, Copy, Debug, PartialEq)]
pub struct Perm {
    pub dns: bool,
    /// None: the manual and the code disagree on whether the http-ro alias includes it
    pub http: Option<bool>,
    pub metrics: bool,
    pub leases: bool,
}

pub fn perms_of(access: &[String]) -> Perm {
    let has = |s: &str| access.iter().any(|a| a == s);
    Perm {
        dns: has("dns-recursion") || has("dhcp-client"),
        http: if has("http") {
            Some(true)
        } else if has("http-ro") {
            None
        } else {
            Some(false)
        },
        metrics: has("http-metrics") || has("http-ro"),
        leases: has("http-leases") || has("http-ro"),
    }
}

/// The rules in force (explicit, or the documented defaults).
pub fn effective_rules(c: &AclCase) -> Vec<AclRule> {
    match &c.acls {
        Some(r) => r.clone(),
        None => vec![
            AclRule {
                subnets: Some(c.addresses.clone()),
                unix: 0,
                access: vec!["dns-recursion".into(), "http-ro".into()],
            },
            AclRule {
                subnets: Some(vec![
                    Pfx { ip: IpAddr::V4(Ipv4Addr::new(127, 0, 0, 0)), len: 8 },
                    Pfx { ip: IpAddr::V6(Ipv6Addr::LOCALHOST), len: 128 },
                ]),
                unix: 0,
                access: vec!["dns-recursion".into(), "http-ro".into()],
            },
            AclRule {
                subnets: None,
                unix: 1,
                access: vec!["http-ro".into()],
            },
        ],
    }
}

/// Some(Some(perm)) first matching rule; Some(None) no rule matches; None undecidable (a
/// documented-silent containment question was met before a decision).
pub fn first_match(rules: &[AclRule], c: &Client) -> Option<Option<(usize, Perm)>> {
    for (i, r) in rules.iter().enumerate() {
        let unix_ok = match r.unix {
            1 => *c == Client::Unix,
            2 => *c != Client::Unix,
            _ => true,
        };
        let sub = match &r.subnets {
            None => Some(true),
            Some(list) => {
                let mut any = Some(false);
                for p in list {
                    match contains(p, c) {
                        Some(true) => {
                            any = Some(true);
                            break;
                        }
                        Some(false) => {}
                        None => any = None,
                    }
                }
                any
            }
        };
        match (sub, unix_ok) {
            (_, false) => continue,
            (Some(false), _) => continue,
            (Some(true), true) => return Some(Some((i, perms_of(&r.access)))),
            (None, true) => return None,
        }
    }
    Some(None)
}

pub fn resolve_client(c: &AclCase, rules: &[AclRule], s: &ClientSel) -> Client {
    if s.unix {
        return Client::Unix;
    }
    let all: Vec<&Pfx> = rules.iter().filter_map(|r| r.subnets.as_ref()).flatten().chain(c.addresses.iter()).collect();
    let anywhere = |x: u128| -> Client {
        if x & 1 == 0 {
            Client::V4(Ipv4Addr::from((x >> 8) as u32))
        } else {
            Client::V6(Ipv6Addr::from(x))
        }
    };
    if all.is_empty() {
        return match &s.pos {
            Pos::Inside(x) | Pos::Anywhere(x) => anywhere(*x),
            _ => Client::V4(Ipv4Addr::new(127, 0, 0, 1)),
        };
    }
    let p = all[pick_idx(s.rule.wrapping_add(s.subnet), all.len())];
    match p.ip {
        IpAddr::V4(n) => {
            let m: u32 = if p.len == 0 { 0 } else { u32::MAX << (32 - p.len as u32) };
            let net = u32::from(n) & m;
            let a = match &s.pos {
                Pos::First => net,
                Pos::Last => net | !m,
                Pos::Before => net.wrapping_sub(1),
                Pos::After => (net | !m).wrapping_add(1),
                Pos::Inside(x) => net | (*x as u32 & !m),
                Pos::Anywhere(x) => return anywhere(*x),
            };
            if s.mapped {
                Client::V6(Ipv6Addr::from(0xffff_0000_0000u128 | a as u128))
            } else {
                Client::V4(Ipv4Addr::from(a))
            }
        }
        IpAddr::V6(n) => {
            let m: u128 = if p.len == 0 { 0 } else { u128::MAX << (128 - p.len as u32) };
            let net = u128::from(n) & m;
            let a = match &s.pos {
                Pos::First => net,
                Pos::Last => net | !m,
                Pos::Before => net.wrapping_sub(1),
                Pos::After => (net | !m).wrapping_add(1),
                Pos::Inside(x) => net | (*x & !m),
                Pos::Anywhere(x) => return anywhere(*x),
            };
            let v6 = Ipv6Addr::from(a);
            // a mapped address inside a ::ffff:0:0/96+ prefix may also arrive as plain IPv4
            match (v6.to_ipv4_mapped(), s.mapped) {
                (Some(a4), false) => Client::V4(a4),
                _ => Client::V6(v6),
            }
        }
    }
}

pub fn netaddr_of(c: &Client) -> erbium_net::addr::NetAddr {
    match c {
        Client::V4(a) => a.with_port(40000),
        Client::V6(a) => a.with_port(40000),
        Client::Unix => erbium_net::addr::UnixAddr::new("/tmp/vcheck-acl-client").unwrap().to_net_addr(),
    }
}

pub struct C08Func;

impl Prop for C08Func {
    type Case = AclCase;
    fn sub(&self) -> &'static str {
        "decision"
    }
    fn check(&self, c: &AclCase) -> Outcome {
        use erbium::acl::{require_permission, AclError, Attributes, PermissionType};
        let mut out = Outcome::default();
        let text = match render(c) {
            Some(t) => t,
            None => {
                out.excluded.push("yaml-emitter-did-not-round-trip");
                return out;
            }
        };
        let conf = match load(&text) {
            Err(f) => {
                out.fail(format!("load:{}", f.sig), f.detail);
                return out;
            }
            Ok(Err(msg)) => {
                out.fail("C08:valid-acl-config-rejected", msg);
                return out;
            }
            Ok(Ok(c)) => c,
        };
        let rules = effective_rules(c);
        if rules.iter().filter_map(|r| r.subnets.as_ref()).flatten().any(|p| match p.ip {
            IpAddr::V4(a) => p.len < 32 && u32::from(a) << p.len != 0,
            IpAddr::V6(a) => p.len < 128 && u128::from(a) << p.len != 0,
        }) {
            out.class("prefix-with-host-bits");
            out.nontrivial = true;
        }
        for sel in &c.clients {
            let client = resolve_client(c, &rules, sel);
            if matches!(&client, Client::V6(a) if a.to_ipv4_mapped().is_some()) {
                out.class("mapped-client");
                out.nontrivial = true;
            }
            let fm = match first_match(&rules, &client) {
                None => {
                    out.excluded.push("documentation-silent-v4-client-vs-short-v6-prefix");
                    continue;
                }
                Some(x) => x,
            };
            if let Some((i, p)) = &fm {
                // order matters: an earlier matching rule lacks something a later matching rule grants
                let later = rules[i + 1..].iter().any(|r| {
                    let q = perms_of(&r.access);
                    first_match(std::slice::from_ref(r), &client) == Some(Some((0, q))) && (q.dns && !p.dns || q.metrics && !p.metrics || q.leases && !p.leases)
                });
                if later {
                    out.class("order-matters");
                    out.nontrivial = true;
                }
            }
            let addr = netaddr_of(&client);
            let ops = [
                (PermissionType::DnsRecursion, "dns-recursion"),
                (PermissionType::Http, "http"),
                (PermissionType::HttpMetrics, "http-metrics"),
                (PermissionType::HttpLeases, "http-leases"),
            ];
            for (op, name) in ops {
                let got = guard(|| require_permission(&conf.acls, &Attributes { addr }, op));
                let got = match got {
                    Err(f) => {
                        out.fail(format!("decide:{}", f.sig), f.detail);
                        return out;
                    }
                    Ok(g) => g,
                };
                let want: Option<Result<(), bool>> = match &fm {
                    None => Some(Err(false)),
                    Some((_, p)) => {
                        let granted = match name {
                            "dns-recursion" => Some(p.dns),
                            "http" => p.http,
                            "http-metrics" => Some(p.metrics),
                            _ => Some(p.leases),
                        };
                        granted.map(|g| if g { Ok(()) } else { Err(true) })
                    }
                };
                let want = match want {
                    None => {
                        out.excluded.push("http-ro-alias-and-root-page");
                        continue;
                    }
                    Some(w) => w,
                };
                let ok = match (&got, &want) {
                    (Ok(()), Ok(())) => true,
                    (Err(AclError::NotAuthenticated), Err(false)) => true,
                    (Err(AclError::NotAuthorised(_)), Err(true)) => true,
                    _ => false,
                };
                if !ok {
                    let sig = match (&got, &want) {
                        (Ok(()), _) => "C08:granted-but-model-refuses",
                        (Err(_), Ok(())) => "C08:refused-but-model-grants",
                        _ => "C08:wrong-refusal-kind",
                    };
                    out.fail(
                        sig,
                        format!(
                            "client {:?} operation {}: code says {:?}, first-match model says {:?} (rule {:?})",
                            client,
                            name,
                            got.as_ref().map_err(|e| e.to_string()),
                            want,
                            fm.as_ref().map(|x| x.0)
                        ),
                    );
                    return out;
                }
            }
        }
        out
    }
}

pub fn run_c08_func(ctx: &Ctx) {
    run_prop(ctx, &C08Func, acl_case_strategy, ctx.tier.pick(40_000, 1_500_000), workers());
}

pub fn replay(id: &str, sub: &str, case: &serde_json::Value) -> Option<Result<Outcome, String>> {
    match (id, sub) {
        ("C08", "decision") => Some(replay_prop(&C08Func, case)),
        _ => None,
    }
}
