//! Codec properties decided in-process: C12 (DHCP round-trip, frames, broadcast flag),
//! C14 (DNS round-trip + compression), C04 function tier (size-limited serialisation).

use crate::dnsconv::*;
use crate::engine::*;
use crate::ethip;
use crate::rfc1035 as dns;
use crate::rfc2131 as wire;
use erbium::dhcp::dhcppkt;
use proptest::prelude::*;
use serde::{Deserialize, Serialize};
use std::net::Ipv4Addr;

pub fn workers() -> usize {
    if let Some(n) = std::env::var("VCHECK_WORKERS").ok().and_then(|s| s.parse::<usize>().ok()) {
        return n.max(1);
    }
    std::thread::available_parallelism()
        .map(|n| n.get())
        .unwrap_or(4)
        .min(8)
}

// ---------------------------------------------------------------------------------------------
// byte strings as hex in replay files

#[derive(Clone, PartialEq, Eq, Hash)]
pub struct HexBytes(pub Vec<u8>);

impl std::fmt::Debug for HexBytes {
    fn fmt(&self, f: &mut std::fmt::Formatter) -> std::fmt::Result {
        write!(f, "HexBytes({} octets)", self.0.len())
    }
}

pub fn to_hex(b: &[u8]) -> String {
    let mut s = String::with_capacity(b.len() * 2);
    for x in b {
        s.push_str(&format!("{:02x}", x));
    }
    s
}

pub fn from_hex(s: &str) -> Result<Vec<u8>, String> {
    if s.len() % 2 != 0 {
        return Err("odd hex length".into());
    }
    (0..s.len() / 2)
        .map(|i| u8::from_str_radix(&s[2 * i..2 * i + 2], 16).map_err(|e| e.to_string()))
        .collect()
}

impl Serialize for HexBytes {
    fn serialize<S: serde::Serializer>(&self, s: S) -> Result<S::Ok, S::Error> {
        s.serialize_str(&to_hex(&self.0))
    }
}

impl<'de> Deserialize<'de> for HexBytes {
    fn deserialize<D: serde::Deserializer<'de>>(d: D) -> Result<Self, D::Error> {
        let s = String::deserialize(d)?;
        from_hex(&s).map(HexBytes).map_err(serde::de::Error::custom)
    }
}

// ---------------------------------------------------------------------------------------------
// C12 (a) DHCP message round trip

fn fixed_field_strategy(n: usize) -> impl Strategy<Value = Vec<u8>> {
    prop_oneof![
        3 => Just(vec![0u8; n]),
        3 => proptest::collection::vec(b'a'..=b'z', 0..n).prop_map(move |mut v| { v.resize(n, 0); v }),
        2 => proptest::collection::vec(1u8..=255, n..=n),
        2 => proptest::collection::vec(prop_oneof![3 => any::<u8>(), 1 => Just(0u8)], n..=n),
    ]
}

const OPT_LENS: [usize; 12] = [0, 1, 2, 4, 5, 254, 255, 256, 257, 510, 511, 1500];

pub fn dhcp_option_strategy() -> impl Strategy<Value = (u8, Vec<u8>)> {
    (
        prop_oneof![
            4 => 1u8..=254,
            3 => prop_oneof![Just(12u8), Just(50), Just(51), Just(53), Just(54), Just(55), Just(61), Just(121), Just(119), Just(43), Just(82)],
        ],
        prop_oneof![
            3 => any::<u16>().prop_map(|i| OPT_LENS[pick_idx(i, OPT_LENS.len())]),
            5 => 0usize..40,
        ],
    )
        .prop_flat_map(|(c, l)| (Just(c), proptest::collection::vec(any::<u8>(), l..=l)))
}

pub fn dhcp_msg_strategy() -> impl Strategy<Value = wire::Msg> {
    (
        (any::<u8>(), any::<u8>(), 0u8..=16, any::<u8>(), any::<u32>(), any::<u16>(), any::<u16>()),
        any::<[u32; 4]>(),
        proptest::collection::vec(any::<u8>(), 16..=16),
        fixed_field_strategy(64),
        fixed_field_strategy(128),
        prop_oneof![
            8 => proptest::collection::vec(dhcp_option_strategy(), 0..=10),
            // many options at once (a client that asks for everything, a policy that supplies
            // it): 25..100 short ones under distinct codes plus one or two values longer than
            // one instance carries
            3 => (
                proptest::collection::vec((any::<u8>(), proptest::collection::vec(any::<u8>(), 0..6)), 25..=100),
                proptest::collection::vec((1u8..=254, prop_oneof![Just(256usize), Just(300), Just(511), Just(766), Just(1400)], any::<u8>()), 1..=2),
                any::<u16>(),
            )
                .prop_map(|(short, long, at)| {
                    let mut seen = std::collections::HashSet::new();
                    let mut v: Vec<(u8, Vec<u8>)> = short.into_iter().map(|(c, val)| (c.clamp(1, 254), val)).filter(|(c, _)| seen.insert(*c)).collect();
                    for (c, l, fill) in long {
                        if seen.insert(c) {
                            // a value whose 255-octet pieces all differ
                            let val: Vec<u8> = (0..l).map(|i| fill.wrapping_add((i / 255) as u8 * 17).wrapping_add(i as u8)).collect();
                            let i = pick_idx(at, v.len() + 1);
                            v.insert(i, (c, val));
                        }
                    }
                    v
                }),
        ],
        proptest::collection::vec(any::<u16>(), 0..3),
    )
        .prop_map(|(h, a, chaddr, sname, file, mut options, dups)| {
            // repeated codes: duplicate some options' codes onto others
            for d in dups {
                if options.len() >= 2 {
                    let i = pick_idx(d, options.len());
                    let j = (i + 1) % options.len();
                    if d % 3 == 0 && options[i].1.len() < 255 {
                        // the same code with the same contents once more (a sender may split a
                        // value anywhere, and halves may be equal)
                        options[j] = options[i].clone();
                    } else if d % 3 == 1 && options[i].1.len() < 120 {
                        // ... and an instance that equals everything sent for the code before it
                        let mut both = options[i].1.clone();
                        both.extend_from_slice(&options[i].1);
                        options[j] = options[i].clone();
                        let k = (j + 1) % options.len();
                        if k != i {
                            options[k] = (options[i].0, both);
                        }
                    } else {
                        options[j].0 = options[i].0;
                    }
                }
            }
            wire::Msg {
                op: h.0,
                htype: h.1,
                hlen: h.2,
                hops: h.3,
                xid: h.4,
                secs: h.5,
                flags: h.6,
                ciaddr: Ipv4Addr::from(a[0]),
                yiaddr: Ipv4Addr::from(a[1]),
                siaddr: Ipv4Addr::from(a[2]),
                giaddr: Ipv4Addr::from(a[3]),
                chaddr,
                sname,
                file,
                options,
            }
        })
}

fn nul_prefix(v: &[u8]) -> &[u8] {
    match v.iter().position(|b| *b == 0) {
        Some(i) => &v[..i],
        None => v,
    }
}

pub struct C12Msg;

impl Prop for C12Msg {
    type Case = wire::Msg;
    fn sub(&self) -> &'static str {
        "message"
    }
    fn check(&self, m: &wire::Msg) -> Outcome {
        let mut out = Outcome::default();
        let map = m.option_map();
        let long = map.values().any(|v| v.len() > 255);
        let repeated = {
            let mut codes: Vec<u8> = m.options.iter().map(|o| o.0).collect();
            let n = codes.len();
            codes.sort();
            codes.dedup();
            codes.len() != n
        };
        let zero = m.options.iter().any(|o| o.1.is_empty());
        if long {
            out.class("value-over-255");
        }
        if repeated {
            out.class("repeated-code");
        }
        if zero {
            out.class("zero-length-value");
        }
        if m.hlen != 6 {
            out.class("hlen-not-6");
        }
        out.nontrivial = long || repeated || zero;
        let bytes = m.encode();
        let p = match dhcppkt::parse(&bytes) {
            Ok(p) => p,
            Err(e) => {
                out.fail(
                    "C12:valid-message-rejected",
                    format!("a well-formed message was rejected: {:?}", e),
                );
                return out;
            }
        };
        let wire_out = p.serialise();
        match dhcppkt::parse(&wire_out) {
            Err(e) => {
                out.fail(
                    "C12:reencoded-message-rejected",
                    format!("decode(encode(m)) failed: {:?}", e),
                );
                return out;
            }
            Ok(p2) => {
                if p2 != p {
                    out.fail(
                        "C12:roundtrip-differs",
                        format!(
                            "decode(encode(m)) != m; options before {:?} after {:?}",
                            crate::hist::options_of(&p.options)
                                .iter()
                                .map(|(k, v)| (*k, v.len()))
                                .collect::<Vec<_>>(),
                            crate::hist::options_of(&p2.options)
                                .iter()
                                .map(|(k, v)| (*k, v.len()))
                                .collect::<Vec<_>>()
                        ),
                    );
                    return out;
                }
            }
        }
        // what a conforming (RFC 2131/3396) reader sees
        match wire::Msg::decode(&wire_out) {
            Err(e) => out.fail(
                "C12:independent-decoder-rejects",
                format!("RFC decoder rejects the re-encoded message: {}", e),
            ),
            Ok(d) => {
                let hl = m.hlen as usize;
                let same_hdr = d.op == m.op
                    && d.htype == m.htype
                    && d.hlen == m.hlen
                    && d.hops == m.hops
                    && d.xid == m.xid
                    && d.secs == m.secs
                    && d.flags == m.flags
                    && d.ciaddr == m.ciaddr
                    && d.yiaddr == m.yiaddr
                    && d.siaddr == m.siaddr
                    && d.giaddr == m.giaddr;
                if !same_hdr {
                    out.fail("C12:header-differs", format!("{:?} vs {:?}", d, m));
                } else if d.chaddr[..hl] != m.chaddr[..hl] {
                    out.fail("C12:chaddr-differs", "");
                } else if nul_prefix(&d.sname) != nul_prefix(&m.sname)
                    || nul_prefix(&d.file) != nul_prefix(&m.file)
                {
                    out.fail("C12:sname-file-differs", "");
                } else if d.option_map() != map {
                    let dm = d.option_map();
                    out.fail(
                        "C12:options-differ",
                        format!(
                            "sent {:?}, conforming reader sees {:?}",
                            map.iter().map(|(k, v)| (*k, v.len())).collect::<Vec<_>>(),
                            dm.iter().map(|(k, v)| (*k, v.len())).collect::<Vec<_>>()
                        ),
                    );
                }
            }
        }
        out
    }
}

// ---------------------------------------------------------------------------------------------
// C12 (b) frames

#[derive(Clone, Debug, Serialize, Deserialize)]
pub struct FrameCase {
    pub src: u32,
    pub sport: u16,
    pub dst: u32,
    pub dport: u16,
    pub srcmac: [u8; 6],
    pub dstmac: [u8; 6],
    pub payload: HexBytes,
}

pub fn frame_strategy() -> impl Strategy<Value = FrameCase> {
    (
        any::<u32>(),
        any::<u16>(),
        prop_oneof![1 => Just(0xffff_ffffu32), 4 => any::<u32>()],
        any::<u16>(),
        any::<[u8; 6]>(),
        any::<[u8; 6]>(),
        prop_oneof![
            1 => Just(0usize),
            1 => Just(1usize),
            1 => Just(1472usize),
            1 => Just(1471usize),
            8 => 0usize..=1472,
        ]
        .prop_flat_map(|l| prop_oneof![
            3 => proptest::collection::vec(any::<u8>(), l..=l),
            1 => Just(vec![0xffu8; l]),
            1 => Just(vec![0u8; l]),
        ]),
    )
        .prop_map(|(src, sport, dst, dport, srcmac, dstmac, payload)| FrameCase {
            src,
            sport,
            dst,
            dport,
            srcmac,
            dstmac,
            payload: HexBytes(payload),
        })
}

pub struct C12Frame;

impl Prop for C12Frame {
    type Case = FrameCase;
    fn sub(&self) -> &'static str {
        "frame"
    }
    fn check(&self, c: &FrameCase) -> Outcome {
        use erbium_net::addr::Inet4Addr;
        use erbium_net::packet::{Fragment, Tail};
        let mut out = Outcome::default();
        out.nontrivial = c.payload.0.len() % 2 == 1;
        if out.nontrivial {
            out.class("odd-payload");
        }
        let src = Inet4Addr::from(std::net::SocketAddrV4::new(Ipv4Addr::from(c.src), c.sport));
        let dst = Inet4Addr::from(std::net::SocketAddrV4::new(Ipv4Addr::from(c.dst), c.dport));
        let frame =
            Fragment::new_udp4(src, &c.srcmac, dst, &c.dstmac, Tail::Payload(&c.payload.0)).flatten();
        match ethip::decode_udp4(&frame) {
            Err((tag, d)) => out.fail(format!("C12:frame:{}", tag), d),
            Ok(f) => {
                if f.udp_zero_corner {
                    out.class("udp-checksum-zero-corner");
                }
                if f.eth_dst != c.dstmac || f.eth_src != c.srcmac {
                    out.fail("C12:frame:mac", format!("{:02x?} {:02x?}", f.eth_dst, f.eth_src));
                } else if f.ip_src != Ipv4Addr::from(c.src) || f.ip_dst != Ipv4Addr::from(c.dst) {
                    out.fail("C12:frame:ip-address", format!("{} -> {}", f.ip_src, f.ip_dst));
                } else if f.sport != c.sport || f.dport != c.dport {
                    out.fail("C12:frame:port", format!("{} -> {}", f.sport, f.dport));
                } else if f.payload != c.payload.0 {
                    out.fail("C12:frame:payload-modified", "");
                }
            }
        }
        out
    }
}

// ---------------------------------------------------------------------------------------------
// C12 (c) broadcast flag, all 65536 values

pub struct C12Flag;

impl Prop for C12Flag {
    type Case = u16;
    fn sub(&self) -> &'static str {
        "broadcast-flag"
    }
    fn check(&self, f: &u16) -> Outcome {
        let mut out = Outcome::default();
        out.nontrivial = true;
        let m = wire::Msg {
            flags: *f,
            ..Default::default()
        }
        .with_opt(wire::OPT_MSG_TYPE, &[wire::DISCOVER]);
        let p = dhcppkt::parse(&m.encode()).expect("harness-built request must parse");
        let want = f & 0x8000 != 0;
        if p.get_broadcast_flag() != want {
            out.fail(
                if want {
                    "C12:broadcast-bit-ignored"
                } else {
                    "C12:broadcast-on-wrong-bit"
                },
                format!(
                    "flags {:#06x}: broadcast() = {}, RFC 2131 bit 15 says {}",
                    f,
                    p.get_broadcast_flag(),
                    want
                ),
            );
        }
        out
    }
}

pub fn run_c12_func(ctx: &Ctx) {
    let n = ctx.tier.pick(100_000u64, 2_000_000u64);
    run_prop(ctx, &C12Msg, || dhcp_msg_strategy(), n, workers());
    run_prop(ctx, &C12Frame, || frame_strategy(), n, workers());
    run_indexed(ctx, &C12Flag, 65536, workers(), |i| Some(i as u16));
    ctx.extra(
        "exhaustive_subclaims",
        serde_json::json!(["broadcast-flag: all 65536 values of the flags field"]),
    );
}

// ---------------------------------------------------------------------------------------------
// C14 structured

fn cmp_header(model: &dns::Header, got: &dns::Header) -> Option<String> {
    let pairs = [
        ("id", model.id as u32, got.id as u32),
        ("qr", model.qr as u32, got.qr as u32),
        ("opcode", model.opcode as u32, got.opcode as u32),
        ("aa", model.aa as u32, got.aa as u32),
        ("tc", model.tc as u32, got.tc as u32),
        ("rd", model.rd as u32, got.rd as u32),
        ("ra", model.ra as u32, got.ra as u32),
        ("ad", model.ad as u32, got.ad as u32),
        ("cd", model.cd as u32, got.cd as u32),
        ("rcode", model.rcode as u32, got.rcode as u32),
    ];
    for (n, a, b) in pairs {
        if a != b {
            return Some(format!("{} (message says {}, RFC position reads {})", n, a, b));
        }
    }
    None
}

fn first_rr_diff(a: &[dns::Rr], b: &[dns::Rr]) -> Option<String> {
    if a.len() != b.len() {
        return Some(format!("{} records vs {}", a.len(), b.len()));
    }
    for (i, (x, y)) in a.iter().zip(b.iter()).enumerate() {
        if x != y {
            let sx = format!("{:?}", x);
            let sy = format!("{:?}", y);
            return Some(format!(
                "record {}: {} vs {}",
                i,
                &sx[..sx.len().min(300)],
                &sy[..sy.len().min(300)]
            ));
        }
    }
    None
}

fn audit_pointers(a: &dns::Audit, len: usize) -> Option<String> {
    for (p, t) in &a.pointers {
        if *t >= 0x4000 {
            return Some(format!("pointer at {} targets {} >= 0x4000", p, t));
        }
        if t >= p {
            return Some(format!("pointer at {} targets {} (not backwards)", p, t));
        }
        if *t < 12 {
            return Some(format!("pointer at {} targets the header ({})", p, t));
        }
    }
    if a.consumed != len {
        return Some(format!(
            "{} octets of trailing data after the last record",
            len - a.consumed
        ));
    }
    None
}

/// Compare a decoded message with the model (EDNS folded as RFC 6891 says).
fn cmp_with_model(model: &dns::Message, got: &dns::Message) -> Option<(String, String)> {
    if let Some(d) = cmp_header(&model.header, &got.header) {
        return Some((format!("C14:header-bit:{}", d.split(' ').next().unwrap()), d));
    }
    if got.questions != model.questions {
        return Some(("C14:question".into(), format!("{:?} vs {:?}", got.questions, model.questions)));
    }
    if let Some(d) = first_rr_diff(&model.answer, &got.answer) {
        return Some(("C14:answer-section".into(), d));
    }
    if let Some(d) = first_rr_diff(&model.authority, &got.authority) {
        return Some(("C14:authority-section".into(), d));
    }
    if let Some(d) = first_rr_diff(&model.additional_no_opt(), &got.additional_no_opt()) {
        return Some(("C14:additional-section".into(), d));
    }
    let me = model.edns().map(|x| x.unwrap());
    let ge = match got.edns() {
        None => None,
        Some(Ok(e)) => Some(e),
        Some(Err(e)) => return Some(("C14:edns-malformed".into(), e)),
    };
    match (me, ge) {
        (None, None) => None,
        (Some(a), Some(b)) => {
            let mut a = a;
            a.udp_size = a.udp_size.max(512);
            if a != b {
                Some(("C14:edns".into(), format!("{:?} vs {:?}", a, b)))
            } else if got.opt_count() != 1 {
                Some(("C14:edns".into(), format!("{} OPT records", got.opt_count())))
            } else {
                None
            }
        }
        (a, b) => Some(("C14:edns".into(), format!("{:?} vs {:?}", a.is_some(), b.is_some()))),
    }
}

pub struct C14Structured;

impl Prop for C14Structured {
    type Case = dns::Message;
    fn sub(&self) -> &'static str {
        "structured"
    }
    fn check(&self, m: &dns::Message) -> Outcome {
        let mut out = Outcome::default();
        // domain: encodings up to 65535 octets.  Judge with the harness's own encoder so that the
        // decision does not depend on the code under test.
        let own = dns::encode(m, dns::Compress::All);
        if own.len() > 65535 {
            out.excluded.push("encoding-over-65535");
            return out;
        }
        let pkt = to_pkt(m);
        let bytes = match guard(|| pkt.serialise()) {
            Ok(b) => b,
            Err(f) => {
                out.nontrivial = own.len() > 16384;
                out.fail(f.sig, format!("encode: {} (message of ~{} octets)", f.detail, own.len()));
                return out;
            }
        };
        if bytes.len() > 65535 {
            out.excluded.push("encoding-over-65535");
            return out;
        }
        if bytes.len() > 16384 {
            out.class("over-16k");
        }
        match erbium::dns::verif_parse(&bytes) {
            Err(e) => {
                out.nontrivial = true;
                out.fail("C14:own-encoding-rejected", e);
                return out;
            }
            Ok(p2) => {
                if p2 != pkt {
                    out.nontrivial = true;
                    out.fail(
                        "C14:roundtrip-differs",
                        "decode(encode(m)) != m with the crate's own decoder",
                    );
                    return out;
                }
            }
        }
        match dns::decode(&bytes) {
            Err(e) => {
                out.nontrivial = true;
                out.fail("C14:independent-decoder-rejects", e);
            }
            Ok((got, audit)) => {
                if audit.rdata_pointers > 0 {
                    out.class("pointer-inside-rdata");
                }
                if !audit.pointers.is_empty() {
                    out.class("compressed");
                }
                if audit.max_hops > 10 {
                    out.class("pointer-chain-over-10-hops");
                } else if audit.max_hops > 2 {
                    out.class("pointer-chain-3-to-10-hops");
                }
                let has_opts = m
                    .edns()
                    .map(|e| !e.unwrap().options.is_empty())
                    .unwrap_or(false);
                out.nontrivial = audit.rdata_pointers > 0 || bytes.len() > 16384 || has_opts;
                if let Some(d) = audit_pointers(&audit, bytes.len()) {
                    out.fail("C14:pointer-audit", d);
                } else if let Some((sig, d)) = cmp_with_model(m, &got) {
                    out.fail(sig, d);
                }
            }
        }
        out
    }
}

// ---------------------------------------------------------------------------------------------
// C14 bytes: any accepted byte string

pub struct C14Bytes;

fn single_v0_opt(m: &dns::Message) -> bool {
    match m.opt_count() {
        0 => true,
        1 => matches!(m.edns(), Some(Ok(e)) if e.version == 0),
        _ => false,
    }
}

impl Prop for C14Bytes {
    type Case = HexBytes;
    fn sub(&self) -> &'static str {
        "bytes"
    }
    fn check(&self, b: &HexBytes) -> Outcome {
        let mut out = Outcome::default();
        let b = &b.0;
        let m = match guard(|| erbium::dns::verif_parse(b)) {
            Err(_) => {
                // a decoder panic is C05's business
                out.excluded.push("decoder-panicked");
                return out;
            }
            Ok(Err(_)) => return out,
            Ok(Ok(m)) => m,
        };
        out.class("accepted");
        if let Ok((a, _)) = dns::decode(b) {
            if a.opt_count() >= 2 {
                out.class("accepted-with-several-opt-records");
                out.nontrivial = true;
            }
        }
        let bytes2 = match guard(|| m.serialise()) {
            Ok(x) => x,
            Err(f) => {
                out.nontrivial = true;
                out.fail(f.sig, format!("re-encoding an accepted message: {}", f.detail));
                return out;
            }
        };
        if bytes2.len() > 65535 {
            out.excluded.push("encoding-over-65535");
            return out;
        }
        match erbium::dns::verif_parse(&bytes2) {
            Err(e) => {
                out.nontrivial = true;
                out.fail("C14:own-encoding-rejected", e);
                return out;
            }
            Ok(m2) => {
                if m2 != m {
                    out.nontrivial = true;
                    out.fail(
                        "C14:roundtrip-differs",
                        "decode(encode(decode(b))) != decode(b)",
                    );
                    return out;
                }
            }
        }
        // independent view, where both decoders agree on what the input is
        match (dns::decode(b), dns::decode(&bytes2)) {
            (Ok((a, _)), Ok((c, audit))) => {
                if a.questions.len() != 1 || !single_v0_opt(&a) {
                    out.excluded.push("outside-erbium-model");
                    return out;
                }
                out.class("independently-decodable");
                out.nontrivial = !audit.pointers.is_empty() || a.opt_count() == 1 || a.records().count() >= 2;
                let mut model = a.clone();
                // the OPT is folded into the message and re-emitted last
                if let Some(Ok(e)) = a.edns() {
                    model.additional = a.additional_no_opt();
                    model.additional.push(dns::opt_rr(&dns::Edns { ..e }));
                }
                if let Some(d) = audit_pointers(&audit, bytes2.len()) {
                    out.fail("C14:pointer-audit", d);
                } else if let Some((sig, d)) = cmp_with_model(&model, &c) {
                    out.fail(sig, d);
                }
            }
            (Ok(_), Err(e)) => {
                out.nontrivial = true;
                out.fail("C14:independent-decoder-rejects", e);
            }
            (Err(_), _) => {
                out.excluded.push("input-not-strictly-wellformed");
            }
        }
        out
    }
}

/// Byte inputs: harness-encoded structured messages (all three compression modes), untouched or
/// with a few byte edits.
pub fn dns_bytes_strategy(sz: MsgSize) -> impl Strategy<Value = HexBytes> {
    (
        message_strategy(sz),
        prop_oneof![Just(dns::Compress::Off), Just(dns::Compress::Owners), Just(dns::Compress::All)],
        proptest::collection::vec((any::<u16>(), any::<u8>(), 0u8..4), 0..3),
        // further OPT pseudo-records anywhere in the message (a well-behaved sender writes at
        // most one, last; the decoder accepts more, in any section, of any version)
        proptest::collection::vec((crate::dnsconv::edns_strategy(), any::<u16>(), 0u8..6, 0u8..3), 0..3),
        // records that name a type but carry no data (RDLENGTH 0, as in RFC 2136 prerequisites),
        // of every type the decoder parses names in
        proptest::collection::vec((any::<u16>(), 0u8..3, any::<u16>()), 0..2),
    )
        .prop_map(|(mut m, c, edits, extra_opts, empty_rdata)| {
            const NAME_BEARING: [u16; 12] = [6, 2, 5, 12, 15, 33, 17, 18, 21, 35, 39, 1];
            for (pos, sec, ty) in empty_rdata {
                let v = match sec {
                    0 => &mut m.answer,
                    1 => &mut m.authority,
                    _ => &mut m.additional,
                };
                if v.is_empty() {
                    continue;
                }
                let i = pick_idx(pos, v.len());
                if v[i].rtype == dns::T_OPT {
                    continue;
                }
                v[i].rtype = NAME_BEARING[pick_idx(ty, NAME_BEARING.len())];
                v[i].rdata = dns::RData::Raw(vec![]);
            }
            for (e, pos, sec, version) in extra_opts {
                let Some(mut e) = e else { continue };
                e.version = if version == 2 { 1 } else { 0 };
                let rr = dns::opt_rr(&e);
                let v = match sec {
                    0..=3 => &mut m.additional,
                    4 => &mut m.authority,
                    _ => &mut m.answer,
                };
                let i = pick_idx(pos, v.len() + 1);
                v.insert(i, rr);
            }
            let mut b = dns::encode(&m, c);
            // one input in eight ends in a record whose owner name is assembled through a chain
            // of pointers, each hop adding a long label: the name passes 255 octets after five
            // hops (legal messages stop before that; the decoder has to)
            if let Some((pos0, val0, kind0)) = edits.first() {
                if (*pos0 ^ *val0 as u16 ^ *kind0 as u16) % 8 == 0 && b.len() + 700 < 16000 {
                    let hops = 2 + (*val0 as usize % 9);
                    let mut prev: Option<usize> = None;
                    let mut start_of_last = 0usize;
                    for h in 0..hops {
                        // label of 50 octets, then a pointer to the previous link (or the root)
                        start_of_last = b.len();
                        b.push(50);
                        b.extend(std::iter::repeat(b'a' + h as u8).take(50));
                        match prev {
                            Some(p) => b.extend_from_slice(&[0xc0 | (p >> 8) as u8, p as u8]),
                            None => b.push(0),
                        }
                        prev = Some(start_of_last);
                        // make every link the owner name of a well-formed A record
                        b.extend_from_slice(&[0, 1, 0, 1, 0, 0, 0, 60, 0, 4, 192, 0, 2, h as u8]);
                    }
                    let _ = start_of_last;
                    let ar = (((b[10] as u16) << 8) | b[11] as u16).wrapping_add(hops as u16);
                    b[10] = (ar >> 8) as u8;
                    b[11] = ar as u8;
                    return HexBytes(b);
                }
            }
            for (pos, val, kind) in edits {
                if b.is_empty() {
                    break;
                }
                let i = pick_idx(pos, b.len());
                match kind {
                    0 => b[i] = val,
                    1 => b[i] ^= 1 << (val % 8),
                    2 => b.truncate(i.max(12)),
                    _ => b[i] = b[i].wrapping_add(1),
                }
            }
            b.truncate(65535);
            HexBytes(b)
        })
}

// ---------------------------------------------------------------------------------------------
// C04 function tier

#[derive(Clone, Debug, Serialize, Deserialize)]
pub struct TruncCase {
    pub msg: dns::Message,
    /// 0: at a record boundary (idx, delta); 1: absolute
    pub mode: u8,
    pub idx: u16,
    pub delta: i8,
    pub abs: u16,
}

pub fn trunc_strategy(sz: MsgSize) -> impl Strategy<Value = TruncCase> {
    (
        message_strategy(sz),
        prop_oneof![3 => Just(0u8), 1 => Just(1u8)],
        any::<u16>(),
        -2i8..=2,
        prop_oneof![Just(512u16), Just(513), Just(1232), Just(4096), Just(65535), 512u16..=65535],
    )
        .prop_map(|(msg, mode, idx, delta, abs)| TruncCase {
            msg,
            mode,
            idx,
            delta,
            abs,
        })
}

pub struct C04Trunc;

impl Prop for C04Trunc {
    type Case = TruncCase;
    fn sub(&self) -> &'static str {
        "truncate"
    }
    fn check(&self, c: &TruncCase) -> Outcome {
        let mut out = Outcome::default();
        let own = dns::encode(&c.msg, dns::Compress::All);
        if own.len() > 65535 {
            out.excluded.push("encoding-over-65535");
            return out;
        }
        let pkt = to_pkt(&c.msg);
        let full = pkt.serialise();
        if full.len() > 65535 {
            out.excluded.push("encoding-over-65535");
            return out;
        }
        let (fullm, faudit) = match dns::decode(&full) {
            Ok(x) => x,
            Err(e) => {
                out.fail("C04:full-encoding-malformed", e);
                return out;
            }
        };
        let limit = if c.mode == 0 {
            let e = &faudit.record_ends;
            let at = e[pick_idx(c.idx, e.len())] as i64 + c.delta as i64;
            at.clamp(512, 65535) as usize
        } else {
            c.abs as usize
        };
        let outb = pkt.serialise_with_size(limit);
        let truncated_path = full.len() > limit;
        out.nontrivial = full.len() + 32 > limit;
        if truncated_path {
            out.class("does-not-fit");
        }
        if outb.len() > limit {
            out.fail(
                "C04:over-limit",
                format!("limit {} but {} octets emitted", limit, outb.len()),
            );
            return out;
        }
        if !truncated_path {
            if outb != full {
                out.fail(
                    "C04:fits-but-differs",
                    format!("full answer ({} octets) fits {} but the output differs", full.len(), limit),
                );
            }
            return out;
        }
        let (got, audit) = match dns::decode(&outb) {
            Ok(x) => x,
            Err(e) => {
                out.fail(
                    "C04:truncated-malformed",
                    format!("limit {}, full {} octets: {}", limit, full.len(), e),
                );
                return out;
            }
        };
        if audit.consumed != outb.len() {
            out.fail("C04:truncated-trailing-garbage", "");
            return out;
        }
        if !got.header.tc {
            out.fail("C04:truncated-without-tc", "records were dropped but TC is clear");
            return out;
        }
        if got.questions != fullm.questions {
            out.fail("C04:truncated-question-changed", "");
            return out;
        }
        let all_full: Vec<&dns::Rr> = fullm.records().collect();
        let all_got: Vec<&dns::Rr> = got.records().collect();
        if all_got.len() >= all_full.len() {
            out.fail(
                "C04:truncated-not-shorter",
                format!("{} records of {}", all_got.len(), all_full.len()),
            );
            return out;
        }
        for (i, r) in all_got.iter().enumerate() {
            if *r != all_full[i] {
                out.fail(
                    "C04:truncated-not-a-prefix",
                    format!("record {} differs from the full answer", i),
                );
                return out;
            }
        }
        // sections: a prefix of the concatenation means answer then authority then additional
        let na = got.answer.len();
        let nn = got.authority.len();
        if (na < fullm.answer.len() && (nn > 0 || !got.additional.is_empty()))
            || (nn < fullm.authority.len() && !got.additional.is_empty())
            || na > fullm.answer.len()
            || nn > fullm.authority.len()
        {
            out.fail("C04:truncated-sections-shifted", "");
        }
        out
    }
}

/// A record of opaque data sized so that the name after it is first written at offset `at`
/// (its labels at `at`, `at`+5, `at`+10), for every `at` that puts one of them on 0x3ffd..=0x4003;
/// then records that use the whole name, a longer name ending in it, and each of its suffixes,
/// as owner and inside record data: the last offset a pointer can name is 0x3fff.
pub fn pointer_limit_sweep() -> Vec<dns::Message> {
    let label = |s: &str| s.as_bytes().to_vec();
    let q: dns::Name = vec![label("q"), label("test")];
    let mut v = vec![];
    for at in (0x4000usize - 24)..=(0x4000 + 3) {
        for shape in 0..2 {
            let fresh: dns::Name = vec![label("host"), label("zone"), label("example")];
            // header 12, question 8 + 4, first record: pointer 2 + 10 + pad
            let pad = at - 36;
            let rr = |name: dns::Name, rtype: u16, rdata: dns::RData| dns::Rr { name, rtype, class: 1, ttl: 60, rdata };
            let mut m = dns::Message {
                header: dns::Header { id: 0x1414, qr: true, rd: true, ra: true, ..Default::default() },
                questions: vec![dns::Question { name: q.clone(), qtype: 65280, qclass: 1 }],
                ..Default::default()
            };
            m.answer.push(rr(q.clone(), 65280, dns::RData::Raw(vec![0x5a; pad])));
            if shape == 0 {
                m.answer.push(rr(fresh.clone(), dns::T_A, dns::RData::Raw(vec![192, 0, 2, 1])));
            } else {
                // first written inside record data
                m.answer.push(rr(q.clone(), dns::T_NS, dns::RData::Name(fresh.clone())));
            }
            m.answer.push(rr(fresh.clone(), dns::T_A, dns::RData::Raw(vec![192, 0, 2, 2])));
            m.answer.push(rr([vec![label("www")], fresh.clone()].concat(), dns::T_A, dns::RData::Raw(vec![192, 0, 2, 3])));
            m.authority.push(rr(fresh[1..].to_vec(), dns::T_NS, dns::RData::Name([vec![label("ns")], fresh[1..].to_vec()].concat())));
            m.authority.push(rr(fresh[2..].to_vec(), dns::T_MX, dns::RData::PrefName(10, [vec![label("mail")], fresh.clone()].concat())));
            m.additional.push(rr([vec![label("other")], fresh[2..].to_vec()].concat(), dns::T_CNAME, dns::RData::Name(fresh.clone())));
            v.push(m);
        }
    }
    v
}

/// Names of 120..127 labels (127 one-octet labels are the 255 octets a name may have) of which
/// every suffix occurs earlier as a name of its own, each written after the next shorter one, so
/// that a compressing encoder writes every name as one label and a pointer: chains of up to 126
/// pointers.  Then the longest name once more as an owner (a bare pointer: one more hop) and as
/// a CNAME target inside record data.
pub fn pointer_chain_sweep() -> Vec<dns::Message> {
    let mut v = vec![];
    for labels in 120usize..=127 {
        for tail in 0..2 {
            let mut names: Vec<dns::Name> = vec![];
            let mut cur: dns::Name = vec![];
            for k in 0..labels {
                cur.insert(0, vec![b'a' + (k % 26) as u8]);
                names.push(cur.clone());
            }
            let rr = |name: dns::Name, rtype: u16, rdata: dns::RData| dns::Rr { name, rtype, class: 1, ttl: 30, rdata };
            let mut m = dns::Message {
                header: dns::Header { id: 0x7f7f, qr: true, rd: true, ra: true, ..Default::default() },
                questions: vec![dns::Question { name: names[0].clone(), qtype: 1, qclass: 1 }],
                ..Default::default()
            };
            for n in &names {
                m.answer.push(rr(n.clone(), dns::T_A, dns::RData::Raw(vec![192, 0, 2, 1])));
            }
            let longest = names[labels - 1].clone();
            if tail == 0 {
                m.authority.push(rr(longest.clone(), dns::T_TXT, dns::RData::Raw(vec![1, b'x'])));
                m.additional.push(rr(names[0].clone(), dns::T_CNAME, dns::RData::Name(longest)));
            } else {
                m.additional.push(rr(names[1].clone(), dns::T_NS, dns::RData::Name(longest.clone())));
                m.additional.push(rr(longest, dns::T_A, dns::RData::Raw(vec![192, 0, 2, 2])));
            }
            v.push(m);
        }
    }
    v
}

/// Many records with deep owner names that share their suffix (reverse-zone shapes): the labels
/// of all names of one message add up to far more than the message has octets (compression), up
/// to 2000 records x 34 labels and 1200 x 61.
pub fn many_labels_sweep() -> Vec<dns::Message> {
    let mut v = vec![];
    for (records, depth) in [(1200usize, 61usize), (2000, 34), (1000, 61), (1999, 33)] {
        let base: dns::Name = (0..depth - 1).map(|k| vec![b'0' + (k % 10) as u8]).collect();
        let mut m = dns::Message {
            header: dns::Header { id: 0x6565, qr: true, rd: true, ra: true, ..Default::default() },
            questions: vec![dns::Question { name: base.clone(), qtype: 12, qclass: 1 }],
            ..Default::default()
        };
        for r in 0..records {
            let mut name = vec![format!("h{}", r).into_bytes()];
            name.extend(base.iter().cloned());
            let rr = dns::Rr { name, rtype: dns::T_A, class: 1, ttl: 60, rdata: dns::RData::Raw(vec![10, 0, (r >> 8) as u8, r as u8]) };
            match r % 3 {
                0 => m.answer.push(rr),
                1 => m.authority.push(rr),
                _ => m.additional.push(rr),
            }
        }
        v.push(m);
    }
    v
}

pub fn run_c14_func(ctx: &Ctx) {
    // the committed inputs first (every past failure of this property and of C05 on the DNS
    // decoder, minimised or as found by libFuzzer)
    if let Ok(dir) = std::fs::read_dir(format!("{}/corpus/dns", VERIF_DIR)) {
        let mut files: Vec<_> = dir.flatten().map(|e| e.path()).collect();
        files.sort();
        let cases: Vec<HexBytes> = files.iter().filter_map(|p| std::fs::read(p).ok()).map(HexBytes).collect();
        ctx.count_class("bytes:committed-corpus-inputs", cases.len() as u64);
        run_list(ctx, &C14Bytes, cases);
    }
    let small = MsgSize {
        min_records: 0,
        max_records: 40,
        max_raw: 600,
    };
    // many small records: 16 KiB .. 64 KiB encodings, compression targets on both sides of 0x4000
    let big = MsgSize {
        min_records: 400,
        max_records: 2000,
        max_raw: 120,
    };
    // few records with large opaque rdata
    let fat = MsgSize {
        min_records: 0,
        max_records: 30,
        max_raw: 65535,
    };
    // names first written at every offset around 0x4000 and used again afterwards
    run_list(ctx, &C14Structured, pointer_limit_sweep());
    if !ctx.violations.lock().unwrap().is_empty() {
        return;
    }
    // the longest pointer chains an encoder can write, and the most labels a message can name
    run_list(ctx, &C14Structured, pointer_chain_sweep().into_iter().chain(many_labels_sweep()));
    if !ctx.violations.lock().unwrap().is_empty() {
        return;
    }
    let n = ctx.tier.pick(24_000u64, 400_000u64);
    run_prop(ctx, &C14Structured, || message_strategy(small), n, workers());
    run_prop(ctx, &C14Structured, || message_strategy(big), ctx.tier.pick(3_000, 60_000), workers());
    run_prop(ctx, &C14Structured, || message_strategy(fat), ctx.tier.pick(3_000, 60_000), workers());
    run_prop(ctx, &C14Bytes, || dns_bytes_strategy(small), n * 2, workers());
    run_prop(ctx, &C14Bytes, || dns_bytes_strategy(big), ctx.tier.pick(1_500, 30_000), workers());
}

pub fn run_c04_func(ctx: &Ctx) {
    let small = MsgSize {
        min_records: 0,
        max_records: 60,
        max_raw: 300,
    };
    let big = MsgSize {
        min_records: 200,
        max_records: 1500,
        max_raw: 200,
    };
    let fat = MsgSize {
        min_records: 0,
        max_records: 40,
        max_raw: 20000,
    };
    // responses of a little over 16 KiB in which a name is first written at every offset around
    // 0x4000 and used again: complete under the TCP limit, cut under smaller ones
    run_list(
        ctx,
        &C04Trunc,
        pointer_limit_sweep().into_iter().flat_map(|msg| {
            [65535u16, 16500, 16384].into_iter().map(move |abs| TruncCase { msg: msg.clone(), mode: 1, idx: 0, delta: 0, abs })
        }),
    );
    if !ctx.violations.lock().unwrap().is_empty() {
        return;
    }
    run_prop(ctx, &C04Trunc, || trunc_strategy(small), ctx.tier.pick(60_000, 1_000_000), workers());
    run_prop(ctx, &C04Trunc, || trunc_strategy(big), ctx.tier.pick(3_000, 60_000), workers());
    run_prop(ctx, &C04Trunc, || trunc_strategy(fat), ctx.tier.pick(6_000, 100_000), workers());
}

pub fn replay(id: &str, sub: &str, case: &serde_json::Value) -> Option<Result<Outcome, String>> {
    match (id, sub) {
        ("C12", "message") => Some(replay_prop(&C12Msg, case)),
        ("C12", "frame") => Some(replay_prop(&C12Frame, case)),
        ("C12", "broadcast-flag") => Some(replay_prop(&C12Flag, case)),
        ("C14", "structured") => Some(replay_prop(&C14Structured, case)),
        ("C14", "bytes") => Some(replay_prop(&C14Bytes, case)),
        ("C04", "truncate") => Some(replay_prop(&C04Trunc, case)),
        _ => None,
    }
}


/// Development aid: shrink a byte input on which C14Bytes fails, keeping the same signature
/// (greedy chunk removal, then byte simplification).
pub fn minimise_c14(input: &[u8]) -> Vec<u8> {
    let sig_of = |b: &[u8]| C14Bytes.check(&HexBytes(b.to_vec())).fail.map(|f| f.sig);
    let want = match sig_of(input) {
        Some(s) => s,
        None => return input.to_vec(),
    };
    let mut cur = input.to_vec();
    let mut chunk = cur.len() / 2;
    while chunk >= 1 {
        let mut i = 0;
        while i + chunk <= cur.len() {
            let mut cand = cur.clone();
            cand.drain(i..i + chunk);
            if sig_of(&cand).as_deref() == Some(want.as_str()) {
                cur = cand;
            } else {
                i += chunk;
            }
        }
        chunk /= 2;
    }
    for i in 0..cur.len() {
        for v in [0u8, 1] {
            if cur[i] != v {
                let mut cand = cur.clone();
                cand[i] = v;
                if sig_of(&cand).as_deref() == Some(want.as_str()) {
                    cur = cand;
                    break;
                }
            }
        }
    }
    cur
}
