//! Configuration properties, part 1: C19 (loader totality + serve-smoke).

use crate::conf::*;
use crate::engine::*;
use proptest::prelude::*;
use serde::{Deserialize, Serialize};

fn workers() -> usize {
    crate::props_codec::workers()
}

#[derive(Clone, Debug, Serialize, Deserialize)]
pub struct ConfCase {
    /// reference documents must load; everything else may be rejected
    pub must_load: bool,
    pub text: String,
}

pub struct C19Load;

fn nesting_depth(s: &str) -> usize {
    let mut d = 0usize;
    let mut m = 0usize;
    for b in s.bytes() {
        match b {
            b'[' | b'{' => {
                d += 1;
                m = m.max(d);
            }
            b']' | b'}' => d = d.saturating_sub(1),
            _ => {}
        }
    }
    // block nesting: deepest indentation in steps of one column is bounded by line length
    let indent = s
        .lines()
        .map(|l| l.len() - l.trim_start_matches([' ', '-']).len())
        .max()
        .unwrap_or(0);
    m.max(indent / 2)
}

impl Prop for C19Load {
    type Case = ConfCase;
    fn sub(&self) -> &'static str {
        "load-and-serve"
    }
    fn check(&self, c: &ConfCase) -> Outcome {
        let mut out = Outcome::default();
        if nesting_depth(&c.text) > 64 {
            out.excluded.push("nesting-deeper-than-64");
            return out;
        }
        if c.text.contains('&') && c.text.contains('*') {
            // YAML anchors/aliases are expanded by the third-party parser by copying
            out.excluded.push("yaml-alias");
            return out;
        }
        if eager_expansion(&c.text) > (1 << 17) {
            out.excluded.push("explicit-pool-larger-than-2^17-addresses");
            return out;
        }
        match load(&c.text) {
            Err(f) => {
                out.nontrivial = true;
                out.fail(format!("load:{}", f.sig), format!("loader: {}", f.detail));
            }
            Ok(Err(msg)) => {
                if msg == "<EMPTY ERROR MESSAGE>" {
                    out.fail("C19:empty-error-message", "loader returned an error without text");
                    return out;
                }
                let shallow = msg.starts_with("Yaml parse error")
                    || msg.starts_with("Configuration is empty")
                    || msg.starts_with("Configuration file contains multiple")
                    || msg.contains("Top level configuration should be a Hash");
                out.nontrivial = !shallow;
                out.class(if shallow { "rejected-by-yaml-layer" } else { "rejected-by-typed-parser" });
                if c.must_load {
                    out.fail(
                        "C19:example-rejected",
                        format!("a documented example does not load: {}", msg),
                    );
                }
            }
            Ok(Ok(conf)) => {
                out.nontrivial = true;
                out.class("accepted");
                if let Some(f) = serve_smoke(&conf, &mut out) {
                    out.fail(f.sig, f.detail);
                }
            }
        }
        out
    }
}

const DICT: [&str; 60] = [
    "addresses", "dns-servers", "dns-search", "captive-portal", "acls", "dns-routes", "dhcp-policies",
    "router-advertisements", "api-listeners", "dns-listeners", "default-listen-style", "match-subnets",
    "match-unix", "apply-access", "domain-suffixes", "type", "forward", "forge-nxdomain", "match-subnet",
    "match-hardware-address", "match-host-name", "apply-address", "apply-subnet", "apply-range", "start",
    "end", "apply-routes", "prefix", "next-hop", "policies", "hop-limit", "managed", "other", "lifetime",
    "reachable", "retransmit", "mtu", "prefixes", "on-link", "autonomous", "valid", "preferred", "pref64",
    "domains", "null", "true", "[]", "{}", "/0", "/33", "/129", ": ", "- ", "\n  ", "$self4", "1w", "s",
    "::ffff:1.2.3.4/97", "0.0.0.0/0", "~",
];

pub fn mutated_text_strategy(docs: Vec<String>) -> impl Strategy<Value = ConfCase> {
    let nd = docs.len();
    (
        any::<u16>(),
        proptest::collection::vec((any::<u16>(), any::<u16>(), 0u8..6, any::<u8>()), 1..5),
    )
        .prop_map(move |(di, edits)| {
            let mut b: Vec<u8> = docs[pick_idx(di, nd)].clone().into_bytes();
            for (pos, tok, kind, val) in edits {
                if b.is_empty() {
                    break;
                }
                let i = pick_idx(pos, b.len());
                let t = DICT[pick_idx(tok, DICT.len())].as_bytes();
                match kind {
                    0 => b[i] = val,
                    1 => {
                        b.splice(i..i, t.iter().copied());
                    }
                    2 => {
                        let e = (i + t.len()).min(b.len());
                        b.splice(i..e, t.iter().copied());
                    }
                    3 => {
                        let e = (i + 1 + (val as usize % 12)).min(b.len());
                        b.drain(i..e);
                    }
                    4 => {
                        // delete to end of line
                        let e = b[i..].iter().position(|c| *c == b'\n').map(|p| i + p).unwrap_or(b.len());
                        b.drain(i..e);
                    }
                    _ => {
                        // duplicate a line
                        let s = b[..i].iter().rposition(|c| *c == b'\n').map(|p| p + 1).unwrap_or(0);
                        let e = b[i..].iter().position(|c| *c == b'\n').map(|p| i + p + 1).unwrap_or(b.len());
                        let line = b[s..e].to_vec();
                        b.splice(e..e, line);
                    }
                }
            }
            ConfCase {
                must_load: false,
                text: String::from_utf8_lossy(&b).to_string(),
            }
        })
}

pub fn double_subst_strategy(docs: Vec<yaml_rust::Yaml>) -> impl Strategy<Value = ConfCase> {
    let nd = docs.len();
    (any::<u16>(), any::<[u16; 4]>()).prop_map(move |(di, r)| {
        let doc = &docs[pick_idx(di, nd)];
        let vals = replacement_values();
        let keys = key_replacements();
        let mut cur = doc.clone();
        for k in 0..2 {
            let mut paths = vec![];
            collect_paths(&cur, &mut vec![], &mut paths);
            let p = &paths[pick_idx(r[2 * k], paths.len())];
            let reps = if p.key { &keys } else { &vals };
            let rep = &reps[pick_idx(r[2 * k + 1], reps.len())];
            cur = substitute(&cur, &p.idx, p.key, rep).unwrap_or(yaml_rust::Yaml::Null);
        }
        ConfCase {
            must_load: false,
            text: emit(&cur),
        }
    })
}

pub fn run_c19(ctx: &Ctx) {
    let docs = reference_docs();
    // 1. the examples themselves
    let mut must: Vec<ConfCase> = vec![];
    for (name, text) in &docs {
        must.push(ConfCase {
            // the property names the manual's examples and the shipped example file
            must_load: name != "full-grammar",
            text: text.clone(),
        });
    }
    ctx.count_class("load-and-serve:reference-documents", must.len() as u64);
    run_list(ctx, &C19Load, must);
    // 2. complete single-substitution family
    let mut yamls = vec![];
    let mut total = 0u64;
    for (_name, text) in &docs {
        if let Some(y) = parse_yaml(text) {
            let fam = substitution_family(&y);
            total += fam.len() as u64;
            let famr = &fam;
            run_indexed(ctx, &C19Load, fam.len() as u64, workers(), |i| {
                Some(ConfCase {
                    must_load: false,
                    text: famr[i as usize].clone(),
                })
            });
            yamls.push(y);
        }
    }
    ctx.extra(
        "exhaustive_subclaims",
        serde_json::json!([format!(
            "single-substitution family over {} reference documents (every node x every replacement value / key): {} documents enumerated completely",
            yamls.len(),
            total
        )]),
    );
    // 3. double substitutions, 4. byte/token mutations of the shipped texts
    let y2 = yamls.clone();
    run_prop(ctx, &C19Load, move || double_subst_strategy(y2.clone()), ctx.tier.pick(40_000, 2_000_000), workers());
    let texts: Vec<String> = docs.iter().map(|d| d.1.clone()).collect();
    run_prop(ctx, &C19Load, move || mutated_text_strategy(texts.clone()), ctx.tier.pick(40_000, 2_000_000), workers());
}

pub fn replay(id: &str, sub: &str, case: &serde_json::Value) -> Option<Result<Outcome, String>> {
    match (id, sub) {
        ("C19", "load-and-serve") => Some(replay_prop(&C19Load, case)),
        _ => None,
    }
}
