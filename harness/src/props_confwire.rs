//! C19, wire part: an accepted configuration is safe to *serve DNS with*.
//!
//! The DNS router, cache and forwarder are private glue (no hook re-implements them), so the
//! DNS side of "an accepted configuration never makes a handler panic" is decided against the
//! real `erbium-dns`: generated `dns-routes` sections go through the real loader in-process;
//! every accepted document is then given to a fresh server, which is asked one recursive and one
//! non-recursive question under every configured suffix (and one under none), over UDP and TCP.
//! Oracle: every question gets a response (any rcode) and the server log has no panic line.
use crate::conf::*;
use crate::engine::*;
use crate::rfc1035 as dns;
use crate::wire_dns::*;
use proptest::prelude::*;
use serde::{Deserialize, Serialize};
use std::net::{IpAddr, Ipv4Addr, Ipv6Addr, SocketAddr};
use std::time::Duration;

#[derive(Clone, Debug, Serialize, Deserialize, PartialEq)]
pub struct RouteSpec {
    /// None: key absent
    pub suffixes: Option<Vec<String>>,
    /// 0 absent, 1 forward, 2 forge-nxdomain, 3 null
    pub kind: u8,
    /// 0 absent, 1 [], 2 [127.0.1.1] (scripted upstream), 3 [127.0.1.9] (nobody listens),
    /// 4 [fd00:e::99] (unreachable), 5 null
    pub servers: u8,
}

#[derive(Clone, Debug, Serialize, Deserialize, PartialEq)]
pub struct DnsConfCase {
    /// None: no dns-routes key at all
    pub routes: Option<Vec<RouteSpec>>,
    /// top-level dns-servers (used for DHCP clients, not for routing): 0 absent, 1 one address
    pub top_servers: u8,
}

const SUFFIXES: [&str; 10] = ["", "example.com", "EXAMPLE.com", "a.example.com", "invalid", "lan", "x--y.test", "com", "xn--bcher-kva.example", "1.168.192.in-addr.arpa"];

pub fn dns_conf_strategy() -> impl Strategy<Value = DnsConfCase> {
    let route = (
        proptest::option::weighted(
            0.9,
            proptest::collection::vec(any::<u16>().prop_map(|i| SUFFIXES[pick_idx(i, SUFFIXES.len())].to_string()), 0..=3),
        ),
        prop_oneof![3 => Just(1u8), 2 => Just(2u8), 2 => Just(0u8), 1 => Just(3u8)],
        prop_oneof![6 => Just(2u8), 6 => Just(0u8), 4 => Just(1u8), 2 => Just(3u8), 1 => Just(4u8), 2 => Just(5u8)],
    )
        .prop_map(|(suffixes, kind, servers)| RouteSpec { suffixes, kind, servers });
    (proptest::option::weighted(0.95, proptest::collection::vec(route, 0..=4)), 0u8..2)
        .prop_map(|(routes, top_servers)| DnsConfCase { routes, top_servers })
}

pub fn render(c: &DnsConfCase, listener: Option<SocketAddr>) -> String {
    let mut top: Vec<(&str, yaml_rust::Yaml)> = vec![];
    if let Some(l) = listener {
        top.push(("dns-listeners", ylist(vec![ystr(&l.to_string())])));
        top.push((
            "acls",
            ylist(vec![ymap(vec![
                ("match-subnets", ylist(vec![ystr("0.0.0.0/0"), ystr("::/0")])),
                ("apply-access", ylist(vec![ystr("dns-recursion")])),
            ])]),
        ));
    }
    if c.top_servers == 1 {
        top.push(("dns-servers", ylist(vec![ystr("192.0.2.53")])));
    }
    if let Some(rs) = &c.routes {
        top.push((
            "dns-routes",
            ylist(
                rs.iter()
                    .map(|r| {
                        let mut e: Vec<(&str, yaml_rust::Yaml)> = vec![];
                        if let Some(s) = &r.suffixes {
                            e.push(("domain-suffixes", ylist(s.iter().map(|x| ystr(x)).collect())));
                        }
                        match r.kind {
                            1 => e.push(("type", ystr("forward"))),
                            2 => e.push(("type", ystr("forge-nxdomain"))),
                            3 => e.push(("type", yaml_rust::Yaml::Null)),
                            _ => {}
                        }
                        match r.servers {
                            1 => e.push(("dns-servers", ylist(vec![]))),
                            2 => e.push(("dns-servers", ylist(vec![ystr("127.0.1.1")]))),
                            3 => e.push(("dns-servers", ylist(vec![ystr("127.0.1.9")]))),
                            4 => e.push(("dns-servers", ylist(vec![ystr("fd00:e::99")]))),
                            5 => e.push(("dns-servers", yaml_rust::Yaml::Null)),
                            _ => {}
                        }
                        ymap(e)
                    })
                    .collect(),
            ),
        ));
    }
    if top.is_empty() {
        top.push(("dns-search", ylist(vec![])));
    }
    emit(&ymap(top))
}

pub struct C19DnsSmoke {
    pub up: Upstream,
}

impl C19DnsSmoke {
    fn run_case(&self, c: &DnsConfCase) -> Outcome {
        let mut out = Outcome::default();
        // (1) the real loader, in-process, on the document without the rig's additions
        let text = render(c, None);
        match load(&text) {
            Err(f) => {
                out.nontrivial = true;
                out.fail(format!("load:{}", f.sig), format!("loader: {}", f.detail));
                return out;
            }
            Ok(Err(msg)) => {
                out.class("rejected-at-load");
                if msg.is_empty() || msg == "<EMPTY ERROR MESSAGE>" {
                    out.fail("C19:empty-error-message", "loader returned an error without text");
                }
                return out;
            }
            Ok(Ok(_)) => {}
        }
        out.class("accepted");
        // (2) serve DNS with it
        let port = crate::netns::free_port(IpAddr::V6(Ipv6Addr::UNSPECIFIED));
        let listener = SocketAddr::new(IpAddr::V6(Ipv6Addr::UNSPECIFIED), port);
        let conf = render(c, Some(listener));
        let probe = SocketAddr::new(IpAddr::V6(Ipv6Addr::LOCALHOST), port);
        let mut server = match DnsServer::start(&conf, probe, "warn") {
            Ok(s) => s,
            Err(e) => {
                if e.contains("panicked") {
                    out.nontrivial = true;
                    out.fail("serve:dns-panic-at-start", e);
                } else {
                    // the stand-alone binary may refuse what the loader accepted only with a message
                    out.fail("rig-error", e);
                }
                return out;
            }
        };
        let mut names: Vec<Vec<Vec<u8>>> = vec![vec![b"unrelated".to_vec(), b"test".to_vec()]];
        let mut forward_without_server = false;
        for r in c.routes.iter().flatten() {
            if r.kind != 2 && matches!(r.servers, 0 | 1 | 5) && r.suffixes.as_ref().map(|s| !s.is_empty()).unwrap_or(false) {
                forward_without_server = true;
            }
            for s in r.suffixes.iter().flatten() {
                let mut n = vec![unique_label()];
                n.extend(dns::name_from_str(s));
                names.push(n);
            }
        }
        names.truncate(6);
        // an address that swallows packets costs the server's whole back-off (about 10 s) per
        // recursive question: ask fewer of them
        // (an address nobody listens on behaves the same in the rig: no ICMP error reaches the
        // forwarder's sockets, it retransmits with its full back-off)
        let black_hole = c.routes.iter().flatten().any(|r| (r.servers == 4 || r.servers == 3) && r.kind != 2);
        if black_hole {
            out.class("upstream-swallows-packets");
            names.truncate(2);
        }
        if forward_without_server {
            out.class("forward-route-without-servers");
        }
        out.nontrivial = c.routes.as_ref().map(|r| !r.is_empty()).unwrap_or(false);
        let dst = SocketAddr::new(IpAddr::V4(Ipv4Addr::LOCALHOST), port);
        let src = IpAddr::V4(Ipv4Addr::new(127, 0, 0, 1));
        for (i, n) in names.iter().enumerate() {
            for (rd, tcp) in [(true, false), (false, false), (true, true)] {
                if black_hole && tcp {
                    continue;
                }
                let q = dns::query(0x5100 + i as u16, n, 1, 1, rd, None);
                let bytes = dns::encode(&q, dns::Compress::Off);
                // the exchange runs aside so that a panic line in the server log ends the wait at
                // once (a panicked task never answers; waiting out the timeout only costs time)
                // the forwarder's own back-off (0.8 s, then x1.5..2.5 per retransmission, four
                // transmissions) ends between 6.5 s and 20.3 s after the query
                let wait = Duration::from_secs(if black_hole { 40 } else { 15 });
                let (tx, rx) = std::sync::mpsc::channel();
                std::thread::spawn(move || {
                    let r = if tcp {
                        tcp_exchange_linger(None, dst, &bytes, &[], wait, Duration::from_millis(10))
                    } else {
                        udp_exchange(src, dst, &bytes, wait, Duration::from_millis(10))
                    };
                    let _ = tx.send(r);
                });
                let got = loop {
                    match rx.recv_timeout(Duration::from_millis(150)) {
                        Ok(r) => break r,
                        Err(std::sync::mpsc::RecvTimeoutError::Timeout) => {
                            if !server.panics().is_empty() || !server.alive() {
                                break Ok(vec![]);
                            }
                        }
                        Err(_) => break Err("exchange thread died".to_string()),
                    }
                };
                let got = match got {
                    Ok(g) => g,
                    Err(e) => {
                        out.fail("rig-error", e);
                        return out;
                    }
                };
                let panics = server.panics();
                if let Some(p) = panics.first() {
                    let textlog = server.stderr_text();
                    let msg = textlog.lines().skip_while(|l| l != p).nth(1).unwrap_or("").to_string();
                    let loc = p.split("panicked at ").nth(1).unwrap_or("");
                    let file = loc.split(':').next().unwrap_or("").trim_start_matches("crates/");
                    out.fail(
                        format!("serve:{}", panic_sig(&msg, &format!("{}:0", file))),
                        format!(
                            "DNS query for {} (rd={}, {}) with an accepted configuration: {} {}",
                            String::from_utf8_lossy(&n.join(&b"."[..])),
                            rd,
                            if tcp { "TCP" } else { "UDP" },
                            p.trim(),
                            msg
                        ),
                    );
                    return out;
                }
                if !server.alive() {
                    out.fail("serve:dns-server-died", server.stderr_tail());
                    return out;
                }
                if got.is_empty() {
                    out.fail(
                        "serve:dns-no-response",
                        format!(
                            "DNS query for {} (rd={}, {}) with an accepted configuration got no response within the waiting time (15 s; 40 s where the upstream never answers)",
                            String::from_utf8_lossy(&n.join(&b"."[..])),
                            rd,
                            if tcp { "TCP" } else { "UDP" }
                        ),
                    );
                    return out;
                }
            }
        }
        out
    }
}

impl WireProp for C19DnsSmoke {
    type Case = DnsConfCase;
    fn sub(&self) -> &'static str {
        "wire-dns-smoke"
    }
    fn exec_batch(&self, cases: &[DnsConfCase]) -> Vec<Outcome> {
        // independent servers: run a few at a time
        let mut outs: Vec<Option<Outcome>> = (0..cases.len()).map(|_| None).collect();
        for chunk in (0..cases.len()).collect::<Vec<_>>().chunks(4) {
            let res: Vec<(usize, Outcome)> = std::thread::scope(|s| {
                let hs: Vec<_> = chunk.iter().map(|&i| s.spawn(move || (i, self.run_case(&cases[i])))).collect();
                hs.into_iter().map(|h| h.join().unwrap()).collect()
            });
            for (i, o) in res {
                outs[i] = Some(o);
            }
        }
        outs.into_iter().map(|o| o.unwrap()).collect()
    }
}

pub fn run_c19_wire(ctx: &Ctx) {
    let prop = match Upstream::start(IpAddr::V4(Ipv4Addr::new(127, 0, 1, 1))) {
        Ok(up) => C19DnsSmoke { up },
        Err(e) => {
            ctx.assume(format!("wire tier unavailable: {}", e));
            return;
        }
    };
    run_wire(ctx, &prop, dns_conf_strategy(), ctx.tier.pick(48, 1200), 8);
    let _ = &prop.up;
}

pub fn replay(id: &str, sub: &str, case: &serde_json::Value) -> Option<Result<Outcome, String>> {
    match (id, sub) {
        ("C19", "wire-dns-smoke") => {
            let prop = match Upstream::start(IpAddr::V4(Ipv4Addr::new(127, 0, 1, 1))) {
                Ok(up) => C19DnsSmoke { up },
                Err(e) => return Some(Err(format!("wire rig unavailable: {}", e))),
            };
            Some(replay_wire(&prop, case))
        }
        _ => None,
    }
}
