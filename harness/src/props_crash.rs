//! C05 (function tier): byte strings into every network-facing decoder + what the handler does
//! with the decoded value.  Oracle: returns (Ok or Err); never panics / overflows / hangs.

use crate::engine::*;
use crate::mutate;
use crate::props_codec::HexBytes;
use proptest::prelude::*;
use serde::{Deserialize, Serialize};
use std::io::{Seek, SeekFrom, Write};
use std::sync::atomic::{AtomicU64, Ordering};

fn workers() -> usize {
    crate::props_codec::workers()
}

pub const TARGETS: [&str; 5] = ["dns", "dhcp", "icmp6", "lldp", "dhcp-option-types"];

#[derive(Clone, Debug, Serialize, Deserialize)]
pub struct CrashCase {
    pub target: String,
    pub bytes: HexBytes,
}

// ---------------------------------------------------------------------------------------------
// write-ahead slots: the in-flight input survives an abort / stack overflow / watchdog kill

thread_local! {
    static SLOT: std::cell::RefCell<Option<(std::fs::File, usize)>> = const { std::cell::RefCell::new(None) };
}
static SLOT_SEQ: AtomicU64 = AtomicU64::new(0);
static BUSY_SINCE: [AtomicU64; 64] = [const { AtomicU64::new(0) }; 64];
static THREADS: std::sync::Mutex<Vec<(usize, u64)>> = std::sync::Mutex::new(Vec::new());

pub fn slot_dir() -> String {
    if std::path::Path::new("/dev/shm").is_dir() {
        "/dev/shm".into()
    } else {
        std::env::temp_dir().to_string_lossy().to_string()
    }
}

pub fn slot_prefix(pid: u32) -> String {
    format!("{}/vcheck-slot-{}-", slot_dir(), pid)
}

fn now_ms() -> u64 {
    std::time::SystemTime::now()
        .duration_since(std::time::UNIX_EPOCH)
        .unwrap()
        .as_millis() as u64
}

fn slot_begin(id: &str, target: &str, bytes: &[u8]) {
    SLOT.with(|s| {
        let mut s = s.borrow_mut();
        if s.is_none() {
            let n = SLOT_SEQ.fetch_add(1, Ordering::Relaxed) as usize;
            let path = format!("{}{}", slot_prefix(std::process::id()), n);
            if let Ok(f) = std::fs::File::create(&path) {
                *s = Some((f, n));
                let tid = unsafe { libc::pthread_self() } as u64;
                THREADS.lock().unwrap().push((n, tid));
            }
        }
        if let Some((f, n)) = s.as_mut() {
            let mut hdr = Vec::with_capacity(64 + bytes.len());
            hdr.push(1u8);
            let meta = format!("{}\n{}\n", id, target);
            hdr.extend_from_slice(&(meta.len() as u32).to_le_bytes());
            hdr.extend_from_slice(&(bytes.len() as u32).to_le_bytes());
            hdr.extend_from_slice(meta.as_bytes());
            hdr.extend_from_slice(bytes);
            let _ = f.seek(SeekFrom::Start(0));
            let _ = f.write_all(&hdr);
            if *n < 64 {
                BUSY_SINCE[*n].store(now_ms(), Ordering::Relaxed);
            }
        }
    });
}

fn slot_end() {
    SLOT.with(|s| {
        if let Some((f, n)) = s.borrow_mut().as_mut() {
            let _ = f.seek(SeekFrom::Start(0));
            let _ = f.write_all(&[0u8]);
            if *n < 64 {
                BUSY_SINCE[*n].store(0, Ordering::Relaxed);
            }
        }
    });
}

/// Read a slot file left behind by a dead child: (property id, target, bytes) if it was busy.
pub fn read_slot(path: &str) -> Option<(String, String, Vec<u8>)> {
    let b = std::fs::read(path).ok()?;
    if b.len() < 9 || b[0] != 1 {
        return None;
    }
    let ml = u32::from_le_bytes([b[1], b[2], b[3], b[4]]) as usize;
    let bl = u32::from_le_bytes([b[5], b[6], b[7], b[8]]) as usize;
    if b.len() < 9 + ml + bl {
        return None;
    }
    let meta = String::from_utf8_lossy(&b[9..9 + ml]).to_string();
    let mut it = meta.lines();
    let id = it.next()?.to_string();
    let target = it.next()?.to_string();
    Some((id, target, b[9 + ml..9 + ml + bl].to_vec()))
}

fn thread_cpu_ms(tid: u64) -> Option<u64> {
    unsafe {
        let mut cid: libc::clockid_t = 0;
        if libc::pthread_getcpuclockid(tid as libc::pthread_t, &mut cid) != 0 {
            return None;
        }
        let mut ts: libc::timespec = std::mem::zeroed();
        if libc::clock_gettime(cid, &mut ts) != 0 {
            return None;
        }
        Some(ts.tv_sec as u64 * 1000 + ts.tv_nsec as u64 / 1_000_000)
    }
}

/// Watchdog: a single case that burns more than `CPU_LIMIT_MS` of its thread's CPU time is a
/// hang.  The slot file already holds the input; mark and abort, the parent reports it.
const CPU_LIMIT_MS: u64 = 30_000;

pub fn start_watchdog() {
    std::thread::spawn(|| {
        let mut seen: std::collections::HashMap<usize, (u64, u64)> = Default::default();
        loop {
            std::thread::sleep(std::time::Duration::from_millis(1000));
            let threads = THREADS.lock().unwrap().clone();
            for (n, tid) in threads {
                if n >= 64 {
                    continue;
                }
                let since = BUSY_SINCE[n].load(Ordering::Relaxed);
                if since == 0 {
                    seen.remove(&n);
                    continue;
                }
                let cpu = match thread_cpu_ms(tid) {
                    Some(c) => c,
                    None => continue,
                };
                match seen.get(&n) {
                    Some((s, c0)) if *s == since => {
                        if cpu - c0 > CPU_LIMIT_MS {
                            let _ = std::fs::write(
                                format!("{}{}.hang", slot_prefix(std::process::id()), n),
                                b"hang",
                            );
                            eprintln!("watchdog: case in worker {} used {} ms of CPU: aborting", n, cpu - c0);
                            std::process::abort();
                        }
                    }
                    _ => {
                        seen.insert(n, (since, cpu));
                    }
                }
            }
        }
    });
}

// ---------------------------------------------------------------------------------------------
// targets

fn dhcp_world() -> erbium::config::Config {
    use erbium::dhcp::config as dc;
    let mut pol = dc::Policy::default();
    pol.match_subnet = Some(erbium_net::Ipv4Subnet::new("192.0.2.0".parse().unwrap(), 24).unwrap());
    pol.apply_address = Some(
        (100..120u8)
            .map(|i| std::net::Ipv4Addr::new(192, 0, 2, i))
            .collect(),
    );
    let mut sub = dc::Policy::default();
    sub.match_chaddr = Some(vec![2, 0, 0, 0, 0, 9]);
    sub.apply_address = Some([std::net::Ipv4Addr::new(192, 0, 2, 9)].into_iter().collect());
    pol.policies = vec![sub];
    let mut conf = erbium::config::Config::default();
    conf.dhcp = dc::Config { policies: vec![pol] };
    conf.addresses = vec![erbium::config::Prefix::V4(erbium::config::Prefix4 {
        addr: "192.0.2.0".parse().unwrap(),
        prefixlen: 24,
    })];
    conf.dns_servers = vec!["192.0.2.53".parse().unwrap(), "0.0.0.0".parse().unwrap()];
    conf.dns_search = vec!["example.com".into()];
    conf.captive_portal = Some("https://portal.example.com/".into());
    conf
}

thread_local! {
    static SHARED_POOL: std::cell::RefCell<Option<erbium::dhcp::pool::Pool>> = const { std::cell::RefCell::new(None) };
    static WORLD: erbium::config::Config = dhcp_world();
}

/// What `log_options` does with every option of a message.
fn log_options_like(p: &erbium::dhcp::dhcppkt::Dhcp) -> usize {
    let mut n = 0;
    for (k, v) in p.options.other.iter() {
        let s = format!(
            "{k}({})",
            k.get_type()
                .and_then(|x| x.decode(v))
                .map(|x| format!("{}", x))
                .unwrap_or_else(|| "<decode-failed>".into())
        );
        n += s.len();
    }
    n
}

fn format_client_like(p: &erbium::dhcp::dhcppkt::Dhcp) -> String {
    use erbium::dhcp::dhcppkt;
    format!(
        "{} ({})",
        p.chaddr.iter().map(|b| format!("{:0>2x}", b)).collect::<Vec<_>>().join(":"),
        String::from_utf8_lossy(
            &p.options
                .get_option::<Vec<u8>>(&dhcppkt::OPTION_HOSTNAME)
                .unwrap_or_default()
        )
    )
}

/// Returns true if the decoder accepted the input.
pub fn run_target(target: &str, b: &[u8]) -> bool {
    match target {
        "dns" => match erbium::dns::verif_parse(b) {
            Err(_) => false,
            Ok(p) => {
                if let Some(e) = p.edns.as_ref() {
                    // queries: add_edns / validate_cookie; upstream replies: increment_result
                    let _ = e.get_nsid();
                    let _ = e.get_cookie();
                    let _ = e.get_extended_dns_error();
                }
                let _ = p.status();
                let _ = format!("{:?}", p);
                let _ = p.get_expiry();
                let d = p.get_expiry().as_secs().min(u32::MAX as u64) as u32;
                let _ = p.clone_with_ttl_decrement(d);
                let out = p.serialise();
                let _ = p.serialise_with_size((p.bufsize as usize).max(512));
                let _ = erbium::dns::verif_parse(&out);
                true
            }
        },
        "dhcp" => {
            use erbium::dhcp::{self, dhcppkt};
            match dhcppkt::parse(b) {
                Err(e) => {
                    let _ = e.to_string();
                    let _ = e.get_variant_name();
                    false
                }
                Ok(p) => {
                    let _ = format!("{:?}", p);
                    let _ = format_client_like(&p);
                    let _ = p.options.get_messagetype().map(|x| x.to_string());
                    let _ = log_options_like(&p);
                    let _ = p
                        .options
                        .get_option::<Vec<u8>>(&dhcppkt::OPTION_PARAMLIST)
                        .map(|v| {
                            v.iter()
                                .map(|&x| dhcppkt::DhcpOption::new(x).to_string())
                                .collect::<Vec<_>>()
                                .join(" ")
                        });
                    let _ = p.get_client_id();
                    let alloc = matches!(
                        p.options.get_messagetype(),
                        Some(dhcppkt::DHCPDISCOVER) | Some(dhcppkt::DHCPREQUEST)
                    );
                    let req = dhcp::DHCPRequest {
                        pkt: p,
                        serverip: "192.0.2.1".parse().unwrap(),
                        ifindex: 2,
                        if_mtu: Some(1500),
                        if_router: Some("192.0.2.254".parse().unwrap()),
                    };
                    let ids: std::collections::HashSet<std::net::Ipv4Addr> =
                        ["192.0.2.1".parse().unwrap()].into_iter().collect();
                    let res = WORLD.with(|conf| {
                        if alloc {
                            // fresh store: the outcome must not depend on earlier iterations
                            let mut pool = dhcp::pool::Pool::new_in_memory().expect("pool");
                            dhcp::handle_pkt(&mut pool, &req, ids, conf)
                        } else {
                            SHARED_POOL.with(|sp| {
                                let mut sp = sp.borrow_mut();
                                if sp.is_none() {
                                    *sp = Some(dhcp::pool::Pool::new_in_memory().expect("pool"));
                                }
                                dhcp::handle_pkt(sp.as_mut().unwrap(), &req, ids, conf)
                            })
                        }
                    });
                    match res {
                        Ok(reply) => {
                            let _ = reply.options.get_serverid();
                            let _ = format_client_like(&reply);
                            let _ = log_options_like(&reply);
                            let _ = req.pkt.get_broadcast_flag();
                            let buf = reply.serialise();
                            let _ = dhcppkt::parse(&buf);
                            use erbium_net::addr::Inet4Addr;
                            use erbium_net::packet::{Fragment, Tail};
                            let src = Inet4Addr::from(std::net::SocketAddrV4::new("192.0.2.1".parse().unwrap(), 67));
                            let dst = Inet4Addr::from(std::net::SocketAddrV4::new(reply.yiaddr, 68));
                            let _ = Fragment::new_udp4(src, &[2, 0, 0, 0, 0, 1], dst, &[2, 0, 0, 0, 0, 2], Tail::Payload(&buf)).flatten();
                        }
                        Err(e) => {
                            let _ = e.to_string();
                        }
                    }
                    true
                }
            }
        }
        "icmp6" => match erbium::radv::icmppkt::parse(b) {
            Ok(m) => {
                let _ = format!("{:?}", m);
                true
            }
            Err(_) => false,
        },
        "lldp" => {
            use erbium::pktparser::Deserialise as _;
            match erbium::lldp::lldppkt::LldpPacket::from_wire(&mut erbium::pktparser::Buffer::new(b)) {
                Ok(p) => {
                    for t in &p.tlvs {
                        let _ = format!("{:?}", t);
                    }
                    let _ = p == p;
                    true
                }
                Err(e) => {
                    let _ = format!("{:?}", e);
                    false
                }
            }
        }
        "dhcp-option-types" => {
            use erbium::dhcp::dhcppkt::DhcpOptionType as T;
            let mut any = false;
            for t in [
                T::String, T::Ip, T::IpList, T::I32, T::U8, T::U16, T::U32, T::Bool, T::Seconds16,
                T::Seconds32, T::HwAddr, T::Routes, T::DomainList, T::Unknown,
            ] {
                if let Some(v) = t.decode(b) {
                    let _ = format!("{}", v);
                    let _ = v.as_bytes();
                    any = true;
                }
            }
            any
        }
        other => panic!("harness: unknown target {}", other),
    }
}

pub struct C05Bytes {
    pub id: &'static str,
}

impl Prop for C05Bytes {
    type Case = CrashCase;
    fn sub(&self) -> &'static str {
        "bytes"
    }
    fn check(&self, c: &CrashCase) -> Outcome {
        let mut out = Outcome::default();
        slot_begin(self.id, &c.target, &c.bytes.0);
        let r = guard(|| run_target(&c.target, &c.bytes.0));
        slot_end();
        match r {
            Ok(accepted) => {
                out.nontrivial = accepted;
                if accepted {
                    out.class(match c.target.as_str() {
                        "dns" => "dns-accepted",
                        "dhcp" => "dhcp-accepted",
                        "icmp6" => "icmp6-accepted",
                        "lldp" => "lldp-accepted",
                        _ => "option-type-accepted",
                    });
                }
            }
            Err(f) => {
                out.nontrivial = true;
                out.fail(
                    f.sig,
                    format!("target {}: {} ({} octets)", c.target, f.detail, c.bytes.0.len()),
                );
            }
        }
        out
    }
}

pub fn seeds_for(target: &str) -> Vec<Vec<u8>> {
    match target {
        "dns" => mutate::dns_seeds(),
        "dhcp" => mutate::dhcp_seeds(),
        "icmp6" => mutate::icmp6_seeds(),
        "lldp" => mutate::lldp_seeds(),
        _ => {
            let mut v = vec![
                vec![],
                vec![24, 192, 0, 2, 0, 192, 0, 2, 254],
                vec![7, b'e', b'x', b'a', b'm', b'p', b'l', b'e', 3, b'c', b'o', b'm', 0],
                vec![192, 0, 2, 1, 192, 0, 2, 2],
                vec![1],
                vec![0, 0, 1, 44],
            ];
            v.push((0u8..=255).collect());
            v
        }
    }
}

/// Random mutations for the generated (non-enumerated) part.
pub fn crash_strategy() -> impl Strategy<Value = CrashCase> {
    let target = any::<u16>().prop_map(|i| TARGETS[pick_idx(i, TARGETS.len())].to_string());
    target.prop_flat_map(|t| {
        let seeds = seeds_for(&t);
        let ns = seeds.len();
        let t2 = t.clone();
        let mutated = (
            any::<u16>(),
            proptest::collection::vec((any::<u16>(), any::<u8>(), 0u8..6), 1..5),
        )
            .prop_map(move |(si, edits)| {
                let mut b = seeds[pick_idx(si, ns)].clone();
                for (pos, val, kind) in edits {
                    if b.is_empty() {
                        b.push(val);
                        continue;
                    }
                    let i = pick_idx(pos, b.len());
                    match kind {
                        0 => b[i] = val,
                        1 => b[i] ^= 1 << (val % 8),
                        2 => b.truncate(i),
                        3 => b.insert(i, val),
                        4 => {
                            b.remove(i);
                        }
                        _ => {
                            // splice a copy of a later chunk here (duplicated options / records)
                            let j = pick_idx(val as u16 * 257, b.len());
                            let (lo, hi) = (i.min(j), i.max(j));
                            let chunk = b[lo..hi].to_vec();
                            let at = lo;
                            b.splice(at..at, chunk);
                            b.truncate(65535);
                        }
                    }
                }
                b
            });
        let random = prop_oneof![
            8 => proptest::collection::vec(any::<u8>(), 0..600),
            1 => proptest::collection::vec(any::<u8>(), 0..65535),
        ];
        prop_oneof![4 => mutated, 1 => random].prop_map(move |b| CrashCase {
            target: t2.clone(),
            bytes: HexBytes(b),
        })
    })
}

pub fn run_c05_func(ctx: &Ctx) {
    start_watchdog();
    let prop = C05Bytes { id: "C05" };
    // 1. the finite structure-aware family, enumerated completely
    let mut total = 0u64;
    for t in TARGETS {
        let t0 = std::time::Instant::now();
        let e0 = ctx.evaluations();
        let seeds = seeds_for(t);
        for seed in &seeds {
            let n = mutate::family_size(seed.len());
            total += n;
            run_indexed(ctx, &prop, n, workers(), |i| {
                Some(CrashCase {
                    target: t.to_string(),
                    bytes: HexBytes(mutate::family_member(seed, i)),
                })
            });
        }
        eprintln!("target {}: {} inputs in {:.1}s", t, ctx.evaluations() - e0, t0.elapsed().as_secs_f64());
    }
    // 1b. nested-length families (inner length varied, enclosing lengths kept consistent)
    let mut nested = 0u64;
    for (t, fam) in [
        ("dns", mutate::dns_nested()),
        ("dhcp", mutate::dhcp_nested()),
        ("dhcp", mutate::dhcp_long_split()),
        ("icmp6", mutate::icmp6_nested()),
        ("lldp", mutate::lldp_nested()),
    ] {
        nested += fam.len() as u64;
        let famr = &fam;
        run_indexed(ctx, &prop, fam.len() as u64, workers(), |i| {
            Some(CrashCase {
                target: t.to_string(),
                bytes: HexBytes(famr[i as usize].clone()),
            })
        });
    }
    total += nested;
    ctx.extra(
        "exhaustive_subclaims",
        serde_json::json!([format!(
            "single-position boundary/truncation family of all seed packets plus the nested-length families (every EDNS option length 0..41, every DHCP option code x length 0..9, text and list options of 256..1180 octets split over several instances x 21 fills, route prefix octets 0..255, hlen 0..255, message type 0..255, ND option type x length, LLDP TLV type x length): {} inputs enumerated completely",
            total
        )]),
    );
    // 2. committed corpus (past findings, fuzzer discoveries)
    for t in TARGETS {
        let dir = format!("{}/corpus/{}", VERIF_DIR, t);
        if let Ok(rd) = std::fs::read_dir(&dir) {
            let mut files: Vec<_> = rd.filter_map(|e| e.ok()).map(|e| e.path()).collect();
            files.sort();
            let cases: Vec<CrashCase> = files
                .iter()
                .filter_map(|p| std::fs::read(p).ok())
                .map(|b| CrashCase {
                    target: t.to_string(),
                    bytes: HexBytes(b),
                })
                .collect();
            ctx.count_class("bytes:corpus-files", cases.len() as u64);
            run_list(ctx, &prop, cases);
        }
    }
    // 3. generated multi-edit mutations and random bytes
    run_prop(ctx, &prop, crash_strategy, ctx.tier.pick(300_000, 4_000_000), workers());
}

pub fn replay(id: &str, sub: &str, case: &serde_json::Value) -> Option<Result<Outcome, String>> {
    match (id, sub) {
        ("C05", "bytes") => Some(replay_prop(&C05Bytes { id: "C05" }, case)),
        _ => None,
    }
}
