//! C18, crash points enumerated: the process is killed *at each write to the lease database
//! or its journal*, one after the other, and the survivor is inspected.
//!
//! The SIGKILL tier on the wire samples kill instants at microsecond granularity, which hardly
//! ever lands between two writes of one SQLite commit.  Here the instants are enumerated instead
//! of sampled: a child process (this binary, `_c18child`) performs a scripted sequence of
//! allocations through `Pool::verif_open`, under `strace -e inject=<write syscalls>:signal=SIGKILL:
//! when=n` restricted to the database file and its rollback journal, for n = 1, 2, 3, ... until a
//! run completes without the n-th such call happening.  After every kill the file is reopened the
//! way the server does and the property's crash clause is checked:
//!   * the database opens;
//!   * every lease acknowledged before the kill (the child reports each one on stdout as soon as
//!     `allocate_address` has returned) is present, with the same client;
//!   * there is no partially written lease: SQLite's own integrity check passes (a row missing
//!     from the primary-key index is a lease that lookups by address do not see), rows are
//!     well-formed, no address has two rows;
//!   * service continues: the acknowledged clients get their addresses again, a new client gets
//!     an address nobody holds.
//! If strace or ptrace is not available the tier is recorded as unavailable (an assumption), never
//! as a violation.
use crate::engine::*;
use crate::hist::{rows_of, scratch_path};
use erbium::dhcp::pool::{Pool, PoolAddresses};
use serde::{Deserialize, Serialize};
use std::net::Ipv4Addr;
use std::process::{Command, Stdio};

fn addresses() -> PoolAddresses {
    // straddles the 9|10 text-width step of the TEXT address column
    (8u8..=13).map(|i| Ipv4Addr::new(10, 9, 0, i)).collect()
}

fn client_id(k: u8) -> Vec<u8> {
    vec![2, 0xc1, 0x8c, 0, 0, k]
}

/// The child: runs the script against the database file, reporting every completed allocation.
/// Script: comma separated `a<k>` (client k asks), e.g. "a1,a2,a1,a3".
pub fn c18_child(db: &str, script: &str) -> i32 {
    use std::io::Write as _;
    let mut pool = match Pool::verif_open(std::path::Path::new(db)) {
        Ok(p) => p,
        Err(e) => {
            eprintln!("open: {}", e);
            return 3;
        }
    };
    let addrs = addresses();
    for op in script.split(',').filter(|s| !s.is_empty()) {
        let k: u8 = op[1..].parse().unwrap_or(0);
        match pool.allocate_address(
            &client_id(k),
            None,
            &addrs,
            std::time::Duration::from_secs(300),
            std::time::Duration::from_secs(86400),
            &[53, 1, 1, 255],
        ) {
            Ok(l) => {
                let out = std::io::stdout();
                let mut o = out.lock();
                let _ = writeln!(o, "OK {} {}", k, l.ip);
                let _ = o.flush();
            }
            Err(e) => {
                let out = std::io::stdout();
                let mut o = out.lock();
                let _ = writeln!(o, "NO {} {}", k, e);
                let _ = o.flush();
            }
        }
    }
    0
}

#[derive(Clone, Debug, Serialize, Deserialize)]
pub struct CrashPointCase {
    pub script: String,
    /// the n-th write-like call on the database file or its journal is where the process dies
    pub kill_at: u32,
    /// allocations performed (to completion) before the run under strace starts
    pub prefix: String,
}

const INJECT: &str = "write,pwrite64,pwritev,writev,fsync,fdatasync,ftruncate";

fn strace_ok() -> Result<(), String> {
    let out = Command::new("strace")
        .args(["-f", "-qq", "-o", "/dev/null", "-e", "trace=write", "true"])
        .stdout(Stdio::null())
        .stderr(Stdio::piped())
        .output()
        .map_err(|e| format!("strace cannot be started: {}", e))?;
    if !out.status.success() {
        return Err(format!("strace cannot trace here: {}", String::from_utf8_lossy(&out.stderr).lines().next().unwrap_or("")));
    }
    Ok(())
}

/// Ok(Some(outcome)) = the kill took place and the survivor was judged; Ok(None) = the run
/// completed, there is no n-th call (end of the enumeration).
pub fn run_case(c: &CrashPointCase) -> Result<Option<Outcome>, String> {
    let mut out = Outcome::default();
    let db = scratch_path("crashpt");
    let journal = format!("{}-journal", db.display());
    let cleanup = || {
        let _ = std::fs::remove_file(&db);
        let _ = std::fs::remove_file(&journal);
    };
    cleanup();
    let me = std::env::current_exe().map_err(|e| e.to_string())?;
    if !c.prefix.is_empty() {
        let st = Command::new(&me)
            .args(["_c18child", &db.display().to_string(), &c.prefix])
            .stdout(Stdio::null())
            .stderr(Stdio::null())
            .status()
            .map_err(|e| e.to_string())?;
        if !st.success() {
            cleanup();
            return Err("the prefix run failed".into());
        }
    }
    let before_rows: Vec<(Ipv4Addr, Vec<u8>)> = if c.prefix.is_empty() {
        vec![]
    } else {
        let mut p = Pool::verif_open(&db).map_err(|e| e.to_string())?;
        rows_of(&mut p).into_iter().map(|r| (r.ip, r.client)).collect()
    };
    let res = Command::new("strace")
        .args(["-f", "-qq", "-o", "/dev/null", "-P", &db.display().to_string(), "-P", &journal])
        .args(["-e", &format!("trace={}", INJECT)])
        .args(["-e", &format!("inject={}:signal=SIGKILL:when={}", INJECT, c.kill_at)])
        .arg(&me)
        .args(["_c18child", &db.display().to_string(), &c.script])
        .stdout(Stdio::piped())
        .stderr(Stdio::null())
        .output()
        .map_err(|e| e.to_string())?;
    let text = String::from_utf8_lossy(&res.stdout).to_string();
    let acked: Vec<(u8, Ipv4Addr)> = text
        .lines()
        .filter_map(|l| {
            let mut it = l.split_whitespace();
            if it.next()? != "OK" {
                return None;
            }
            Some((it.next()?.parse().ok()?, it.next()?.parse().ok()?))
        })
        .collect();
    let completed = text.lines().count() == c.script.split(',').filter(|s| !s.is_empty()).count();
    if res.status.success() && completed {
        cleanup();
        return Ok(None);
    }
    out.nontrivial = true;
    out.class(if acked.is_empty() { "killed-before-the-first-acknowledgement" } else { "killed-after-an-acknowledgement" });
    // ---- the survivor
    let mut pool = match Pool::verif_open(&db) {
        Ok(p) => p,
        Err(e) => {
            out.fail("C18:database-does-not-open-after-kill", format!("killed at write-like call {}: {}", c.kill_at, e));
            cleanup();
            return Ok(Some(out));
        }
    };
    let rows = match pool.get_leases() {
        Ok(r) => r,
        Err(e) => {
            out.fail("C18:leases-unreadable-after-kill", format!("killed at call {}: {}", c.kill_at, e));
            cleanup();
            return Ok(Some(out));
        }
    };
    // the last acknowledgement per client is what must be there
    let mut latest: std::collections::BTreeMap<u8, Ipv4Addr> = Default::default();
    for (ip, cl) in &before_rows {
        if let Some(k) = cl.last() {
            latest.insert(*k, *ip);
        }
    }
    for (k, ip) in &acked {
        latest.insert(*k, *ip);
    }
    for (k, ip) in &latest {
        if !rows.iter().any(|r| r.ip == *ip && r.client_id == client_id(*k)) {
            out.fail(
                "C18:acknowledged-lease-lost",
                format!("killed at call {}: client {} was acknowledged {} before the kill, the reopened database has rows {:?}", c.kill_at, k, ip, rows.iter().map(|r| (r.ip, r.client_id.clone())).collect::<Vec<_>>()),
            );
            cleanup();
            return Ok(Some(out));
        }
    }
    let mut seen = std::collections::HashSet::new();
    for r in &rows {
        let d = r.expire as i64 - r.start as i64;
        if r.client_id.is_empty() || !(300..=86400).contains(&d) || !seen.insert(r.ip) {
            out.fail(
                "C18:partially-written-lease",
                format!("killed at call {}: row {} client {:02x?} start {} expire {} (duplicate address: {})", c.kill_at, r.ip, r.client_id, r.start, r.expire, !seen.contains(&r.ip)),
            );
            cleanup();
            return Ok(Some(out));
        }
    }
    drop(pool);
    match rusqlite::Connection::open_with_flags(&db, rusqlite::OpenFlags::SQLITE_OPEN_READ_ONLY) {
        Ok(conn) => {
            let r: Result<String, _> = conn.query_row("PRAGMA integrity_check", [], |row| row.get(0));
            match r {
                Ok(s) if s == "ok" => {}
                Ok(s) => {
                    out.fail("C18:partially-written-lease", format!("killed at call {}: integrity check of the reopened database: {}", c.kill_at, s));
                    cleanup();
                    return Ok(Some(out));
                }
                Err(e) => {
                    out.fail("C18:partially-written-lease", format!("killed at call {}: integrity check failed to run: {}", c.kill_at, e));
                    cleanup();
                    return Ok(Some(out));
                }
            }
        }
        Err(e) => {
            out.fail("C18:database-does-not-open-after-kill", e.to_string());
            cleanup();
            return Ok(Some(out));
        }
    }
    // ---- service continues
    let mut pool = match Pool::verif_open(&db) {
        Ok(p) => p,
        Err(e) => {
            out.fail("C18:database-does-not-open-after-kill", format!("second open: {}", e));
            cleanup();
            return Ok(Some(out));
        }
    };
    let addrs = addresses();
    for (k, ip) in &latest {
        match pool.allocate_address(&client_id(*k), None, &addrs, std::time::Duration::from_secs(300), std::time::Duration::from_secs(86400), &[]) {
            Ok(l) if l.ip == *ip => {}
            other => {
                out.fail(
                    "C18:address-changed-after-kill",
                    format!("killed at call {}: client {} held {} before the kill, afterwards it gets {:?}", c.kill_at, k, ip, other.map(|l| l.ip).map_err(|e| e.to_string())),
                );
                cleanup();
                return Ok(Some(out));
            }
        }
    }
    if latest.len() < addrs.len() {
        match pool.allocate_address(&client_id(200), None, &addrs, std::time::Duration::from_secs(300), std::time::Duration::from_secs(86400), &[]) {
            Ok(l) => {
                // an unacknowledged row may legitimately have survived for another client of the
                // script; only acknowledged holders are protected
                if latest.values().any(|ip| *ip == l.ip) {
                    out.fail("C18:held-address-given-away-after-kill", format!("killed at call {}: a new client gets {}, which an acknowledged client holds", c.kill_at, l.ip));
                }
            }
            Err(_) => {}
        }
    }
    drop(pool);
    let rows_after = {
        let mut p = Pool::verif_open(&db).map_err(|e| e.to_string())?;
        rows_of(&mut p)
    };
    let mut seen = std::collections::HashSet::new();
    if rows_after.iter().any(|r| !seen.insert(r.ip)) {
        out.fail("C18:partially-written-lease", format!("killed at call {}: after further allocations two rows share an address", c.kill_at));
    }
    cleanup();
    Ok(Some(out))
}

pub fn run_c18_crashpoints(ctx: &Ctx) {
    if let Err(e) = strace_ok() {
        ctx.assume(format!("crash-point enumeration unavailable: {}", e));
        return;
    }
    // (prefix run to completion, script run under strace)
    let quick: Vec<(&str, &str)> = vec![("", "a1,a2"), ("a1,a2", "a1,a3"), ("a1,a2,a3,a4,a5,a6", "a7,a2")];
    let thorough: Vec<(&str, &str)> = vec![
        ("", "a1,a2"),
        ("a1,a2", "a1,a3"),
        ("a1,a2,a3,a4,a5,a6", "a7,a2"),
        ("", "a1,a1,a1"),
        ("a1", "a2,a3,a4,a5,a6,a7,a1"),
        ("a1,a2,a3", "a3,a2,a1,a4"),
    ];
    let scripts = if ctx.tier == Tier::Quick { quick } else { thorough };
    let mut points = 0u64;
    for (prefix, script) in scripts {
        for n in 1..400u32 {
            let case = CrashPointCase { script: script.to_string(), kill_at: n, prefix: prefix.to_string() };
            match run_case(&case) {
                Err(e) => {
                    ctx.assume(format!("crash-point enumeration stopped: {}", e));
                    return;
                }
                Ok(None) => break,
                Ok(Some(out)) => {
                    points += 1;
                    ctx.record("crash-points", &case, &out);
                    if let Some(f) = out.fail {
                        if ctx.is_known(&f.sig) {
                            ctx.known_hit(&f.sig);
                        } else {
                            ctx.violation("crash-points", &f, &case);
                            return;
                        }
                    }
                }
            }
        }
    }
    ctx.extra("crash_points_enumerated", serde_json::json!(points));
}

pub fn replay(id: &str, sub: &str, case: &serde_json::Value) -> Option<Result<Outcome, String>> {
    match (id, sub) {
        ("C18", "crash-points") => {
            let c: CrashPointCase = match serde_json::from_value(case.clone()) {
                Ok(c) => c,
                Err(e) => return Some(Err(e.to_string())),
            };
            Some(match run_case(&c) {
                Ok(Some(o)) => Ok(o),
                Ok(None) => Ok(Outcome::default()),
                Err(e) => Err(e),
            })
        }
        _ => None,
    }
}
