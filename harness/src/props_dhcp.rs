//! DHCP history properties: C01, C09, C10, C13, C18 (reopen + old schema), C20 (gauges).

use crate::engine::*;
use crate::hist::*;
use crate::rfc2131 as wire;
use proptest::prelude::*;
use serde::{Deserialize, Serialize};
use std::collections::{BTreeMap, HashMap, HashSet};
use std::net::Ipv4Addr;

pub trait Oracle {
    fn on_step(&mut self, obs: &StepObs, out: &mut Outcome);
    fn finish(&mut self, _out: &mut Outcome) {}
}

pub fn run_history(h: &History, oracle: &mut dyn Oracle) -> Outcome {
    let mut out = Outcome::default();
    let mut sim = Sim::new(&h.world);
    for op in &h.ops {
        let obs = sim.step(op);
        if std::env::var("VCHECK_TRACE").is_ok() {
            if let StepObs::Msg(m) = &obs {
                eprintln!(
                    "TRACE client#{} ciaddr={} opts={:?} id={:02x?} type={:?} named={:?} pool={:?} edge={} wall={} result={:?}\n      before={:?}\n      after={:?}",
                    m.client,
                    m.request.ciaddr,
                    m.request.options.iter().map(|(c, v)| (*c, v.len())).collect::<Vec<_>>(),
                    m.identity,
                    m.msgtype,
                    m.named,
                    m.pool_addrs,
                    m.clock_edge,
                    m.wall_before,
                    m.result.as_ref().map(|r| (r.yiaddr, r.msg_type())).map_err(|e| format!("{:?}", e)),
                    m.before.iter().map(|r| (r.ip, r.client.clone(), r.start, r.expire)).collect::<Vec<_>>(),
                    m.after.iter().map(|r| (r.ip, r.client.clone(), r.start, r.expire)).collect::<Vec<_>>()
                );
            } else if let StepObs::Advance { secs } = &obs {
                eprintln!("TRACE advance {}", secs);
            }
        }
        if let StepObs::Msg(m) = &obs {
            if m.clock_edge {
                out.excluded.push("clock-edge-step");
                // the step still happened; oracles that keep state must see it, but must not judge
                // it.  They check `clock_edge` themselves.
            }
        }
        oracle.on_step(&obs, &mut out);
        if out.fail.is_some() {
            break;
        }
    }
    if out.fail.is_none() {
        oracle.finish(&mut out);
    }
    out
}

/// Re-execute a failing history once from scratch; a failure that does not reproduce is a clock
/// artefact (see DESIGN 1.3) and is counted as transient.
pub fn run_twice(h: &History, mk: &dyn Fn() -> Box<dyn Oracle>) -> Outcome {
    let mut o = mk();
    let first = run_history(h, o.as_mut());
    if first.fail.is_none() {
        return first;
    }
    let mut o2 = mk();
    let second = run_history(h, o2.as_mut());
    match (&first.fail, &second.fail) {
        (Some(a), Some(b)) if a.sig == b.sig => first,
        _ => {
            let mut s = second;
            s.fail = None;
            s.excluded.push("transient-not-reproduced");
            s
        }
    }
}

fn ip4(v: &[u8]) -> Option<Ipv4Addr> {
    if v.len() == 4 {
        Some(Ipv4Addr::new(v[0], v[1], v[2], v[3]))
    } else {
        None
    }
}

// ---------------------------------------------------------------------------------------------
// C01

#[derive(Clone, Debug)]
struct Grant {
    ident: Vec<u8>,
    addr: Ipv4Addr,
    /// virtual expiry
    ev: i64,
}

#[derive(Default)]
pub struct C01Oracle {
    ledger: Vec<Grant>,
    owners: BTreeMap<Ipv4Addr, HashSet<Vec<u8>>>,
    contended_grant: bool,
}

impl Oracle for C01Oracle {
    fn on_step(&mut self, obs: &StepObs, out: &mut Outcome) {
        let m = match obs {
            StepObs::Msg(m) => m,
            StepObs::Reopen { ok: Err(e), .. } => {
                out.fail("C01:reopen-failed", e.clone());
                return;
            }
            _ => return,
        };
        let rep = match &m.result {
            Ok(r) => r,
            Err(_) => return,
        };
        let x = rep.yiaddr;
        let vnow = m.vnow;
        if !m.clock_edge {
            for g in &self.ledger {
                if g.addr == x && g.ident != m.identity && g.ev > vnow + 1 {
                    out.fail(
                        "C01:double-grant",
                        format!(
                            "{} given to client {:02x?} while client {:02x?} holds it for another {} s",
                            x,
                            m.identity,
                            g.ident,
                            g.ev - vnow
                        ),
                    );
                    return;
                }
            }
        }
        // was some other client holding an address of this pool while this grant happened?
        if self.ledger.iter().any(|g| {
            g.ident != m.identity && g.ev > vnow && m.pool_addrs.contains(&g.addr)
        }) {
            self.contended_grant = true;
            out.class("grant-while-others-hold");
        }
        self.ledger
            .retain(|g| !(g.ident == m.identity && g.addr == x));
        let ev = match m.after.iter().find(|r| r.ip == x) {
            Some(r) => r.expire as i64 + m.shift,
            None => vnow + rep.lease_time().unwrap_or(300) as i64,
        };
        self.ledger.push(Grant {
            ident: m.identity.clone(),
            addr: x,
            ev,
        });
        self.owners.entry(x).or_default().insert(m.identity.clone());
    }
    fn finish(&mut self, out: &mut Outcome) {
        let shared = self.owners.values().any(|s| s.len() >= 2);
        if shared {
            out.class("address-changed-hands");
        }
        out.nontrivial = shared && self.contended_grant;
    }
}

pub struct HistProp {
    pub sub: &'static str,
    pub mk: fn() -> Box<dyn Oracle>,
}

impl Prop for HistProp {
    type Case = History;
    fn sub(&self) -> &'static str {
        self.sub
    }
    fn check(&self, h: &History) -> Outcome {
        let mut out = run_twice(h, &|| (self.mk)());
        classify_history(h, &mut out);
        out
    }
}

fn classify_history(h: &History, out: &mut Outcome) {
    if h.ops.iter().any(|o| matches!(o, Op::Reopen)) && h.world.file_backed {
        out.class("has-reopen");
    }
    if h.ops.iter().any(|o| matches!(o, Op::SwapPool { .. })) {
        out.class("has-pool-change");
    }
    if h.ops.iter().any(|o| matches!(o, Op::Advance { .. })) {
        out.class("has-advance");
    }
    let min_pool = h.world.pools.iter().map(|p| p.len()).min().unwrap_or(0);
    if h.world.clients.len() > min_pool {
        out.class("more-clients-than-addresses");
    }
}

// ---------------------------------------------------------------------------------------------
// C09

#[derive(Default)]
pub struct C09Oracle {
    pools_changed: bool,
    /// (client, address) -> the virtual instant up to which the client was last told it holds it
    told: HashMap<(Vec<u8>, Ipv4Addr), i64>,
}

impl Oracle for C09Oracle {
    fn on_step(&mut self, obs: &StepObs, out: &mut Outcome) {
        self.judge(obs, out);
        if out.fail.is_some() {
            return;
        }
        // "holds an unexpired lease" is judged above from the stored rows.  That is only the
        // holder's view too while every row runs exactly as long as its holder was told: a row
        // that runs longer keeps others out of an address that is free, one that runs shorter
        // gives away an address that is held.
        if let StepObs::Msg(m) = obs {
            let mut told_now: Option<(Vec<u8>, Ipv4Addr)> = None;
            if let (true, Ok(rep)) = (m.matched && is_alloc(m.msgtype), &m.result) {
                if let Some(l) = rep.lease_time() {
                    self.told.insert((m.identity.clone(), rep.yiaddr), m.vnow + l as i64);
                    told_now = Some((m.identity.clone(), rep.yiaddr));
                }
            }
            for r in &m.after {
                if let Some(t) = self.told.get(&(r.client.clone(), r.ip)) {
                    let stored = r.expire as i64 + m.shift;
                    if (stored - *t).abs() > 2 {
                        let just_told = told_now.as_ref().map(|(c, ip)| c == &r.client && *ip == r.ip).unwrap_or(false);
                        if !just_told && m.before.iter().any(|b| b.ip == r.ip && b.client == r.client && b.expire == r.expire) {
                            // not this step's doing (reported at the step that did it)
                            continue;
                        }
                        out.nontrivial = true;
                        out.fail(
                            "C09:record-differs-from-what-the-holder-was-told",
                            format!(
                                "client {:02x?} was told it holds {} until virtual second {}; after this message (from {:02x?}, answered with {:?}) the row runs until {}",
                                r.client,
                                r.ip,
                                t,
                                m.identity,
                                m.result.as_ref().map(|x| x.yiaddr).map_err(|e| format!("{:?}", e)),
                                stored
                            ),
                        );
                        return;
                    }
                }
            }
        }
    }
}

impl C09Oracle {
    fn judge(&mut self, obs: &StepObs, out: &mut Outcome) {
        let m = match obs {
            StepObs::Msg(m) => m,
            StepObs::Swap => {
                self.pools_changed = true;
                return;
            }
            _ => return,
        };
        if !m.matched || !is_alloc(m.msgtype) {
            return;
        }
        // a REQUEST that is not for us is not "served"
        if matches!(m.result, Err(ErrKind::OtherServer)) {
            return;
        }
        if m.clock_edge {
            // Some row is within a second of the clock, so "expired" and "unexpired" are both
            // defensible for it.  Judge only what holds under either reading: a refusal for lack
            // of addresses needs every pool address to be held by *another* client whose lease
            // may still be running.  An address whose only row is the asker's own (running: it
            // keeps it; lapsed: nobody holds it) is never a reason to refuse.
            if matches!(m.result, Err(ErrKind::NoAddress) | Err(ErrKind::AddressInUse)) {
                out.class("refusal-in-the-second-a-lease-expires");
                out.nontrivial = true;
                let w0 = m.wall_before as i64;
                for x in &m.pool_addrs {
                    let blocked = m
                        .before
                        .iter()
                        .any(|r| r.ip == *x && r.client != m.identity && (r.expire as i64) >= w0 - 1);
                    if !blocked {
                        out.fail(
                            "C09:refused-though-free-at-expiry-instant",
                            format!(
                                "client {:02x?} refused in the second a lease expires although no other client holds {} (rows: {:?}, now {})",
                                m.identity,
                                x,
                                m.before.iter().filter(|r| r.ip == *x).collect::<Vec<_>>(),
                                w0
                            ),
                        );
                        return;
                    }
                }
            }
            return;
        }
        let now = m.wall_before as i64;
        let mine: Vec<&Row> = m
            .before
            .iter()
            .filter(|r| r.client == m.identity && (r.expire as i64) > now)
            .collect();
        let a: Vec<Ipv4Addr> = mine
            .iter()
            .filter(|r| m.pool_addrs.contains(&r.ip))
            .map(|r| r.ip)
            .collect();
        match &m.result {
            Ok(rep) => {
                if !a.is_empty() {
                    if mine.len() >= 2
                        || m.named.map(|n| !a.contains(&n)).unwrap_or(false)
                        || self.pools_changed
                    {
                        out.nontrivial = true;
                    }
                    out.class("holder-asks-again");
                    if !a.contains(&rep.yiaddr) {
                        out.fail(
                            "C09:lost-own-address",
                            format!(
                                "client {:02x?} holds {:?} unexpired in the pool it is served from, but was given {}",
                                m.identity, a, rep.yiaddr
                            ),
                        );
                        return;
                    }
                    if let Some(n) = m.named {
                        if a.contains(&n) && rep.yiaddr != n {
                            out.fail(
                                "C09:named-held-address-not-given",
                                format!(
                                    "client {:02x?} named {} which it holds, but was given {}",
                                    m.identity, n, rep.yiaddr
                                ),
                            );
                        }
                    }
                }
            }
            Err(ErrKind::NoAddress) | Err(ErrKind::AddressInUse) => {
                out.nontrivial = true;
                out.class("refused-for-lack-of-addresses");
                if !a.is_empty() {
                    out.fail(
                        "C09:lost-own-address",
                        format!(
                            "client {:02x?} holds {:?} unexpired in the pool it is served from, but was refused",
                            m.identity, a
                        ),
                    );
                    return;
                }
                for x in &m.pool_addrs {
                    let held = m.before.iter().any(|r| {
                        r.ip == *x && r.client != m.identity && (r.expire as i64) > now
                    });
                    if !held {
                        out.fail(
                            "C09:refused-though-free",
                            format!(
                                "client {:02x?} refused although {} is not held by another client",
                                m.identity, x
                            ),
                        );
                        return;
                    }
                }
            }
            Err(e) => {
                out.fail(
                    "C09:unexpected-error",
                    format!("matched DISCOVER/REQUEST failed with {:?}", e),
                );
            }
        }
    }
}

// ---------------------------------------------------------------------------------------------
// C09, refusal clause on pools of every size: all addresses but one are held, the newcomer must
// get that one

#[derive(Clone, Debug, Serialize, Deserialize)]
pub struct ExhaustCase {
    /// pool size
    pub n: u8,
    /// index of the one address nobody holds
    pub free: u8,
    pub newcomer: u8,
}

pub struct C09Exhaust;

impl Prop for C09Exhaust {
    type Case = ExhaustCase;
    fn sub(&self) -> &'static str {
        "one-address-left"
    }
    fn check(&self, c: &ExhaustCase) -> Outcome {
        use erbium::dhcp::{self, dhcppkt};
        let mut out = Outcome::default();
        let n = c.n.max(1) as usize;
        let free = c.free as usize % n;
        let addrs: Vec<Ipv4Addr> = (0..n).map(|i| Ipv4Addr::new(10, 9, 1, 1 + i as u8)).collect();
        let conf = make_config(Ipv4Addr::new(10, 9, 1, 0), &addrs);
        let mut pool = dhcp::pool::Pool::new_in_memory().expect("pool");
        let serverip = Ipv4Addr::new(10, 9, 1, 254);
        let ask = |pool: &mut dhcp::pool::Pool, mac: [u8; 6], want: Option<Ipv4Addr>| {
            let mut m = wire::Msg { xid: 0x0909, ..Default::default() };
            m.set_hw(&mac);
            m.options.push((wire::OPT_MSG_TYPE, vec![wire::DISCOVER]));
            if let Some(w) = want {
                m.options.push((wire::OPT_REQUESTED_IP, w.octets().to_vec()));
            }
            let req = dhcp::DHCPRequest {
                pkt: dhcppkt::parse(&m.encode()).expect("harness request parses"),
                serverip,
                ifindex: 1,
                if_mtu: None,
                if_router: None,
            };
            dhcp::handle_pkt(pool, &req, Default::default(), &conf)
        };
        for (i, a) in addrs.iter().enumerate() {
            if i == free {
                continue;
            }
            match ask(&mut pool, [2, 0x9e, 0, 0, 0, i as u8], Some(*a)) {
                Ok(r) if r.yiaddr == *a => {}
                _ => {
                    // filling is not what is judged here
                    out.excluded.push("pool-could-not-be-filled-as-planned");
                    return out;
                }
            }
        }
        out.nontrivial = n >= 2;
        if n > 32 {
            out.class("pool-larger-than-32");
        }
        match ask(&mut pool, [2, 0x9f, 0, 0, 1, c.newcomer], None) {
            Ok(r) => {
                if r.yiaddr != addrs[free] {
                    out.fail(
                        "C01:double-grant",
                        format!("pool of {}: only {} is free, the newcomer was given {}", n, addrs[free], r.yiaddr),
                    );
                }
            }
            Err(e) => {
                out.fail(
                    "C09:refused-though-free",
                    format!("pool of {} addresses, all held except {}: the newcomer {} was refused ({})", n, addrs[free], c.newcomer, e),
                );
            }
        }
        out
    }
}

pub fn run_c09_exhaust(ctx: &Ctx) {
    let sizes: Vec<u8> = if ctx.tier == Tier::Quick {
        vec![1, 2, 3, 16, 31, 32, 33, 34, 40, 48, 64, 65, 100, 150]
    } else {
        (1..=200).collect()
    };
    let mut cases: Vec<ExhaustCase> = vec![];
    for n in sizes {
        for free in 0..n {
            for newcomer in 0..(if ctx.tier == Tier::Quick { 1 } else { 3 }) {
                cases.push(ExhaustCase { n, free, newcomer });
            }
        }
    }
    let cs = &cases;
    run_indexed(ctx, &C09Exhaust, cases.len() as u64, workers(), |i| Some(cs[i as usize].clone()));
    ctx.extra(
        "exhaustive_subclaims",
        serde_json::json!([format!("one-address-left: every position of the free address in pools of the listed sizes ({} cases)", cases.len())]),
    );
}

// ---------------------------------------------------------------------------------------------
// C10

#[derive(Default)]
pub struct C10Oracle;

impl Oracle for C10Oracle {
    fn on_step(&mut self, obs: &StepObs, out: &mut Outcome) {
        let m = match obs {
            StepObs::Msg(m) => m,
            _ => return,
        };
        let rep = match &m.result {
            Ok(r) => r,
            Err(_) => return,
        };
        let kind = if rep.msg_type() == Some(wire::OFFER) {
            "offer"
        } else {
            "ack"
        };
        let held_before = m
            .before
            .iter()
            .any(|r| r.client == m.identity && r.ip == rep.yiaddr);
        if held_before {
            out.nontrivial = true;
            out.class("lease-time-computed-from-history");
        }
        let l = match rep.options.get(&wire::OPT_LEASE_TIME) {
            None => {
                out.fail(
                    format!("C10:no-lease-time:{}", kind),
                    format!("{} for {} carries no option 51", kind, rep.yiaddr),
                );
                return;
            }
            Some(v) if v.len() != 4 => {
                out.fail(
                    "C10:lease-time-length",
                    format!("option 51 has {} octets", v.len()),
                );
                return;
            }
            Some(v) => u32::from_be_bytes([v[0], v[1], v[2], v[3]]),
        };
        if !(300..=86400).contains(&l) {
            out.fail(
                "C10:out-of-bounds",
                format!("advertised lease time {} s outside [300, 86400]", l),
            );
            return;
        }
        match m.after.iter().find(|r| r.ip == rep.yiaddr) {
            None => out.fail(
                "C10:no-record",
                format!("no lease row for the assigned address {}", rep.yiaddr),
            ),
            Some(r) => {
                if r.expire as i64 - r.start as i64 != l as i64 {
                    out.fail(
                        "C10:record-duration-mismatch",
                        format!(
                            "advertised {} s but the record runs {} s",
                            l,
                            r.expire as i64 - r.start as i64
                        ),
                    );
                } else if (r.expire as i64) < m.wall_before as i64 + l as i64 {
                    out.fail(
                        "C10:record-expires-early",
                        format!(
                            "record expires at {} but reply time {} + lease {} = {}",
                            r.expire,
                            m.wall_before,
                            l,
                            m.wall_before as i64 + l as i64
                        ),
                    );
                }
            }
        }
    }
}

// ---------------------------------------------------------------------------------------------
// C13

#[derive(Default)]
pub struct C13Oracle;

impl Oracle for C13Oracle {
    fn on_step(&mut self, obs: &StepObs, out: &mut Outcome) {
        let m = match obs {
            StepObs::Msg(m) => m,
            _ => return,
        };
        match &m.result {
            Err(_) => {
                if !m.before.is_empty() && m.before.iter().any(|r| r.client == m.identity) {
                    out.nontrivial = true;
                }
                if !is_alloc(m.msgtype) {
                    out.class("non-alloc-message");
                }
                if m.after != m.before {
                    out.fail(
                        "C13:state-changed-without-reply",
                        format!(
                            "message type {:?} produced no reply but the lease table changed",
                            m.msgtype
                        ),
                    );
                }
            }
            Ok(rep) => {
                if !is_alloc(m.msgtype) {
                    out.fail(
                        "C13:replied-to-other-type",
                        format!("reply produced for message type {:?}", m.msgtype),
                    );
                    return;
                }
                if !m.matched {
                    out.fail(
                        "C13:replied-unmatched",
                        "reply produced for a request that matches no configured pool",
                    );
                    return;
                }
                if m.msgtype == Some(wire::REQUEST) {
                    if let Some(raw) = &m.sid_raw {
                        if let Some(sid) = ip4(raw) {
                            if !m.ids_before.contains(&sid) {
                                out.fail(
                                    "C13:answered-other-server",
                                    format!(
                                        "REQUEST naming server {} answered; known ids {:?}",
                                        sid, m.ids_before
                                    ),
                                );
                                return;
                            }
                        }
                        // malformed server-id: unconstrained
                    }
                }
                // only the row of yiaddr may differ
                let b: BTreeMap<Ipv4Addr, &Row> = m.before.iter().map(|r| (r.ip, r)).collect();
                let a: BTreeMap<Ipv4Addr, &Row> = m.after.iter().map(|r| (r.ip, r)).collect();
                let keys: HashSet<Ipv4Addr> = b.keys().chain(a.keys()).copied().collect();
                for k in keys {
                    if k != rep.yiaddr && b.get(&k) != a.get(&k) {
                        out.fail(
                            "C13:touched-other-row",
                            format!(
                                "reply assigned {} but the row of {} changed: {:?} -> {:?}",
                                rep.yiaddr,
                                k,
                                b.get(&k),
                                a.get(&k)
                            ),
                        );
                        return;
                    }
                }
                let rq = &m.request;
                if rep.xid != rq.xid {
                    out.fail("C13:echo-xid", format!("{:x} != {:x}", rep.xid, rq.xid));
                } else if rep.chaddr != rq.hw() {
                    out.fail(
                        "C13:echo-chaddr",
                        format!("{:02x?} != {:02x?}", rep.chaddr, rq.hw()),
                    );
                } else if rep.giaddr != rq.giaddr {
                    out.fail("C13:echo-giaddr", "");
                } else if rep.flags != rq.flags {
                    out.fail("C13:echo-flags", format!("{:x} != {:x}", rep.flags, rq.flags));
                } else {
                    match rep.server_id() {
                        None => out.fail("C13:no-server-id", "reply without a 4-octet option 54"),
                        Some(s) => {
                            if s != m.server_ip && !m.ids_before.contains(&s) {
                                out.fail(
                                    "C13:foreign-server-id",
                                    format!("option 54 is {} (receiving address {})", s, m.server_ip),
                                );
                            }
                        }
                    }
                }
            }
        }
    }
}

// ---------------------------------------------------------------------------------------------
// C20 (function tier): gauges after every step

pub struct C20Prop;

/// One C20 run over an already constructed Sim: after the start and after every operation the
/// listing (`Pool::get_leases`, what /api/v1/leases.json is rendered from) is compared with the
/// rows read from the database file by our own connection (file-backed worlds), and the gauges
/// with the count of rows on each side of the clock.
fn c20_walk(sim: &mut Sim, ops: &[Op], out: &mut Outcome) {
    {
        {
            let mut steps: Vec<Option<&Op>> = vec![None];
            steps.extend(ops.iter().map(Some));
            for op in steps {
                if let Some(op) = op {
                    sim.step(op);
                }
                let w0 = wall_now() as i64;
                let rows = match listing_of(sim.pool.as_mut().unwrap()) {
                    Ok(r) => r,
                    Err(e) => {
                        out.fail("C20:listing-error", format!("get_leases failed: {}", e));
                        return;
                    }
                };
                if let Some(path) = sim.db_path() {
                    match rows_sql(&path) {
                        Ok(stored) => {
                            out.class("listing-compared-with-file");
                            if stored != rows {
                                out.fail(
                                    "C20:listing-differs-from-store",
                                    format!(
                                        "the database file holds {} rows, the listing has {}; first difference {:?}",
                                        stored.len(),
                                        rows.len(),
                                        stored.iter().zip(rows.iter()).find(|(a, b)| a != b)
                                    ),
                                );
                                return;
                            }
                        }
                        Err(e) => {
                            out.excluded.push("file-not-readable");
                            let _ = e;
                        }
                    }
                }
                let res = sim.pool.as_mut().unwrap().get_pool_metrics();
                let w1 = wall_now() as i64;
                if rows
                    .iter()
                    .any(|r| (r.expire as i64 - w0).abs() <= 1 || (r.expire as i64 - w1).abs() <= 1)
                {
                    out.excluded.push("clock-edge-step");
                    continue;
                }
                let active = rows.iter().filter(|r| (r.expire as i64) > w0).count() as u32;
                let expired = rows.len() as u32 - active;
                if active > 0 && expired > 0 {
                    out.nontrivial = true;
                    out.class("both-classes-nonempty");
                }
                if rows.is_empty() {
                    out.class("empty-store");
                }
                match res {
                    Err(e) => {
                        out.fail(
                            if rows.is_empty() {
                                "C20:gauge-error-empty-store"
                            } else {
                                "C20:gauge-error"
                            },
                            format!("get_pool_metrics failed with {} rows: {}", rows.len(), e),
                        );
                        return;
                    }
                    Ok((a, e)) => {
                        if (a, e) != (active, expired) {
                            out.fail(
                                "C20:gauge-mismatch",
                                format!(
                                    "gauges report active={} expired={}, the store holds active={} expired={}",
                                    a, e, active, expired
                                ),
                            );
                            return;
                        }
                    }
                }
            }
        }
    }
}

impl Prop for C20Prop {
    type Case = History;
    fn sub(&self) -> &'static str {
        "gauges"
    }
    fn check(&self, h: &History) -> Outcome {
        let run = || {
            let mut out = Outcome::default();
            let mut sim = Sim::new(&h.world);
            c20_walk(&mut sim, &h.ops, &mut out);
            out
        };
        let first = run();
        if first.fail.is_some() {
            let second = run();
            if second.fail.as_ref().map(|f| &f.sig) != first.fail.as_ref().map(|f| &f.sig) {
                let mut s = second;
                s.fail = None;
                s.excluded.push("transient-not-reproduced");
                return s;
            }
        }
        first
    }
}

// ---------------------------------------------------------------------------------------------
// C20 (function tier, b): the same walk over a database that an older release wrote

#[derive(Clone, Debug, Serialize, Deserialize)]
pub struct UpgRow {
    /// universe index (mapped with pick_idx)
    pub addr: u16,
    /// Some(k): the row belongs to client k of the world; None: to `raw_id`
    pub owner: Option<u16>,
    pub raw_id: Vec<u8>,
    /// seconds before the start of the run at which the lease started
    pub age: u32,
    pub len: u32,
    /// in the version-1 layout: Some(blob) stores that option blob, None stores NULL
    pub options: Option<Vec<u8>>,
}

#[derive(Clone, Debug, Serialize, Deserialize)]
pub struct UpgCase {
    /// None: no version row (what the first releases wrote); Some(0) / Some(1)
    pub version: Option<i64>,
    pub version_table: bool,
    pub rows: Vec<UpgRow>,
    pub hist: History,
}

pub fn upg_strategy(p: Profile) -> impl Strategy<Value = UpgCase> {
    let row = (
        any::<u16>(),
        proptest::option::weighted(0.6, any::<u16>()),
        proptest::collection::vec(any::<u8>(), 1..12),
        prop_oneof![3 => 0u32..600, 2 => 0u32..100_000],
        prop_oneof![3 => 0u32..1200, 2 => 0u32..200_000],
        proptest::option::weighted(0.4, Just(vec![53u8, 1, 1, 255])),
    )
        .prop_map(|(addr, owner, raw_id, age, len, options)| UpgRow { addr, owner, raw_id, age, len, options });
    (
        prop_oneof![3 => Just(None), 3 => Just(Some(0i64)), 2 => Just(Some(1i64))],
        any::<bool>(),
        proptest::collection::vec(row, 1..=8),
        history_strategy(p),
    )
        .prop_map(|(version, version_table, rows, hist)| UpgCase { version, version_table, rows, hist })
}

pub struct C20Upgrade;

impl Prop for C20Upgrade {
    type Case = UpgCase;
    fn sub(&self) -> &'static str {
        "upgraded-db"
    }
    fn check(&self, c: &UpgCase) -> Outcome {
        let run = || {
            let mut out = Outcome::default();
            let path = scratch_path("upg");
            let _ = std::fs::remove_file(&path);
            let now = wall_now() as i64;
            let mut seen = HashSet::new();
            let v1 = c.version == Some(1);
            let mut legacy: Vec<Ipv4Addr> = vec![];
            {
                let conn = rusqlite::Connection::open(&path).expect("create old db");
                conn.execute(
                    if v1 {
                        "CREATE TABLE leases (address TEXT NOT NULL, chaddr BLOB, clientid BLOB, start INTEGER NOT NULL, expiry INTEGER NOT NULL, options BLOB, PRIMARY KEY (address))"
                    } else {
                        "CREATE TABLE IF NOT EXISTS leases (address TEXT NOT NULL, chaddr BLOB, clientid BLOB, start INTEGER NOT NULL, expiry INTEGER NOT NULL, PRIMARY KEY (address))"
                    },
                    [],
                )
                .unwrap();
                if c.version.is_some() || c.version_table {
                    conn.execute(
                        "CREATE TABLE IF NOT EXISTS schema_version (key TEXT NOT NULL, version INTEGER NOT NULL, PRIMARY KEY (key))",
                        [],
                    )
                    .unwrap();
                }
                if let Some(v) = c.version {
                    conn.execute("INSERT INTO schema_version (key, version) VALUES ('pool', ?1)", rusqlite::params![v])
                        .unwrap();
                }
                for r in &c.rows {
                    let ip = uaddr(pick_idx(r.addr, c.hist.world.universe as usize) as u8);
                    if !seen.insert(ip) {
                        continue;
                    }
                    let (chaddr, id): (Vec<u8>, Vec<u8>) = match r.owner {
                        Some(k) => {
                            let cl = &c.hist.world.clients[pick_idx(k, c.hist.world.clients.len())];
                            (cl.chaddr.clone(), cl.identity())
                        }
                        None => (vec![2, 9, 9, 9, 9, 9], r.raw_id.clone()),
                    };
                    let start = (now - r.age as i64).max(0);
                    let expiry = (start + r.len as i64).min(u32::MAX as i64);
                    if v1 {
                        conn.execute(
                            "INSERT INTO leases (address, chaddr, clientid, start, expiry, options) VALUES (?1, ?2, ?3, ?4, ?5, ?6)",
                            rusqlite::params![ip.to_string(), chaddr, id, start, expiry, r.options],
                        )
                        .unwrap();
                    } else {
                        conn.execute(
                            "INSERT INTO leases (address, chaddr, clientid, start, expiry) VALUES (?1, ?2, ?3, ?4, ?5)",
                            rusqlite::params![ip.to_string(), chaddr, id, start, expiry],
                        )
                        .unwrap();
                    }
                    if !v1 || r.options.is_none() {
                        legacy.push(ip);
                    }
                }
            }
            out.class(match c.version {
                None => "no-version-row",
                Some(0) => "version-0",
                _ => "version-1",
            });
            let mut w = c.hist.world.clone();
            w.file_backed = true;
            let mut sim = match Sim::with_existing_db(&w, path.clone()) {
                Ok(s) => s,
                Err(e) => {
                    let _ = std::fs::remove_file(&path);
                    out.fail("C20:older-database-not-opened", e);
                    return out;
                }
            };
            c20_walk(&mut sim, &c.hist.ops, &mut out);
            if out.fail.is_none() {
                // which rows written before the options column existed are still there?
                if let Ok(stored) = rows_sql(&path) {
                    let still = stored.iter().filter(|r| legacy.contains(&r.ip) && r.options.is_empty()).count();
                    if still > 0 && stored.len() > still {
                        out.nontrivial = true;
                        out.class("legacy-rows-beside-new-ones");
                    } else if still > 0 {
                        out.nontrivial = true;
                        out.class("only-legacy-rows");
                    } else {
                        out.class("legacy-rows-all-replaced");
                    }
                }
            }
            out
        };
        let first = run();
        if first.fail.is_some() {
            let second = run();
            if second.fail.as_ref().map(|f| &f.sig) != first.fail.as_ref().map(|f| &f.sig) {
                let mut s = second;
                s.fail = None;
                s.excluded.push("transient-not-reproduced");
                return s;
            }
        }
        first
    }
}

// ---------------------------------------------------------------------------------------------
// C18 (a): reopen differential

pub struct C18Reopen;

fn rows_close(a: &[Row], b: &[Row]) -> Option<String> {
    if a.len() != b.len() {
        return Some(format!("{} rows vs {} rows", a.len(), b.len()));
    }
    for (x, y) in a.iter().zip(b.iter()) {
        if x.ip != y.ip || x.client != y.client || x.options != y.options {
            return Some(format!("row differs: {:?} vs {:?}", x, y));
        }
        if (x.start as i64 - y.start as i64).abs() > 2 || (x.expire as i64 - y.expire as i64).abs() > 8
        {
            return Some(format!("row times differ: {:?} vs {:?}", x, y));
        }
    }
    None
}

impl Prop for C18Reopen {
    type Case = History;
    fn sub(&self) -> &'static str {
        "reopen"
    }
    fn check(&self, h: &History) -> Outcome {
        let run = || {
            let mut out = Outcome::default();
            let mut wa = h.world.clone();
            wa.file_backed = true;
            let mut wb = h.world.clone();
            wb.file_backed = false;
            let mut a = Sim::new(&wa);
            let mut b = Sim::new(&wb);
            for op in &h.ops {
                let oa = a.step(op);
                let ob = if matches!(op, Op::Reopen) {
                    b.skip();
                    StepObs::Noop
                } else {
                    b.step(op)
                };
                match (&oa, &ob) {
                    (StepObs::Reopen { before, after, ok }, _) => {
                        let now = wall_now() as i64;
                        let live: HashSet<&Vec<u8>> = before
                            .iter()
                            .filter(|r| (r.expire as i64) > now)
                            .map(|r| &r.client)
                            .collect();
                        if live.len() >= 2 {
                            out.nontrivial = true;
                            out.class("reopen-with-live-leases-of-2-clients");
                        }
                        if let Err(e) = ok {
                            out.fail("C18:reopen-failed", e.clone());
                            return out;
                        }
                        if before != after {
                            out.fail(
                                "C18:rows-changed-by-reopen",
                                format!("before {:?} after {:?}", before, after),
                            );
                            return out;
                        }
                    }
                    (StepObs::Msg(ma), StepObs::Msg(mb)) => {
                        if ma.clock_edge || mb.clock_edge {
                            out.excluded.push("clock-edge-step");
                        }
                        let same = match (&ma.result, &mb.result) {
                            (Ok(x), Ok(y)) => {
                                x.yiaddr == y.yiaddr
                                    && x.msg_type() == y.msg_type()
                                    && match (x.lease_time(), y.lease_time()) {
                                        (Some(p), Some(q)) => (p as i64 - q as i64).abs() <= 6,
                                        (None, None) => true,
                                        _ => false,
                                    }
                            }
                            (Err(x), Err(y)) => x == y,
                            _ => false,
                        };
                        if !same && !(ma.clock_edge || mb.clock_edge) {
                            out.fail(
                                "C18:replies-diverge",
                                format!(
                                    "interrupted server: {:?}; uninterrupted twin: {:?}",
                                    ma.result.as_ref().map(|r| (r.yiaddr, r.msg_type(), r.lease_time())),
                                    mb.result.as_ref().map(|r| (r.yiaddr, r.msg_type(), r.lease_time()))
                                ),
                            );
                            return out;
                        }
                        if let Some(d) = rows_close(&ma.after, &mb.after) {
                            if !(ma.clock_edge || mb.clock_edge) {
                                out.fail("C18:tables-diverge", d);
                                return out;
                            }
                        }
                    }
                    _ => {}
                }
            }
            out
        };
        let first = run();
        if first.fail.is_some() {
            let second = run();
            if second.fail.as_ref().map(|f| &f.sig) != first.fail.as_ref().map(|f| &f.sig) {
                let mut s = second;
                s.fail = None;
                s.excluded.push("transient-not-reproduced");
                return s;
            }
        }
        first
    }
}

// ---------------------------------------------------------------------------------------------
// C18 (b): databases written by an older schema / unknown newer schema

#[derive(Clone, Debug, Serialize, Deserialize)]
pub struct OldRow {
    pub addr: u32,
    pub chaddr: Option<Vec<u8>>,
    pub clientid: Vec<u8>,
    pub start: u32,
    pub len: u32,
}

#[derive(Clone, Debug, Serialize, Deserialize)]
pub struct OldDb {
    /// None: no schema_version table row; Some(v): row with that version
    pub version: Option<i64>,
    /// whether the schema_version table exists at all when version is None
    pub version_table: bool,
    /// v0 layout (no options column) or v1 layout
    pub has_options_column: bool,
    pub rows: Vec<OldRow>,
}

pub fn olddb_strategy(max_rows: usize) -> impl Strategy<Value = OldDb> {
    let row = (
        any::<u32>(),
        proptest::option::of(proptest::collection::vec(any::<u8>(), 0..17)),
        proptest::collection::vec(any::<u8>(), 0..20),
        any::<u32>(),
        0u32..200000,
    )
        .prop_map(|(addr, chaddr, clientid, start, len)| OldRow {
            addr,
            chaddr,
            clientid,
            start: start / 2,
            len,
        });
    (
        prop_oneof![
            4 => Just(None),
            4 => Just(Some(0i64)),
            3 => Just(Some(1i64)),
            3 => (2i64..1_000_000).prop_map(Some),
            1 => Just(Some(-1i64)),
        ],
        any::<bool>(),
        proptest::collection::vec(row, 0..=max_rows),
    )
        .prop_map(|(version, version_table, rows)| OldDb {
            version,
            version_table,
            has_options_column: version == Some(1),
            rows,
        })
}

pub struct C18OldSchema;

fn dump(path: &std::path::Path) -> Result<Vec<String>, String> {
    let conn = rusqlite::Connection::open_with_flags(
        path,
        rusqlite::OpenFlags::SQLITE_OPEN_READ_ONLY,
    )
    .map_err(|e| e.to_string())?;
    let mut out = vec![];
    let mut st = conn
        .prepare("SELECT type, name, sql FROM sqlite_master ORDER BY name")
        .map_err(|e| e.to_string())?;
    let names: Vec<(String, String, Option<String>)> = st
        .query_map([], |r| Ok((r.get(0)?, r.get(1)?, r.get(2)?)))
        .map_err(|e| e.to_string())?
        .collect::<Result<_, _>>()
        .map_err(|e| e.to_string())?;
    for (t, n, s) in &names {
        out.push(format!("{} {} {:?}", t, n, s));
    }
    for (t, n, _) in &names {
        if t == "table" {
            let mut st = conn
                .prepare(&format!("SELECT * FROM \"{}\" ORDER BY 1", n))
                .map_err(|e| e.to_string())?;
            let cols = st.column_count();
            let mut rows = st.query([]).map_err(|e| e.to_string())?;
            while let Some(r) = rows.next().map_err(|e| e.to_string())? {
                let mut line = format!("{}:", n);
                for c in 0..cols {
                    let v: rusqlite::types::Value = r.get(c).map_err(|e| e.to_string())?;
                    line.push_str(&format!(" {:?}", v));
                }
                out.push(line);
            }
        }
    }
    Ok(out)
}

impl Prop for C18OldSchema {
    type Case = OldDb;
    fn sub(&self) -> &'static str {
        "oldschema"
    }
    fn check(&self, db: &OldDb) -> Outcome {
        let mut out = Outcome::default();
        let path = scratch_path("old");
        let _ = std::fs::remove_file(&path);
        // dedupe addresses (primary key)
        let mut seen = HashSet::new();
        let rows: Vec<&OldRow> = db.rows.iter().filter(|r| seen.insert(r.addr)).collect();
        {
            let conn = rusqlite::Connection::open(&path).expect("create old db");
            if db.has_options_column {
                conn.execute(
                    "CREATE TABLE leases (address TEXT NOT NULL, chaddr BLOB, clientid BLOB, start INTEGER NOT NULL, expiry INTEGER NOT NULL, options BLOB, PRIMARY KEY (address))",
                    [],
                )
                .unwrap();
            } else {
                conn.execute(
                    "CREATE TABLE IF NOT EXISTS leases (address TEXT NOT NULL, chaddr BLOB, clientid BLOB, start INTEGER NOT NULL, expiry INTEGER NOT NULL, PRIMARY KEY (address))",
                    [],
                )
                .unwrap();
            }
            if db.version.is_some() || db.version_table {
                conn.execute(
                    "CREATE TABLE IF NOT EXISTS schema_version (key TEXT NOT NULL, version INTEGER NOT NULL, PRIMARY KEY (key))",
                    [],
                )
                .unwrap();
            }
            if let Some(v) = db.version {
                conn.execute(
                    "INSERT INTO schema_version (key, version) VALUES ('pool', ?1)",
                    rusqlite::params![v],
                )
                .unwrap();
            }
            for r in &rows {
                conn.execute(
                    "INSERT INTO leases (address, chaddr, clientid, start, expiry) VALUES (?1, ?2, ?3, ?4, ?5)",
                    rusqlite::params![
                        Ipv4Addr::from(r.addr).to_string(),
                        r.chaddr,
                        r.clientid,
                        r.start,
                        r.start.saturating_add(r.len),
                    ],
                )
                .unwrap();
            }
        }
        let cleanup = |p: &std::path::Path| {
            let _ = std::fs::remove_file(p);
            let _ = std::fs::remove_file(format!("{}-journal", p.display()));
        };
        let mut expected: Vec<Row> = rows
            .iter()
            .map(|r| Row {
                ip: Ipv4Addr::from(r.addr),
                client: r.clientid.clone(),
                start: r.start,
                expire: r.start.saturating_add(r.len),
                options: vec![],
            })
            .collect();
        expected.sort();
        let before = dump(&path).unwrap_or_default();
        let newer = matches!(db.version, Some(v) if v > 1);
        if !rows.is_empty() {
            out.nontrivial = true;
        }
        match db.version {
            None => out.class("no-version-row"),
            Some(0) => out.class("version-0"),
            Some(1) => out.class("version-1"),
            Some(v) if v > 1 => out.class("newer-version"),
            _ => out.class("negative-version"),
        }
        let res = erbium::dhcp::pool::Pool::verif_open(&path);
        match res {
            Ok(mut p) => {
                if newer {
                    out.fail(
                        "C18:newer-schema-accepted",
                        format!("database with schema version {:?} was opened", db.version),
                    );
                    drop(p);
                    cleanup(&path);
                    return out;
                }
                if matches!(db.version, Some(v) if v < 0) {
                    // an unknown version below 0: the statement only speaks of older/newer; either
                    // refusing or opening is fine, nothing more to check
                    drop(p);
                    cleanup(&path);
                    return out;
                }
                let got = rows_of(&mut p);
                if got != expected {
                    out.fail(
                        "C18:rows-lost-on-upgrade",
                        format!("expected {} rows, got {}: first difference {:?}", expected.len(), got.len(),
                            expected.iter().zip(got.iter()).find(|(a, b)| a != b)),
                    );
                    drop(p);
                    cleanup(&path);
                    return out;
                }
                drop(p);
                // a second open is a no-op
                let d1 = dump(&path).unwrap_or_default();
                match erbium::dhcp::pool::Pool::verif_open(&path) {
                    Ok(mut p2) => {
                        let got2 = rows_of(&mut p2);
                        drop(p2);
                        let d2 = dump(&path).unwrap_or_default();
                        if got2 != expected || d1 != d2 {
                            out.fail("C18:second-open-changed-database", "");
                        }
                    }
                    Err(e) => out.fail("C18:second-open-failed", e.to_string()),
                }
            }
            Err(e) => {
                if newer {
                    let after = dump(&path).unwrap_or_default();
                    if after != before {
                        out.fail(
                            "C18:newer-schema-modified",
                            format!("refused ({}) but the file content changed", e),
                        );
                    }
                } else if matches!(db.version, Some(v) if v < 0) {
                    // unconstrained, see above
                } else {
                    out.fail(
                        "C18:old-schema-refused",
                        format!("version {:?}: {}", db.version, e),
                    );
                }
            }
        }
        cleanup(&path);
        out
    }
}

// ---------------------------------------------------------------------------------------------
// entry points

fn workers() -> usize {
    crate::props_codec::workers()
}

pub fn hist_prop(id: &str) -> HistProp {
    match id {
        "C01" => HistProp {
            sub: "ledger",
            mk: || Box::<C01Oracle>::default(),
        },
        "C09" => HistProp {
            sub: "keeps-address",
            mk: || Box::<C09Oracle>::default(),
        },
        "C10" => HistProp {
            sub: "lease-time",
            mk: || Box::new(C10Oracle),
        },
        "C13" => HistProp {
            sub: "frame",
            mk: || Box::new(C13Oracle),
        },
        _ => unreachable!(),
    }
}

/// Scripted histories of one long-lived client: it renews a second before its lease runs out,
/// again and again, so that the lease grows to the maximum (300, 897, 2688, ... 86400 s) and
/// stays there; then the server restarts in the second of the last renewal, the client stays
/// away until the lease has run out and comes back, and another client asks for its address in
/// between.  Generated histories of 40 operations practically never get a lease past an hour.
pub fn long_lived_histories() -> Vec<History> {
    let clients = vec![
        ClientSpec { chaddr: vec![2, 0, 0, 0, 0, 0], client_id: None, hostname: None },
        ClientSpec { chaddr: vec![2, 0, 0, 0, 0, 1], client_id: None, hostname: None },
    ];
    let mut out = vec![];
    for (pool, renewals, variant) in [(vec![0u8], 9usize, 0u8), (vec![0u8, 1], 9, 1), (vec![0u8], 14, 2), (vec![0u8, 1], 6, 3)] {
        let world = World { clients: clients.clone(), universe: 2, pools: vec![pool.clone()], file_backed: true };
        let mut ops = vec![
            Op::Discover { client: 0, pool: 0, requested: Addr::None },
            Op::RequestSel { client: 0, pool: 0, sid: Sid::Ours, requested: Addr::Own },
        ];
        for k in 0..renewals {
            ops.push(Op::AdvanceToExpiry { client: 0, off: 3 });
            ops.push(Op::RequestRenew { client: 0, pool: 0, sid: if k % 2 == 0 { Sid::Absent } else { Sid::Ours }, ciaddr: Addr::Own });
            if variant == 1 && k == 4 {
                ops.push(Op::Reopen);
            }
        }
        // restart right after the last renewal; the other client asks for the holder's address
        ops.push(Op::Reopen);
        ops.push(Op::Discover { client: 0xffff, pool: 0, requested: Addr::OfClient(0) });
        ops.push(Op::RequestSel { client: 0xffff, pool: 0, sid: Sid::Ours, requested: Addr::OfClient(0) });
        // the holder stays away until its lease has run out, then comes back both ways
        ops.push(Op::AdvanceToExpiry { client: 0, off: -3 });
        ops.push(Op::Discover { client: 0, pool: 0, requested: Addr::Own });
        ops.push(Op::RequestSel { client: 0, pool: 0, sid: Sid::Absent, requested: Addr::Own });
        if variant >= 2 {
            ops.push(Op::AdvanceToExpiry { client: 0, off: -3 });
            ops.push(Op::RequestSel { client: 0, pool: 0, sid: Sid::Absent, requested: Addr::Own });
            ops.push(Op::Reopen);
            ops.push(Op::Discover { client: 0xffff, pool: 0, requested: Addr::None });
        }
        out.push(History { world, ops });
    }
    out
}

pub fn profile_for(id: &str, tier: Tier, file_backed: bool) -> Profile {
    let mut p = Profile::base(tier.pick(40, 150));
    p.file_backed = file_backed;
    if file_backed {
        p.w_reopen = 6;
    }
    match id {
        "C13" => {
            p.w_other = 30;
            p.w_unmatched = 6;
        }
        "C09" => {
            p.w_swap = 10;
            p.w_edge = 8;
        }
        "C18" => {
            p.w_reopen = 12;
        }
        _ => {}
    }
    p
}

pub fn run_hist_func(ctx: &Ctx, id: &str) {
    let prop = hist_prop(id);
    run_list(ctx, &prop, long_lived_histories());
    if !ctx.violations.lock().unwrap().is_empty() {
        return;
    }
    let n = ctx.tier.pick(16_000u64, 400_000u64);
    // 3/4 in memory, 1/4 file backed with reopen (restart) steps
    run_prop(ctx, &prop, || history_strategy(profile_for(id, ctx.tier, false)), n * 3 / 4, workers());
    run_prop(ctx, &prop, || history_strategy(profile_for(id, ctx.tier, true)), n / 4, workers());
}

pub fn replay(id: &str, sub: &str, case: &serde_json::Value) -> Option<Result<Outcome, String>> {
    match (id, sub) {
        ("C18", "large-store") => Some(replay_prop(&C18BigStore, case)),
        ("C18", "file-held-by-another-connection") => Some(replay_prop(&C18Locked { id: "C18" }, case)),
        ("C10", "file-held-by-another-connection") => Some(replay_prop(&C18Locked { id: "C10" }, case)),
        ("C20", "gauges-in-real-time") => Some(replay_prop(&C20RealTime, case)),
        ("C01", "ledger") | ("C09", "keeps-address") | ("C10", "lease-time") | ("C13", "frame") => {
            Some(replay_prop(&hist_prop(id), case))
        }
        ("C20", "gauges") => Some(replay_prop(&C20Prop, case)),
        ("C09", "one-address-left") => Some(replay_prop(&C09Exhaust, case)),
        ("C20", "upgraded-db") => Some(replay_prop(&C20Upgrade, case)),
        ("C18", "reopen") => Some(replay_prop(&C18Reopen, case)),
        ("C18", "oldschema") => Some(replay_prop(&C18OldSchema, case)),
        _ => None,
    }
}

/// C18 on stores of thousands of rows: a lease file in the current layout holding `rows` rows of
/// which `expired_pct` percent have run out (hours to months ago), the rest still running; it is
/// opened the way the server opens it, closed, opened again.  rows(open(D)) = rows(D), read by the
/// harness's own connection before and after, and the listing the API is built from shows them
/// all.
#[derive(Clone, Debug, Serialize, Deserialize, PartialEq)]
pub struct BigStoreCase {
    pub rows: u32,
    pub expired_pct: u8,
    pub seed: u32,
}

pub struct C18BigStore;

impl Prop for C18BigStore {
    type Case = BigStoreCase;
    fn sub(&self) -> &'static str {
        "large-store"
    }
    fn check(&self, c: &BigStoreCase) -> Outcome {
        let mut out = Outcome::default();
        out.nontrivial = c.rows > 1;
        out.class(if c.rows > 1000 { "more-than-1000-rows" } else { "up-to-1000-rows" });
        let path = scratch_path("c18big");
        let cleanup = |p: &std::path::Path| {
            let _ = std::fs::remove_file(p);
            let _ = std::fs::remove_file(format!("{}-journal", p.display()));
        };
        // the real code creates the schema
        match erbium::dhcp::pool::Pool::verif_open(&path) {
            Ok(p) => drop(p),
            Err(e) => {
                out.fail("C18:fresh-database-does-not-open", e.to_string());
                cleanup(&path);
                return out;
            }
        }
        let now = wall_now() as i64;
        {
            let conn = match rusqlite::Connection::open(&path) {
                Ok(c) => c,
                Err(e) => {
                    out.fail("rig-error", e.to_string());
                    cleanup(&path);
                    return out;
                }
            };
            let _ = conn.execute_batch("BEGIN");
            let mut s = c.seed as u64 | 1;
            for i in 0..c.rows {
                s = s.wrapping_mul(6364136223846793005).wrapping_add(1442695040888963407);
                let r = (s >> 33) as i64;
                let expired = (r % 100) < c.expired_pct as i64;
                let len = 300 + (r / 100) % 86100;
                let (start, expiry) = if expired {
                    let ago = 1 + (r / 7) % [3600i64, 86400, 2_600_000, 31_000_000][(r as usize / 3) % 4];
                    (now - ago - len, now - ago)
                } else {
                    let left = 1 + (r / 11) % len;
                    (now + left - len, now + left)
                };
                let ip = Ipv4Addr::from(0x0a14_0000u32 + i);
                let id = vec![0xbb, (i >> 16) as u8, (i >> 8) as u8, i as u8];
                let opts: Vec<u8> = vec![53, 1, 3, 12, 2, b'h', (i % 251) as u8];
                if let Err(e) = conn.execute(
                    "INSERT INTO leases (address, clientid, start, expiry, options) VALUES (?1, ?2, ?3, ?4, ?5)",
                    rusqlite::params![ip.to_string(), id, start, expiry, opts],
                ) {
                    out.fail("rig-error", format!("insert: {}", e));
                    cleanup(&path);
                    return out;
                }
            }
            let _ = conn.execute_batch("COMMIT");
        }
        let before = match rows_sql(&path) {
            Ok(r) => r,
            Err(e) => {
                out.fail("rig-error", e);
                cleanup(&path);
                return out;
            }
        };
        for round in 0..2 {
            let listing = match erbium::dhcp::pool::Pool::verif_open(&path) {
                Ok(mut p) => listing_of(&mut p),
                Err(e) => {
                    out.fail("C18:database-does-not-open", format!("{} rows, open {}: {}", c.rows, round, e));
                    cleanup(&path);
                    return out;
                }
            };
            let after = rows_sql(&path).unwrap_or_default();
            if after != before {
                let lost = before.iter().filter(|r| !after.contains(r)).count();
                out.fail(
                    "C18:rows-changed-by-open",
                    format!("{} rows ({} % expired) before open {}, {} after; {} of the rows are gone or altered, e.g. {:?}", before.len(), c.expired_pct, round, after.len(), lost, before.iter().find(|r| !after.contains(r))),
                );
                break;
            }
            match listing {
                Ok(l) if l == before => {}
                Ok(l) => {
                    out.fail("C18:listing-differs-from-file", format!("{} rows in the file, {} in the listing", before.len(), l.len()));
                    break;
                }
                Err(e) => {
                    out.fail("C18:listing-fails", e);
                    break;
                }
            }
        }
        cleanup(&path);
        out
    }
}

/// C18 with the lease file held by somebody else (a backup, a shell, a second writer): another
/// connection holds a write reservation (`BEGIN IMMEDIATE`) or sits in an open read transaction
/// while the pool allocates.  Whatever the pool then does - wait, fail, succeed - a lease it
/// *reported as allocated* (so that a reply goes out) is in the file once the holder has gone
/// and the file is opened again.
#[derive(Clone, Debug, Serialize, Deserialize, PartialEq)]
pub struct LockedCase {
    /// 0: second writer (RESERVED lock), 1: reader in an open transaction (SHARED lock)
    pub holder: u8,
    /// leases allocated before the file is held
    pub before: u8,
}

pub struct C18Locked {
    /// the property the sub-check runs under ("C18": the lease is in the file; "C10": the record
    /// does not end before the advertised time - the same observation)
    pub id: &'static str,
}

impl Prop for C18Locked {
    type Case = LockedCase;
    fn sub(&self) -> &'static str {
        "file-held-by-another-connection"
    }
    fn check(&self, c: &LockedCase) -> Outcome {
        let mut out = Outcome::default();
        out.nontrivial = true;
        let path = scratch_path("c18lock");
        let cleanup = |p: &std::path::Path| {
            let _ = std::fs::remove_file(p);
            let _ = std::fs::remove_file(format!("{}-journal", p.display()));
        };
        let mut pool = match erbium::dhcp::pool::Pool::verif_open(&path) {
            Ok(p) => p,
            Err(e) => {
                out.fail("rig-error", e.to_string());
                return out;
            }
        };
        let addrs: erbium::dhcp::pool::PoolAddresses = (1..=20u8).map(|i| Ipv4Addr::new(10, 9, 2, i)).collect();
        let d = std::time::Duration::from_secs(600);
        let mut reported: Vec<(Vec<u8>, Ipv4Addr)> = vec![];
        for i in 0..c.before {
            match pool.allocate_address(&[0xdd, i], None, &addrs, d, d, &[53, 1, 3]) {
                Ok(l) => reported.push((vec![0xdd, i], l.ip)),
                Err(e) => {
                    out.fail("rig-error", format!("allocate: {}", e));
                    cleanup(&path);
                    return out;
                }
            }
        }
        // somebody takes hold of the file
        let holder = match rusqlite::Connection::open(&path) {
            Ok(h) => h,
            Err(e) => {
                out.fail("rig-error", e.to_string());
                cleanup(&path);
                return out;
            }
        };
        let held = if c.holder == 0 {
            holder.execute_batch("BEGIN IMMEDIATE")
        } else {
            holder.execute_batch("BEGIN").and_then(|_| holder.query_row("SELECT COUNT(*) FROM leases", [], |r| r.get::<_, i64>(0)).map(|_| ()))
        };
        if let Err(e) = held {
            out.fail("rig-error", format!("holder: {}", e));
            cleanup(&path);
            return out;
        }
        // a new client and a renewal while the file is held
        let t0 = std::time::Instant::now();
        let mut during = vec![];
        let mut asks: Vec<Vec<u8>> = vec![vec![0xde, 0xad]];
        if c.before > 0 {
            asks.push(vec![0xdd, 0]);
        }
        for id in asks {
            match pool.allocate_address(&id, None, &addrs, d, d, &[53, 1, 3]) {
                Ok(l) => {
                    out.class("allocation-reported-while-the-file-was-held");
                    during.push((id, l.ip));
                }
                Err(_) => out.class("allocation-refused-while-the-file-was-held"),
            }
        }
        let waited = t0.elapsed();
        let _ = holder.execute_batch("ROLLBACK");
        drop(holder);
        drop(pool);
        let rows = match erbium::dhcp::pool::Pool::verif_open(&path) {
            Ok(mut p) => listing_of(&mut p).unwrap_or_default(),
            Err(e) => {
                out.fail("C18:database-does-not-open", e.to_string());
                cleanup(&path);
                return out;
            }
        };
        for (id, ip) in reported.iter().chain(during.iter()) {
            if !rows.iter().any(|r| &r.client == id && r.ip == *ip) {
                out.fail(
                    format!("{}:{}:file-held-by-another-connection", self.id, if self.id == "C10" { "no-record-for-an-advertised-lease" } else { "acknowledged-lease-lost" }),
                    format!(
                        "client {:02x?} was reported {} ({}) but the reopened database has no such row; the pool spent {:.1} s on the allocations made while the file was held; rows: {:?}",
                        id,
                        ip,
                        if during.iter().any(|(d, _)| d == id) { format!("while a {} held the file", if c.holder == 0 { "second writer" } else { "reader" }) } else { "before the file was held".to_string() },
                        waited.as_secs_f64(),
                        rows.iter().map(|r| (r.ip, r.client.clone())).collect::<Vec<_>>()
                    ),
                );
                break;
            }
        }
        cleanup(&path);
        out
    }
}

pub fn run_c18_locked(ctx: &Ctx) {
    let id: &'static str = if ctx.id == "C10" { "C10" } else { "C18" };
    let cases = vec![LockedCase { holder: 0, before: 2 }, LockedCase { holder: 1, before: 2 }, LockedCase { holder: 0, before: 0 }, LockedCase { holder: 1, before: 0 }];
    // the cases mostly wait for SQLite's busy timeout: side by side
    let outs: Vec<(LockedCase, Outcome)> = std::thread::scope(|s| {
        let hs: Vec<_> = cases.iter().map(|c| s.spawn(move || (c.clone(), exec(&C18Locked { id }, c)))).collect();
        hs.into_iter().map(|h| h.join().unwrap()).collect()
    });
    for (case, out) in outs {
        ctx.record("file-held-by-another-connection", &case, &out);
        if let Some(f) = out.fail {
            ctx.violation("file-held-by-another-connection", &f, &case);
            return;
        }
    }
}

pub fn run_c18_big_stores(ctx: &Ctx) {
    let sizes: Vec<u32> = if ctx.tier == Tier::Quick { vec![1, 999, 1000, 1001, 1100, 2500] } else { vec![1, 255, 256, 999, 1000, 1001, 1024, 1100, 2500, 4097, 10000, 65537] };
    let mut cases = vec![];
    for (i, rows) in sizes.iter().enumerate() {
        for pct in [100u8, 90, 50, 0] {
            cases.push(BigStoreCase { rows: *rows, expired_pct: pct, seed: (ctx.seed as u32).wrapping_add(i as u32 * 4 + pct as u32) });
        }
    }
    run_list(ctx, &C18BigStore, cases);
}

pub fn run_c18_func(ctx: &Ctx) {
    run_list(ctx, &C18Reopen, long_lived_histories());
    if !ctx.violations.lock().unwrap().is_empty() {
        return;
    }
    run_c18_big_stores(ctx);
    if !ctx.violations.lock().unwrap().is_empty() {
        return;
    }
    run_c18_locked(ctx);
    if !ctx.violations.lock().unwrap().is_empty() {
        return;
    }
    let n = ctx.tier.pick(6000u64, 100_000u64);
    run_prop(ctx, &C18Reopen, || history_strategy(profile_for("C18", ctx.tier, true)), n, workers());
    let n2 = ctx.tier.pick(1500u64, 30_000u64);
    run_prop(ctx, &C18OldSchema, || olddb_strategy(ctx.tier.pick(40, 200)), n2, workers());
}

/// C20, the clock moving by itself: leases of 1..3 s are written through the pool's own
/// allocation call, then nothing is written any more while real time carries each of them
/// over its expiry; every 300 ms the gauges are read and compared with the count of listed rows
/// on either side of the clock (samples that straddle a change of second are skipped).
#[derive(Clone, Debug, Serialize, Deserialize, PartialEq)]
pub struct RealTimeCase {
    pub lease_secs: Vec<u8>,
    pub file_backed: bool,
}

pub struct C20RealTime;

impl Prop for C20RealTime {
    type Case = RealTimeCase;
    fn sub(&self) -> &'static str {
        "gauges-in-real-time"
    }
    fn check(&self, c: &RealTimeCase) -> Outcome {
        let mut out = Outcome::default();
        let path = scratch_path("c20rt");
        let mut pool = match if c.file_backed { erbium::dhcp::pool::Pool::verif_open(&path) } else { erbium::dhcp::pool::Pool::new_in_memory() } {
            Ok(p) => p,
            Err(e) => {
                out.fail("rig-error", e.to_string());
                return out;
            }
        };
        let addrs: erbium::dhcp::pool::PoolAddresses = (1..=c.lease_secs.len() as u8 + 2).map(|i| Ipv4Addr::new(10, 9, 1, i)).collect();
        for (i, secs) in c.lease_secs.iter().enumerate() {
            let d = std::time::Duration::from_secs((*secs).clamp(1, 5) as u64);
            if let Err(e) = pool.allocate_address(&[0xcc, i as u8], None, &addrs, d, d, &[53, 1, 1]) {
                out.fail("rig-error", format!("allocate: {}", e));
                return out;
            }
        }
        let longest = c.lease_secs.iter().copied().max().unwrap_or(1).clamp(1, 5) as u64;
        let t0 = std::time::Instant::now();
        let mut seen_active = false;
        let mut seen_expired_after_active = false;
        while t0.elapsed() < std::time::Duration::from_millis(longest * 1000 + 1600) {
            let w = wall_now() as i64;
            let rows = listing_of(&mut pool);
            let gauges = pool.get_pool_metrics();
            if wall_now() as i64 == w {
                match (rows, gauges) {
                    (Ok(rows), Ok((active, expired))) => {
                        let want_active = rows.iter().filter(|r| r.expire as i64 > w).count() as u32;
                        let want_expired = rows.len() as u32 - want_active;
                        if want_active > 0 {
                            seen_active = true;
                        } else if seen_active {
                            seen_expired_after_active = true;
                        }
                        if (active, expired) != (want_active, want_expired) {
                            out.nontrivial = true;
                            out.fail(
                                "C20:gauge-mismatch:clock-moved-without-a-write",
                                format!(
                                    "{:.1} s after the last write: gauges say {} active / {} expired, the listing has {} / {} at second {} (rows expire at {:?})",
                                    t0.elapsed().as_secs_f64(),
                                    active,
                                    expired,
                                    want_active,
                                    want_expired,
                                    w,
                                    rows.iter().map(|r| r.expire).collect::<Vec<_>>()
                                ),
                            );
                            break;
                        }
                    }
                    (Err(e), _) => {
                        out.fail("C20:listing-error", e);
                        break;
                    }
                    (_, Err(e)) => {
                        out.fail("C20:gauges-error", e.to_string());
                        break;
                    }
                }
            }
            std::thread::sleep(std::time::Duration::from_millis(300));
        }
        // non-trivial: a lease was seen running and, later, run out, with no write in between
        if seen_expired_after_active {
            out.nontrivial = true;
            out.class("lease-ran-out-while-nothing-was-written");
        }
        drop(pool);
        let _ = std::fs::remove_file(&path);
        let _ = std::fs::remove_file(format!("{}-journal", path.display()));
        out
    }
}

pub fn run_c20_real_time(ctx: &Ctx) {
    let mut cases = vec![
        RealTimeCase { lease_secs: vec![1, 2, 3], file_backed: true },
        RealTimeCase { lease_secs: vec![2], file_backed: false },
    ];
    if ctx.tier == Tier::Thorough {
        for k in 0..6u8 {
            cases.push(RealTimeCase { lease_secs: (0..=k).map(|i| 1 + (i * 2 + k) % 4).collect(), file_backed: k % 2 == 0 });
        }
    }
    // the cases only wait: run them side by side
    let outs: Vec<(RealTimeCase, Outcome)> = std::thread::scope(|s| {
        let hs: Vec<_> = cases.iter().map(|c| s.spawn(move || (c.clone(), C20RealTime.check(c)))).collect();
        hs.into_iter().map(|h| h.join().unwrap()).collect()
    });
    for (case, out) in outs {
        ctx.record("gauges-in-real-time", &case, &out);
        if let Some(f) = out.fail {
            ctx.violation("gauges-in-real-time", &f, &case);
            return;
        }
    }
}

pub fn run_c20_func(ctx: &Ctx) {
    run_c20_real_time(ctx);
    if !ctx.violations.lock().unwrap().is_empty() {
        return;
    }
    let n = ctx.tier.pick(16_000u64, 400_000u64);
    run_prop(ctx, &C20Prop, || history_strategy(profile_for("C20", ctx.tier, false)), n * 3 / 4, workers());
    // file backed: the listing is compared with the rows our own connection reads from the file
    run_prop(ctx, &C20Prop, || history_strategy(profile_for("C20", ctx.tier, true)), n / 8, workers());
    // file written by an older release (no version row / version 0 / version 1 with NULL blobs)
    let mut p = profile_for("C20", ctx.tier, true);
    p.max_ops = ctx.tier.pick(16, 40);
    run_prop(ctx, &C20Upgrade, || upg_strategy(p), n / 8, workers());
}
