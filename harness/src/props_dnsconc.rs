//! C07: exactly one reply per query, its own, from the address it was sent to, under upstream
//! delays, reordering, duplication, loss, id mismatch and truncation; all listener families.

use crate::engine::*;
use crate::rfc1035 as dns;
use crate::wire_dns::*;
use proptest::prelude::*;
use serde::{Deserialize, Serialize};
use std::net::{IpAddr, Ipv4Addr, Ipv6Addr, SocketAddr};
use std::time::Duration;

#[derive(Clone, Debug, Serialize, Deserialize, PartialEq)]
pub struct QSpec {
    pub tcp: bool,
    /// 0: one write; 1: first octet alone; 2: first three octets one by one
    pub split: u8,
    pub addr: u8,
    pub delay_ms: u16,
    pub dup: u8,
    pub wrong_id: bool,
    pub tc: bool,
    /// bit i: the i-th UDP transmission towards the upstream is lost
    pub drop_mask: u8,
    pub drop_all: bool,
    /// the upstream writes its TCP reply in two pieces, 30 ms apart: 0 = in one piece, 1 = after
    /// the first octet of the length prefix, 2 = after the length prefix, 3 = in mid-message
    #[serde(default)]
    pub reply_split: u8,
    /// pause between the two pieces (ms)
    #[serde(default = "default_gap")]
    pub reply_gap_ms: u16,
    /// the client sends this query that long after the start of the case (ms)
    #[serde(default)]
    pub send_after_ms: u16,
    /// ... plus this many whole seconds (only the thorough tier's idle scenario uses it)
    #[serde(default)]
    pub send_after_s: u16,
    /// after its TCP reply the upstream writes the first k octets of a duplicate and closes the
    /// connection (0: no)
    #[serde(default)]
    pub partial_dup_close: u8,
}

fn default_gap() -> u16 {
    30
}

#[derive(Clone, Debug, Serialize, Deserialize, PartialEq)]
pub struct ConcCase {
    /// 0: 127.0.0.1:p  1: 0.0.0.0:p  2: [::1]:p  3: [::]:p
    pub listener: u8,
    pub queries: Vec<QSpec>,
    /// the scripted upstream closes a TCP connection on which nothing arrived for this long
    /// (0: practically never)
    #[serde(default)]
    pub upstream_idle_close_ms: u32,
}

const V4_DSTS: [Ipv4Addr; 3] = [Ipv4Addr::new(127, 0, 0, 1), Ipv4Addr::new(127, 0, 0, 2), Ipv4Addr::new(127, 9, 8, 7)];

fn v6_dsts() -> [Ipv6Addr; 3] {
    [Ipv6Addr::LOCALHOST, "fd00:e::1".parse().unwrap(), "fd00:e::2".parse().unwrap()]
}

pub fn qspec_strategy(max_drops: u32, allow_all_lost: bool) -> impl Strategy<Value = QSpec> {
    (
        (proptest::bool::weighted(0.3), 0u8..3, any::<u8>()),
        // >= 2500 ms makes an *earlier* transmission answer after two retransmissions went out
        prop_oneof![8 => Just(0u16), 6 => 0u16..400, 2 => 400u16..1500, 1 => 2500u16..4000],
        prop_oneof![6 => Just(0u8), 1 => Just(1u8), 1 => Just(2u8)],
        proptest::bool::weighted(0.08),
        proptest::bool::weighted(0.08),
        (0u8..32).prop_filter("too many drops", move |m| m.count_ones() <= max_drops),
        proptest::bool::weighted(if allow_all_lost { 0.03 } else { 0.000001 }),
        (
            prop_oneof![6 => Just(0u8), 1 => Just(1u8), 1 => Just(2u8), 1 => Just(3u8)],
            prop_oneof![3 => Just(30u16), 1 => 1u16..200],
            prop_oneof![3 => Just(0u16), 2 => 0u16..300],
        ),
    )
        .prop_map(|(t, delay_ms, dup, wrong_id, tc, drop_mask, drop_all, (reply_split, reply_gap_ms, send_after_ms))| QSpec {
            tcp: t.0,
            split: t.1,
            addr: t.2,
            delay_ms,
            dup,
            wrong_id,
            tc,
            // loss is a UDP affair; TCP-path queries are exercised with delay/reordering
            drop_mask: if t.0 { 0 } else { drop_mask },
            drop_all: drop_all && !t.0,
            reply_split,
            reply_gap_ms,
            send_after_ms,
            send_after_s: 0,
            partial_dup_close: 0,
        })
}

pub fn conc_case_strategy(max_q: usize, max_drops: u32, allow_all_lost: bool) -> impl Strategy<Value = ConcCase> {
    (0u8..4, proptest::collection::vec(qspec_strategy(max_drops, allow_all_lost), 1..=max_q)).prop_map(|(listener, queries)| ConcCase { listener, queries, upstream_idle_close_ms: 0 })
}

pub struct C07Conc {
    pub up: Upstream,
}

struct QResult {
    question: dns::Question,
    dst: SocketAddr,
    got: Vec<Got>,
    err: Option<String>,
}

impl C07Conc {
    pub fn new() -> Result<C07Conc, String> {
        Ok(C07Conc {
            up: Upstream::start(IpAddr::V4(Ipv4Addr::new(127, 0, 1, 1)))?,
        })
    }

    fn run_case(&self, c: &ConcCase) -> Outcome {
        self.up.state.tcp_idle_close_ms.store(c.upstream_idle_close_ms as u64, std::sync::atomic::Ordering::Relaxed);
        let out = self.run_case_inner(c);
        self.up.state.tcp_idle_close_ms.store(0, std::sync::atomic::Ordering::Relaxed);
        out
    }

    fn run_case_inner(&self, c: &ConcCase) -> Outcome {
        let mut out = Outcome::default();
        let listen_ip: IpAddr = match c.listener {
            0 => IpAddr::V4(Ipv4Addr::LOCALHOST),
            1 => IpAddr::V4(Ipv4Addr::UNSPECIFIED),
            2 => IpAddr::V6(Ipv6Addr::LOCALHOST),
            _ => IpAddr::V6(Ipv6Addr::UNSPECIFIED),
        };
        out.class(match c.listener {
            0 => "listener-127.0.0.1",
            1 => "listener-0.0.0.0",
            2 => "listener-::1",
            _ => "listener-::",
        });
        let port = crate::netns::free_port(listen_ip);
        let listener = SocketAddr::new(listen_ip, port);
        let routes = "dns-routes:\n  - domain-suffixes: [\"\"]\n    type: forward\n    dns-servers: [127.0.1.1]\n";
        let conf = dns_config(&[listener], routes, None);
        let probe = SocketAddr::new(
            match c.listener {
                0 | 1 => IpAddr::V4(Ipv4Addr::LOCALHOST),
                _ => IpAddr::V6(Ipv6Addr::LOCALHOST),
            },
            port,
        );
        let lvl = std::env::var("VCHECK_SERVER_LOG").unwrap_or_else(|_| "warn".to_string());
        let server = match DnsServer::start(&conf, probe, &lvl) {
            Ok(s) => s,
            Err(e) => {
                out.fail("rig-error", e);
                return out;
            }
        };
        // the server's own back-off (0.8 s, then x1.5..2.5 per retry, at most 4 transmissions) bounds
        // the time to a SERVFAIL at well under 60 s
        // replies written in two pieces are written one after the other by the scripted upstream
        // (30 ms each): give them time
        let slow = c.queries.iter().any(|q| q.drop_all || q.drop_mask.count_ones() >= 3 || q.delay_ms >= 2000)
            || c.queries.iter().filter(|q| q.reply_split > 0).count() > 8;
        let wait = if slow { Duration::from_secs(60) } else { Duration::from_secs(12) };
        let results: Vec<QResult> = std::thread::scope(|s| {
            let hs: Vec<_> = c
                .queries
                .iter()
                .enumerate()
                .map(|(i, q)| {
                    let up = &self.up;
                    s.spawn(move || {
                        let name = vec![unique_label(), format!("q{}", i).into_bytes(), b"conc".to_vec(), b"test".to_vec()];
                        let question = dns::Question {
                            name,
                            qtype: 1,
                            qclass: 1,
                        };
                        up.state.set(
                            qkey(&question),
                            Script {
                                delay_ms: q.delay_ms as u64,
                                drop_mask: q.drop_mask as u32,
                                drop_all: q.drop_all,
                                dup: q.dup,
                                wrong_id_first: q.wrong_id,
                                tc_udp: q.tc,
                                tcp_partial_dup_then_close: if q.partial_dup_close > 0 { Some(q.partial_dup_close as usize) } else { None },
                                tcp_split: match q.reply_split {
                                    0 => None,
                                    1 => Some((1, q.reply_gap_ms as u64)),
                                    2 => Some((2, q.reply_gap_ms as u64)),
                                    _ => Some((20, q.reply_gap_ms as u64)),
                                },
                                ..Default::default()
                            },
                        );
                        let dst_ip: IpAddr = match c.listener {
                            0 => IpAddr::V4(Ipv4Addr::LOCALHOST),
                            1 => IpAddr::V4(V4_DSTS[q.addr as usize % 3]),
                            2 => IpAddr::V6(Ipv6Addr::LOCALHOST),
                            _ => {
                                if q.addr % 2 == 0 {
                                    IpAddr::V6(v6_dsts()[(q.addr / 2) as usize % 3])
                                } else {
                                    IpAddr::V4(V4_DSTS[(q.addr / 2) as usize % 3])
                                }
                            }
                        };
                        let dst = SocketAddr::new(dst_ip, port);
                        let src: IpAddr = match dst_ip {
                            IpAddr::V4(_) => IpAddr::V4(Ipv4Addr::new(127, 0, 0, 100 + (q.addr % 50))),
                            IpAddr::V6(_) => IpAddr::V6(Ipv6Addr::LOCALHOST),
                        };
                        let qm = dns::query(0x7000 + i as u16, &question.name, 1, 1, true, None);
                        let bytes = dns::encode(&qm, dns::Compress::Off);
                        if q.send_after_ms > 0 || q.send_after_s > 0 {
                            std::thread::sleep(Duration::from_millis(q.send_after_ms as u64 + 1000 * q.send_after_s as u64));
                        }
                        let r = if q.tcp {
                            let splits: Vec<usize> = match q.split {
                                0 => vec![],
                                1 => vec![1],
                                _ => vec![1, 1, 1],
                            };
                            tcp_exchange_linger(None, dst, &bytes, &splits, wait, Duration::from_millis(1500))
                        } else {
                            udp_exchange(src, dst, &bytes, wait, Duration::from_millis(1500))
                        };
                        match r {
                            Ok(got) => QResult {
                                question,
                                dst,
                                got,
                                err: None,
                            },
                            Err(e) => QResult {
                                question,
                                dst,
                                got: vec![],
                                err: Some(e),
                            },
                        }
                    })
                })
                .collect();
            hs.into_iter().map(|h| h.join().unwrap()).collect()
        });
        // ---- oracle
        for (i, (r, q)) in results.iter().zip(c.queries.iter()).enumerate() {
            let desc = format!(
                "query {} ({} to {}, upstream script delay={}ms dup={} wrong_id={} tc={} drops={:#07b}{} reply_split={})",
                i,
                if q.tcp { format!("TCP split {}", q.split) } else { "UDP".into() },
                r.dst,
                q.delay_ms,
                q.dup,
                q.wrong_id,
                q.tc,
                q.drop_mask,
                if q.drop_all { " all lost" } else { "" },
                q.reply_split
            );
            if let Some(e) = &r.err {
                out.fail("rig-error", format!("{}: {}", desc, e));
                return out;
            }
            let key = qkey(&r.question);
            let seen = self.up.state.seen_for(&key);
            let udp_tx = seen.iter().filter(|s| !s.tcp).count();
            let disturbed = q.drop_mask != 0 || q.drop_all || q.dup > 0 || q.wrong_id || q.tc || q.delay_ms > 0;
            if disturbed {
                out.nontrivial = true;
            }
            if q.tcp && q.split > 0 {
                out.class("tcp-request-in-several-segments");
                out.nontrivial = true;
            }
            if q.wrong_id || q.tc {
                out.class("upstream-forces-tcp-retry");
            }
            if (q.tcp || q.wrong_id || q.tc) && q.reply_split > 0 {
                out.class("upstream-tcp-reply-in-two-segments");
                out.nontrivial = true;
            }
            if q.drop_mask != 0 {
                out.class("upstream-loss");
            }
            if r.got.is_empty() {
                let fam = match c.listener {
                    0 | 1 => "ipv4-listener",
                    _ => "ipv6-listener",
                };
                let kind = if q.tcp {
                    if q.split > 0 {
                        "tcp-split"
                    } else {
                        "tcp"
                    }
                } else {
                    "udp"
                };
                out.fail(
                    format!("C07:no-response:{}:{}{}", fam, kind, if q.drop_all { ":upstream-silent" } else { "" }),
                    format!(
                        "{}: no response within {:?}; upstream saw {} transmissions ({} answered); server panics: {:?}; server log tail: {}",
                        desc,
                        wait,
                        seen.len(),
                        seen.iter().filter(|s| s.answered).count(),
                        server.panics(),
                        {
                            let t = server.stderr_tail();
                            let n = t.len().saturating_sub(700);
                            let mut n = n;
                            while !t.is_char_boundary(n) {
                                n += 1;
                            }
                            t[n..].replace('\n', " | ")
                        }
                    ),
                );
                return out;
            }
            if r.got.len() > 1 {
                out.fail("C07:duplicate-response", format!("{}: {} responses", desc, r.got.len()));
                return out;
            }
            let g = &r.got[0];
            if g.bytes.is_empty() {
                out.fail("C07:tcp-frame-incomplete", desc);
                return out;
            }
            if !q.tcp && g.from != r.dst {
                out.fail(
                    "C07:response-from-other-address",
                    format!("{}: response came from {}", desc, g.from),
                );
                return out;
            }
            let m = match dns::decode(&g.bytes) {
                Ok((m, _)) => m,
                Err(e) => {
                    out.fail("C07:response-undecodable", format!("{}: {}", desc, e));
                    return out;
                }
            };
            if m.header.id != 0x7000 + i as u16 || m.questions != vec![r.question.clone()] {
                out.fail("C07:response-for-another-query", format!("{}: id {:#x} question {:?}", desc, m.header.id, m.questions));
                return out;
            }
            if udp_tx > 5 {
                out.fail("C07:too-many-transmissions", format!("{}: {} UDP transmissions", desc, udp_tx));
                return out;
            }
            let answered = seen.iter().any(|s| s.answered);
            if seen.is_empty() && !q.drop_all && m.full_rcode() != 0 {
                // the name is unique to this query, the upstream is up and was never asked
                out.fail(
                    "C07:never-forwarded",
                    format!("{}: rcode {} although the upstream was never asked; EDE {:?}; server panics: {:?}", desc, m.full_rcode(), ede_texts(&m), server.panics()),
                );
                return out;
            }
            if q.drop_all || !answered {
                out.class("upstream-silent");
                if m.full_rcode() != 2 {
                    out.fail("C07:upstream-silent-not-servfail", format!("{}: rcode {}", desc, m.full_rcode()));
                    return out;
                }
            } else {
                let want = answer_for(&r.question);
                let ok = m.full_rcode() == 0 && m.answer.len() == 1 && m.answer[0].rdata == want.rdata;
                // an upstream that takes 5 s or more may be given up on: SERVFAIL or the answer
                let gave_up = q.delay_ms >= 5000 && m.full_rcode() == 2 && m.answer.is_empty();
                if gave_up {
                    out.class("gave-up-on-an-upstream-slower-than-5s");
                }
                if !ok && !gave_up {
                    out.fail(
                        "C07:not-its-own-answer",
                        format!(
                            "{}: rcode {} answers {:?} (expected {:?}); upstream saw {} transmissions; EDE {:?}; server panics: {:?}",
                            desc,
                            m.full_rcode(),
                            m.answer,
                            want.rdata,
                            seen.len(),
                            ede_texts(&m),
                            server.panics()
                        ),
                    );
                    return out;
                }
            }
        }
        let panics = server.panics();
        if let Some(p) = panics.first() {
            let text = server.stderr_text();
            let msg = text.lines().skip_while(|l| l != p).nth(1).unwrap_or("").to_string();
            let loc = p.split("panicked at ").nth(1).unwrap_or("");
            let file = loc.split(':').next().unwrap_or("").trim_start_matches("crates/");
            out.fail(panic_sig(&msg, &format!("{}:0", file)), format!("server task panicked: {} {}", p.trim(), msg));
        }
        out
    }
}

fn ede_texts(m: &dns::Message) -> Option<Vec<String>> {
    m.edns()
        .and_then(|e| e.ok())
        .map(|e| e.options.iter().filter(|o| o.0 == 15).map(|o| String::from_utf8_lossy(&o.1[2.min(o.1.len())..]).to_string()).collect::<Vec<_>>())
}

/// One TCP client that is slow to finish its query must not hold up the others.  Client A
/// connects and writes the first `cut` octets of its framed query, then waits; clients B (TCP,
/// complete queries, on their own connections) and C (UDP) ask meanwhile and must be answered
/// *while A is still pending*; only then (or after 10 s) A writes the rest and must get its own
/// answer too.  Every message is well-formed; the only thing unusual is the order of arrival.
#[derive(Clone, Debug, Serialize, Deserialize, PartialEq)]
pub struct SlowWriterCase {
    pub listener: u8,
    /// octets of A's frame (2-octet length prefix + query) written before it pauses; 0: A
    /// connects and writes nothing yet
    pub cut: u8,
    /// number of B clients
    pub others: u8,
}

impl C07Conc {
    pub fn run_slow_writer(&self, c: &SlowWriterCase) -> Outcome {
        use std::io::{Read, Write};
        use std::sync::atomic::{AtomicBool, AtomicUsize, Ordering};
        let mut out = Outcome::default();
        out.nontrivial = true;
        out.class("one-tcp-client-pauses-in-mid-query");
        let listen_ip: IpAddr = match c.listener {
            0 => IpAddr::V4(Ipv4Addr::LOCALHOST),
            1 => IpAddr::V4(Ipv4Addr::UNSPECIFIED),
            2 => IpAddr::V6(Ipv6Addr::LOCALHOST),
            _ => IpAddr::V6(Ipv6Addr::UNSPECIFIED),
        };
        let port = crate::netns::free_port(listen_ip);
        let routes = "dns-routes:\n  - domain-suffixes: [\"\"]\n    type: forward\n    dns-servers: [127.0.1.1]\n";
        let conf = dns_config(&[SocketAddr::new(listen_ip, port)], routes, None);
        let dst = SocketAddr::new(
            match c.listener {
                0 | 1 => IpAddr::V4(Ipv4Addr::LOCALHOST),
                _ => IpAddr::V6(Ipv6Addr::LOCALHOST),
            },
            port,
        );
        let server = match DnsServer::start(&conf, dst, "warn") {
            Ok(s) => s,
            Err(e) => {
                out.fail("rig-error", e);
                return out;
            }
        };
        let question = |tag: &str| dns::Question {
            name: vec![unique_label(), tag.as_bytes().to_vec(), b"slow".to_vec(), b"test".to_vec()],
            qtype: 1,
            qclass: 1,
        };
        let frame = |id: u16, q: &dns::Question| -> Vec<u8> {
            let b = dns::encode(&dns::query(id, &q.name, 1, 1, true, None), dns::Compress::Off);
            let mut f = (b.len() as u16).to_be_bytes().to_vec();
            f.extend_from_slice(&b);
            f
        };
        let read_reply = |s: &mut std::net::TcpStream, wait: Duration| -> Option<Vec<u8>> {
            s.set_read_timeout(Some(wait)).ok()?;
            let mut lb = [0u8; 2];
            s.read_exact(&mut lb).ok()?;
            let mut b = vec![0u8; u16::from_be_bytes(lb) as usize];
            s.read_exact(&mut b).ok()?;
            Some(b)
        };
        let own_answer = |bytes: &[u8], id: u16, q: &dns::Question| -> Result<(), String> {
            let (m, _) = dns::decode(bytes).map_err(|e| format!("undecodable: {}", e))?;
            let want = answer_for(q);
            if m.header.id == id && m.questions == vec![q.clone()] && m.full_rcode() == 0 && m.answer.len() == 1 && m.answer[0].rdata == want.rdata {
                Ok(())
            } else {
                Err(format!("id {:#x} rcode {} question {:?} answers {:?}", m.header.id, m.full_rcode(), m.questions, m.answer))
            }
        };
        // A: connect and write the first part
        let qa = question("a");
        let fa = frame(0x7a00, &qa);
        let mut a = match std::net::TcpStream::connect_timeout(&dst, Duration::from_secs(3)) {
            Ok(s) => s,
            Err(e) => {
                out.fail("rig-error", format!("connect: {}", e));
                return out;
            }
        };
        a.set_nodelay(true).ok();
        let cut = (c.cut as usize).min(fa.len() - 1);
        if cut > 0 && a.write_all(&fa[..cut]).is_err() {
            out.fail("rig-error", "write");
            return out;
        }
        std::thread::sleep(Duration::from_millis(150));
        // B..: complete queries on their own connections, and one UDP query, while A is pending
        let a_completed = AtomicBool::new(false);
        let answered_while_pending = AtomicUsize::new(0);
        let n = c.others.max(1) as usize;
        let results: Vec<Result<bool, String>> = std::thread::scope(|sc| {
            let hs: Vec<_> = (0..=n)
                .map(|i| {
                    let (a_completed, answered_while_pending) = (&a_completed, &answered_while_pending);
                    let q = question(&format!("b{}", i));
                    let f = frame(0x7b00 + i as u16, &q);
                    sc.spawn(move || -> Result<bool, String> {
                        let bytes = if i == n {
                            // the UDP client
                            let got = udp_exchange(dst.ip(), dst, &f[2..], Duration::from_secs(25), Duration::from_millis(10)).map_err(|e| e)?;
                            got.first().map(|g| g.bytes.clone())
                        } else {
                            let mut s = std::net::TcpStream::connect_timeout(&dst, Duration::from_secs(3)).map_err(|e| format!("connect: {}", e))?;
                            s.set_nodelay(true).ok();
                            s.write_all(&f).map_err(|e| e.to_string())?;
                            read_reply(&mut s, Duration::from_secs(25))
                        };
                        let while_pending = !a_completed.load(Ordering::SeqCst);
                        match bytes {
                            None => Err(format!("{} client {} got no response at all", if i == n { "UDP" } else { "TCP" }, i)),
                            Some(b) => {
                                own_answer(&b, 0x7b00 + i as u16, &q).map_err(|e| format!("client {}: not its own answer: {}", i, e))?;
                                if while_pending {
                                    answered_while_pending.fetch_add(1, Ordering::SeqCst);
                                }
                                Ok(while_pending)
                            }
                        }
                    })
                })
                .collect();
            // A waits until all the others were answered, at most 10 s, then completes its query
            let t0 = std::time::Instant::now();
            while answered_while_pending.load(Ordering::SeqCst) <= n && t0.elapsed() < Duration::from_secs(10) {
                std::thread::sleep(Duration::from_millis(20));
            }
            a_completed.store(true, Ordering::SeqCst);
            let _ = a.write_all(&fa[cut..]);
            hs.into_iter().map(|h| h.join().unwrap()).collect()
        });
        for (i, r) in results.iter().enumerate() {
            match r {
                Err(e) => {
                    out.fail(if e.contains("not its own") { "C07:not-its-own-answer" } else { "C07:no-response:behind-a-slow-tcp-client" }, e.clone());
                    return out;
                }
                Ok(false) => {
                    out.fail(
                        "C07:response-held-back-by-another-connection",
                        format!(
                            "client {} ({}) sent a complete query while another TCP client had written {} of the {} octets of its own; it was answered only after that client completed its query, 10 s later",
                            i,
                            if i == n { "UDP" } else { "TCP" },
                            cut,
                            fa.len()
                        ),
                    );
                    return out;
                }
                Ok(true) => {}
            }
        }
        match read_reply(&mut a, Duration::from_secs(12)) {
            None => out.fail("C07:no-response:slow-tcp-client", format!("the client that paused after {} octets got no response after completing its query", cut)),
            Some(b) => {
                if let Err(e) = own_answer(&b, 0x7a00, &qa) {
                    out.fail("C07:not-its-own-answer", format!("slow client: {}", e));
                }
            }
        }
        if out.fail.is_none() {
            if let Some(p) = server.panics().first() {
                out.fail("server-panic", p.clone());
            }
        }
        out
    }
}

/// An empty UDP datagram (legal, anyone can send one) right ahead of a query, with nothing
/// after it: the query must be answered all the same.  `empties` empty datagrams and then the
/// query are sent back to back from one socket to a fresh server, `repeat` times with pauses
/// of 700 ms in which nothing else reaches that socket.
#[derive(Clone, Debug, Serialize, Deserialize, PartialEq)]
pub struct EmptyAheadCase {
    pub listener: u8,
    pub empties: u8,
    pub repeat: u8,
}

impl C07Conc {
    pub fn run_empty_ahead(&self, c: &EmptyAheadCase) -> Outcome {
        let mut out = Outcome::default();
        out.nontrivial = true;
        out.class("empty-datagram-right-ahead-of-a-query");
        let listen_ip: IpAddr = match c.listener {
            0 => IpAddr::V4(Ipv4Addr::LOCALHOST),
            1 => IpAddr::V4(Ipv4Addr::UNSPECIFIED),
            2 => IpAddr::V6(Ipv6Addr::LOCALHOST),
            _ => IpAddr::V6(Ipv6Addr::UNSPECIFIED),
        };
        let port = crate::netns::free_port(listen_ip);
        let routes = "dns-routes:\n  - domain-suffixes: [\"\"]\n    type: forward\n    dns-servers: [127.0.1.1]\n";
        let conf = dns_config(&[SocketAddr::new(listen_ip, port)], routes, None);
        let dst = SocketAddr::new(
            match c.listener {
                0 | 1 => IpAddr::V4(Ipv4Addr::LOCALHOST),
                _ => IpAddr::V6(Ipv6Addr::LOCALHOST),
            },
            port,
        );
        let server = match DnsServer::start(&conf, dst, "warn") {
            Ok(s) => s,
            Err(e) => {
                out.fail("rig-error", e);
                return out;
            }
        };
        let sock = match std::net::UdpSocket::bind((dst.ip(), 0)) {
            Ok(s) => s,
            Err(e) => {
                out.fail("rig-error", e.to_string());
                return out;
            }
        };
        let mut buf = vec![0u8; 4096];
        for k in 0..c.repeat.max(1) {
            let question = dns::Question {
                name: vec![unique_label(), format!("e{}", k).into_bytes(), b"empty".to_vec(), b"test".to_vec()],
                qtype: 1,
                qclass: 1,
            };
            let id = 0x7c00 + k as u16;
            let q = dns::encode(&dns::query(id, &question.name, 1, 1, true, None), dns::Compress::Off);
            for _ in 0..c.empties {
                let _ = sock.send_to(&[], dst);
            }
            let _ = sock.send_to(&q, dst);
            // nothing else is sent to the server while this query waits for its answer
            sock.set_read_timeout(Some(Duration::from_secs(12))).ok();
            match sock.recv_from(&mut buf) {
                Ok((l, _)) => match dns::decode(&buf[..l]) {
                    Ok((m, _)) if m.header.id == id && m.questions == vec![question.clone()] && m.full_rcode() == 0 && m.answer.len() == 1 && m.answer[0].rdata == answer_for(&question).rdata => {}
                    other => {
                        out.fail("C07:not-its-own-answer", format!("query {} sent right behind {} empty datagram(s): {:?}", k, c.empties, other.map(|(m, _)| (m.header.id, m.full_rcode(), m.answer.len()))));
                        return out;
                    }
                },
                Err(_) => {
                    out.fail(
                        "C07:no-response:behind-an-empty-datagram",
                        format!(
                            "query {} was sent right behind {} empty UDP datagram(s) and nothing after it: no response within 12 s (upstream saw {} transmissions); server panics: {:?}",
                            k,
                            c.empties,
                            self.up.state.seen_for(&qkey(&question)).len(),
                            server.panics()
                        ),
                    );
                    return out;
                }
            }
            std::thread::sleep(Duration::from_millis(700));
        }
        if let Some(p) = server.panics().first() {
            out.fail("server-panic", p.clone());
        }
        out
    }
}

impl WireProp for C07Conc {
    type Case = ConcCase;
    fn sub(&self) -> &'static str {
        "concurrent"
    }
    fn exec_batch(&self, cases: &[ConcCase]) -> Vec<Outcome> {
        cases.iter().map(|c| self.run_case(c)).collect()
    }
}

pub fn run_c07(ctx: &Ctx) {
    let prop = match C07Conc::new() {
        Ok(p) => p,
        Err(e) => {
            ctx.set_inconclusive(format!("wire rig unavailable: {}", e));
            return;
        }
    };
    // deterministic part: every listener family x {UDP, TCP, TCP split} without disturbance
    let plain = |tcp: bool, split: u8, addr: u8| QSpec {
        tcp,
        split,
        addr,
        delay_ms: 0,
        dup: 0,
        wrong_id: false,
        tc: false,
        drop_mask: 0,
        drop_all: false,
        reply_split: 0,
        reply_gap_ms: 30,
        send_after_ms: 0,
        send_after_s: 0,
        partial_dup_close: 0,
    };
    for listener in 0..4u8 {
        let case = ConcCase {
            listener,
            queries: vec![
                plain(false, 0, 0),
                plain(false, 0, 1),
                plain(false, 0, 2),
                plain(false, 0, 3),
                plain(true, 0, 0),
                plain(true, 1, 1),
                plain(true, 2, 2),
                // the first transmission is answered only after two retransmissions went out
                QSpec { delay_ms: 3200, ..plain(false, 0, 1) },
                plain(false, 0, 2),
            ],
            upstream_idle_close_ms: 0,
        };
        let out = exec_one(&prop, &case);
        ctx.record(prop.sub(), &case, &out);
        if let Some(f) = out.fail {
            if ctx.is_known(&f.sig) {
                ctx.known_hit(&f.sig);
            } else {
                ctx.violation(prop.sub(), &f, &case);
                return;
            }
        }
    }
    // drop patterns: quick = all with <= 2 drops, thorough = all 32 (enumerated), one query each,
    // run concurrently in one case per listener family
    let max_drops = ctx.tier.pick(2, 5);
    let masks: Vec<u8> = (0u8..32).filter(|m| m.count_ones() <= max_drops).collect();
    for listener in [3u8, 2u8] {
        let mut queries: Vec<QSpec> = masks
            .iter()
            .map(|m| QSpec {
                drop_mask: *m,
                ..plain(false, 0, *m)
            })
            .collect();
        queries.push(QSpec {
            drop_all: true,
            ..plain(false, 0, 0)
        });
        let case = ConcCase { listener, queries, upstream_idle_close_ms: 0 };
        let out = exec_one(&prop, &case);
        ctx.record(prop.sub(), &case, &out);
        if let Some(f) = out.fail {
            if ctx.is_known(&f.sig) {
                ctx.known_hit(&f.sig);
            } else {
                ctx.violation(prop.sub(), &f, &case);
                return;
            }
        }
        if ctx.tier == Tier::Quick {
            break;
        }
    }
    // the upstream TCP connection under load (one connection per upstream, replies matched by
    // a 16-bit id): (a) 256 queries outstanding on it at the same time (half arrive over TCP,
    // half are pushed there by a truncated UDP answer; every answer is held back 1.2 s);
    // (b) 96 queries arriving over 0.6 s while every reply is written in two segments
    // the smallest such interleaving: a second query reaches the forwarder while the reply to
    // the first is half written (at each of the three cut points)
    for cut in 1..=3u8 {
        let case = ConcCase {
            listener: 3,
            queries: vec![
                QSpec { reply_split: cut, reply_gap_ms: 400, ..plain(true, 0, 0) },
                QSpec { send_after_ms: 150, ..plain(true, 0, 0) },
                QSpec { send_after_ms: 900, ..plain(true, 0, 0) },
            ],
            upstream_idle_close_ms: 0,
        };
        let out = exec_one(&prop, &case);
        ctx.record(prop.sub(), &case, &out);
        if let Some(f) = out.fail {
            if ctx.is_known(&f.sig) {
                ctx.known_hit(&f.sig);
            } else {
                ctx.violation(prop.sub(), &f, &case);
                return;
            }
        }
    }
    // the upstream dies in mid-frame with nobody waiting: after answering the first query it
    // writes the beginning of another frame (1, 2, 7 or 30 octets) and closes; the queries that
    // follow go over a new connection and must not inherit what was left of the old one
    for k in [1u8, 2, 7, 30] {
        let case = ConcCase {
            listener: 3,
            queries: vec![
                QSpec { partial_dup_close: k, ..plain(true, 0, 0) },
                QSpec { send_after_ms: 900, ..plain(true, 0, 0) },
                QSpec { send_after_ms: 1200, tc: true, ..plain(false, 0, 1) },
                QSpec { send_after_ms: 1500, ..plain(true, 1, 2) },
            ],
            upstream_idle_close_ms: 0,
        };
        let mut out = exec_one(&prop, &case);
        out.class("upstream-closes-in-mid-frame-with-nobody-waiting");
        ctx.record(prop.sub(), &case, &out);
        if let Some(f) = out.fail {
            if ctx.is_known(&f.sig) {
                ctx.known_hit(&f.sig);
            } else {
                ctx.violation(prop.sub(), &f, &case);
                return;
            }
        }
    }
    let rounds = ctx.tier.pick(2usize, 10usize);
    for r in 0..rounds {
        let listener = [3u8, 1u8][r % 2];
        let outstanding: Vec<QSpec> = (0..256usize)
            .map(|i| QSpec {
                delay_ms: 1200,
                tc: i % 2 == 1,
                ..plain(i % 2 == 0, 0, (i % 7) as u8)
            })
            .collect();
        let segmented: Vec<QSpec> = (0..96usize)
            .map(|i| QSpec {
                delay_ms: ((i * 37) % 600) as u16,
                tc: i % 3 == 1,
                reply_split: 1 + (i % 3) as u8,
                ..plain(i % 3 != 1, 0, (i % 5) as u8)
            })
            .collect();
        for queries in [outstanding, segmented] {
            let case = ConcCase { listener, queries, upstream_idle_close_ms: 0 };
            let out = exec_one(&prop, &case);
            ctx.record(prop.sub(), &case, &out);
            if let Some(f) = out.fail {
                if ctx.is_known(&f.sig) {
                    ctx.known_hit(&f.sig);
                } else {
                    ctx.violation(prop.sub(), &f, &case);
                    return;
                }
            }
        }
    }
    // an empty datagram right ahead of a query, nothing behind it
    for (listener, empties) in [(0u8, 1u8), (1, 1), (2, 1), (3, 1), (3, 3)] {
        let case = EmptyAheadCase { listener, empties, repeat: 4 };
        let out = prop.run_empty_ahead(&case);
        ctx.record("empty-ahead", &case, &out);
        if let Some(f) = out.fail {
            if ctx.is_known(&f.sig) {
                ctx.known_hit(&f.sig);
            } else {
                ctx.violation("empty-ahead", &f, &case);
                return;
            }
        }
    }
    // a TCP client that pauses in mid-query while others ask
    for (i, cut) in [0u8, 1, 2, 3, 20].iter().enumerate() {
        let case = SlowWriterCase { listener: (i % 4) as u8, cut: *cut, others: 3 };
        let out = prop.run_slow_writer(&case);
        ctx.record("slow-writer", &case, &out);
        if let Some(f) = out.fail {
            if ctx.is_known(&f.sig) {
                ctx.known_hit(&f.sig);
            } else {
                ctx.violation("slow-writer", &f, &case);
                return;
            }
        }
    }
    // after a slow answer: the upstream answers one query only about 3 s after each
    // transmission (so that retransmissions have gone out by then and the forwarder learns that
    // this upstream is slow); afterwards a query whose first transmission is lost must still be
    // retransmitted and answered, and a query over TCP as well
    {
        let case = ConcCase {
            listener: 2,
            queries: vec![
                QSpec { delay_ms: 3000, ..plain(false, 0, 0) },
                QSpec { send_after_s: 6, drop_mask: 1, ..plain(false, 0, 1) },
                QSpec { send_after_s: 6, drop_mask: 3, ..plain(false, 0, 2) },
                QSpec { send_after_s: 6, ..plain(true, 0, 3) },
            ],
            upstream_idle_close_ms: 0,
        };
        let mut out = exec_one(&prop, &case);
        out.class("lost-transmissions-after-a-slow-answer");
        ctx.record(prop.sub(), &case, &out);
        if let Some(f) = out.fail {
            if ctx.is_known(&f.sig) {
                ctx.known_hit(&f.sig);
            } else {
                ctx.violation(prop.sub(), &f, &case);
                return;
            }
        }
    }
    // a reply that comes later than anybody waits for it: one TCP-path query whose upstream reply
    // takes 11.5 s (SERVFAIL or the answer, either is fine), then, once that reply has arrived on
    // the shared upstream connection, more queries that travel the same connection: each must
    // get its own answer
    {
        let mut queries = vec![
            QSpec { delay_ms: 11500, ..plain(true, 0, 0) },
            QSpec { send_after_s: 13, ..plain(true, 0, 0) },
            QSpec { send_after_s: 13, tc: true, ..plain(false, 0, 1) },
            QSpec { send_after_s: 13, wrong_id: true, ..plain(false, 0, 2) },
            QSpec { send_after_s: 13, ..plain(false, 0, 3) },
        ];
        for i in 0..8u8 {
            queries.push(QSpec { send_after_s: 14, send_after_ms: 40 * i as u16, ..plain(true, i % 3, i) });
        }
        let case = ConcCase { listener: 1, queries, upstream_idle_close_ms: 0 };
        let mut out = exec_one(&prop, &case);
        out.class("tcp-path-queries-after-a-reply-11.5-s-late");
        ctx.record(prop.sub(), &case, &out);
        if let Some(f) = out.fail {
            if ctx.is_known(&f.sig) {
                ctx.known_hit(&f.sig);
            } else {
                ctx.violation(prop.sub(), &f, &case);
                return;
            }
        }
    }
    // thorough only (it has to outwait the server's own 120 s timers): the upstream closes idle
    // TCP connections after 3 s; a TCP-path query, 125 s of silence, then two more TCP-path
    // queries, each of which must get its own answer over a fresh upstream connection
    if ctx.tier == Tier::Thorough {
        let case = ConcCase {
            listener: 3,
            queries: vec![
                plain(true, 0, 0),
                QSpec { send_after_s: 125, ..plain(true, 0, 0) },
                QSpec { send_after_s: 126, tc: true, ..plain(false, 0, 1) },
                QSpec { send_after_s: 127, ..plain(true, 1, 2) },
            ],
            upstream_idle_close_ms: 3000,
        };
        let mut out = exec_one(&prop, &case);
        out.class("tcp-path-query-after-125-s-of-silence");
        ctx.record(prop.sub(), &case, &out);
        if let Some(f) = out.fail {
            if ctx.is_known(&f.sig) {
                ctx.known_hit(&f.sig);
            } else {
                ctx.violation(prop.sub(), &f, &case);
                return;
            }
        }
    }
    ctx.extra(
        "fault_enumeration",
        serde_json::json!({"drop_patterns_enumerated": masks.len() + 1, "of_32": masks.len() == 32}),
    );
    // generated concurrent sets
    run_wire(
        ctx,
        &prop,
        conc_case_strategy(ctx.tier.pick(48, 256), ctx.tier.pick(2, 3), false),
        ctx.tier.pick(24, 400),
        1,
    );
}

pub fn replay(id: &str, sub: &str, case: &serde_json::Value) -> Option<Result<Outcome, String>> {
    match (id, sub) {
        ("C07", "empty-ahead") => {
            let prop = match C07Conc::new() {
                Ok(p) => p,
                Err(e) => return Some(Err(format!("wire rig unavailable: {}", e))),
            };
            Some(serde_json::from_value::<EmptyAheadCase>(case.clone()).map_err(|e| e.to_string()).map(|c| prop.run_empty_ahead(&c)))
        }
        ("C07", "slow-writer") => {
            let prop = match C07Conc::new() {
                Ok(p) => p,
                Err(e) => return Some(Err(format!("wire rig unavailable: {}", e))),
            };
            Some(serde_json::from_value::<SlowWriterCase>(case.clone()).map_err(|e| e.to_string()).map(|c| prop.run_slow_writer(&c)))
        }
        ("C07", "concurrent") => {
            let prop = match C07Conc::new() {
                Ok(p) => p,
                Err(e) => return Some(Err(format!("wire rig unavailable: {}", e))),
            };
            Some(replay_wire(&prop, case))
        }
        _ => None,
    }
}
