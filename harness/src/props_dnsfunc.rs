//! DNS function-level properties through hook H3: C06 (cache) and C16 (token bucket).

use crate::dnsconv::*;
use crate::engine::*;
use crate::rfc1035 as dns;
use erbium::dns::dnspkt as e;
use erbium::dns::verif_cache::{verif_error, VerifCache};
use proptest::prelude::*;
use serde::{Deserialize, Serialize};
use std::collections::HashMap;

fn workers() -> usize {
    crate::props_codec::workers()
}

// ---------------------------------------------------------------------------------------------
// C06

#[derive(Clone, Debug, Serialize, Deserialize, PartialEq, Eq, Hash)]
pub struct KeySpec {
    pub name: dns::Name,
    pub qtype: u16,
    pub do_bit: bool,
    pub cd: bool,
}

#[derive(Clone, Debug, Serialize, Deserialize)]
pub enum Near {
    Exact,
    OtherLabel,
    ExtraLabel,
    OtherType,
    DoFlip,
    CdFlip,
    CaseFlip,
    /// another name on the wire that a zone-file style printer shows alike: a dot inside a label
    /// against a label boundary, an octet against its backslash-decimal spelling
    PrintedAlike,
}

#[derive(Clone, Debug, Serialize, Deserialize)]
pub enum ReplySpec {
    /// (section 0..3, ttl) per record
    Ok(Vec<(u8, u32)>),
    Err(u8),
}

#[derive(Clone, Debug, Serialize, Deserialize)]
pub enum CStep {
    /// what handle_query does: look up; on a miss resolve (= `reply`) and offer it to the cache
    Query {
        key: u16,
        near: Near,
        reply: ReplySpec,
    },
    AdvanceMs(u64),
    /// move the clock so that the entry of `key` is `delta_ms` past its minimum TTL
    ToBoundary {
        key: u16,
        delta_ms: i32,
    },
    Sweep,
}

#[derive(Clone, Debug, Serialize, Deserialize)]
pub struct CacheCase {
    pub keys: Vec<KeySpec>,
    pub steps: Vec<CStep>,
}

const ADV_MS: [u64; 19] = [
    0, 250, 500, 999, 1000, 1001, 1500, 2000, 7999, 8001, 59_000, 61_000, 600_500, 4_294_967_296_000,
    // ages at which a count of seconds no longer fits a 24-bit significand (TTLs are 32-bit:
    // entries that live for months and years are legal)
    16_777_217_000, 20_000_003_500, 100_000_001_000, 1_000_000_007_250, 2_000_000_001_000,
];
const CTTLS: [u32; 9] = [0, 1, 2, 3, 59, 600, 0x7fff_ffff, 0x8000_0000, 0xffff_ffff];

fn reply_strategy() -> impl Strategy<Value = ReplySpec> {
    let ttl = prop_oneof![
        4 => any::<u16>().prop_map(|i| CTTLS[pick_idx(i, CTTLS.len())]),
        3 => 1u32..20,
        1 => any::<u32>(),
    ];
    prop_oneof![
        10 => proptest::collection::vec((0u8..3, ttl), 0..=12).prop_map(ReplySpec::Ok),
        2 => (0u8..9).prop_map(ReplySpec::Err),
    ]
}

pub fn cache_case_strategy(max_steps: usize) -> impl Strategy<Value = CacheCase> {
    let key = (name_strategy(), prop_oneof![Just(1u16), Just(28u16), Just(15u16), any::<u16>()], any::<bool>(), any::<bool>(), any::<u8>())
        .prop_map(|(mut name, qtype, do_bit, cd, shape)| {
            // some names carry what makes two different names look alike in print: a dot or a
            // control octet inside a label
            if let Some(l) = name.first_mut() {
                if l.len() < 60 {
                    match shape % 8 {
                        0 => l.insert(l.len() / 2, b'.'),
                        1 => l.insert(0, [7u8, 0, 12, 200, 31, 128][(shape / 8) as usize % 6]),
                        _ => {}
                    }
                }
            }
            KeySpec {
                name,
                qtype,
                do_bit,
                cd,
            }
        });
    let near = prop_oneof![
        8 => Just(Near::Exact),
        1 => Just(Near::OtherLabel),
        1 => Just(Near::ExtraLabel),
        2 => Just(Near::OtherType),
        2 => Just(Near::DoFlip),
        2 => Just(Near::CdFlip),
        1 => Just(Near::CaseFlip),
        2 => Just(Near::PrintedAlike),
    ];
    let step = prop_oneof![
        10 => (any::<u16>(), near, reply_strategy()).prop_map(|(key, near, reply)| CStep::Query { key, near, reply }),
        4 => any::<u16>().prop_map(|i| CStep::AdvanceMs(ADV_MS[pick_idx(i, ADV_MS.len())])),
        5 => (any::<u16>(), -8i32..=8).prop_map(|(key, d)| CStep::ToBoundary { key, delta_ms: d * 250 }),
        1 => Just(CStep::Sweep),
    ];
    (
        proptest::collection::vec(key, 1..=3),
        proptest::collection::vec(step, 1..=max_steps),
    )
        .prop_map(|(keys, steps)| CacheCase { keys, steps })
}

fn near_key(k: &KeySpec, n: &Near) -> KeySpec {
    let mut k = k.clone();
    match n {
        Near::Exact => {}
        Near::OtherLabel => {
            if let Some(l) = k.name.first_mut() {
                l[0] ^= 0x01;
                if l[0] == 0 {
                    l[0] = 2;
                }
            } else {
                k.name.push(b"x".to_vec());
            }
        }
        Near::ExtraLabel => k.name.insert(0, b"sub".to_vec()),
        Near::OtherType => k.qtype = k.qtype.wrapping_add(1),
        Near::DoFlip => k.do_bit = !k.do_bit,
        Near::CdFlip => k.cd = !k.cd,
        Near::PrintedAlike => {
            let esc = k.name.iter().position(|l| l.iter().any(|b| !(32..=127).contains(b)));
            let dotted = k.name.iter().position(|l| l.len() >= 3 && l[1..l.len() - 1].contains(&b'.'));
            if let Some(i) = esc.filter(|i| k.name[*i].len() <= 59) {
                let l = &k.name[i];
                let j = l.iter().position(|b| !(32..=127).contains(b)).unwrap();
                let mut n = l[..j].to_vec();
                n.extend_from_slice(format!("\\{}", l[j]).as_bytes());
                n.extend_from_slice(&l[j + 1..]);
                k.name[i] = n;
            } else if let Some(i) = dotted {
                let l = k.name[i].clone();
                let j = 1 + l[1..l.len() - 1].iter().position(|b| *b == b'.').unwrap();
                k.name[i] = l[..j].to_vec();
                k.name.insert(i + 1, l[j + 1..].to_vec());
            } else if k.name.len() >= 2 && k.name[0].len() + k.name[1].len() < 63 {
                let second = k.name.remove(1);
                k.name[0].push(b'.');
                k.name[0].extend_from_slice(&second);
            } else if let Some(l) = k.name.first_mut() {
                l[0] ^= 0x01;
                if l[0] == 0 {
                    l[0] = 2;
                }
            } else {
                k.name.push(b"x".to_vec());
            }
        }
        Near::CaseFlip => {
            for l in k.name.iter_mut() {
                for b in l.iter_mut() {
                    if b.is_ascii_alphabetic() {
                        *b ^= 0x20;
                    }
                }
            }
        }
    }
    k
}

fn build_reply(k: &KeySpec, recs: &[(u8, u32)]) -> dns::Message {
    let mut m = dns::Message {
        header: dns::Header {
            id: 7,
            qr: true,
            rd: true,
            ra: true,
            ..Default::default()
        },
        questions: vec![dns::Question {
            name: k.name.clone(),
            qtype: k.qtype,
            qclass: 1,
        }],
        ..Default::default()
    };
    // any response code may come with records (a resolver answers SERVFAIL with the resolved
    // head of a CNAME chain, NXDOMAIN with the SOA, ...): the records' TTLs rule whatever the
    // code is.  Derived from the records so that older replay files keep their meaning.
    if let Some((_, t0)) = recs.first() {
        m.header.rcode = [0u8, 0, 0, 0, 0, 2, 2, 3, 5, 1][(recs.len() * 7 + *t0 as usize) % 10];
    }
    for (i, (sec, ttl)) in recs.iter().enumerate() {
        // Mostly address records; in the authority section also SOA records (as in a negative
        // answer) whose MINIMUM field lies on either side of the TTLs around it, in the other
        // sections the occasional NS / CNAME / opaque record.  Whatever the types, the entry
        // lives as long as the smallest TTL of any record.  Derived from the case so that
        // older replay files keep their shape where they had no authority records.
        let pick = (i as u32).wrapping_mul(7).wrapping_add(*ttl);
        let (rtype, rdata) = match (sec, pick % 4) {
            (1, 0) | (1, 1) => (
                dns::T_SOA,
                dns::RData::Soa {
                    mname: vec![b"ns".to_vec(), b"test".to_vec()],
                    rname: vec![b"host".to_vec(), b"test".to_vec()],
                    serial: pick,
                    refresh: 7200,
                    retry: 600,
                    expire: 86400,
                    minimum: CTTLS[(pick / 4) as usize % CTTLS.len()],
                },
            ),
            (_, 2) if i % 5 == 4 => (dns::T_NS, dns::RData::Name(vec![b"ns".to_vec(), b"test".to_vec()])),
            (_, 3) if i % 5 == 3 => (47, dns::RData::Raw(vec![0, 6, 0x40, 0, 0, 0, 0, 3])),
            _ => (dns::T_A, dns::RData::Raw(vec![10, 0, (i >> 8) as u8, i as u8])),
        };
        let r = dns::Rr {
            name: k.name.clone(),
            rtype,
            class: 1,
            ttl: *ttl,
            rdata,
        };
        match sec {
            0 => m.answer.push(r),
            1 => m.authority.push(r),
            _ => m.additional.push(r),
        }
    }
    m
}

struct ModelEntry {
    birth_ms: u64,
    spec: ReplySpec,
    pkt: Option<e::DNSPkt>,
}

pub struct C06Cache;

impl Prop for C06Cache {
    type Case = CacheCase;
    fn sub(&self) -> &'static str {
        "cache-model"
    }
    fn check(&self, c: &CacheCase) -> Outcome {
        let rt = tokio::runtime::Builder::new_current_thread()
            .enable_time()
            .start_paused(true)
            .build()
            .expect("runtime");
        rt.block_on(async {
            let mut out = Outcome::default();
            let mut cache = VerifCache::new();
            let mut model: HashMap<KeySpec, ModelEntry> = HashMap::new();
            let mut now_ms: u64 = 0;
            let mut hits = 0;
            for step in &c.steps {
                match step {
                    CStep::AdvanceMs(ms) => {
                        tokio::time::advance(std::time::Duration::from_millis(*ms)).await;
                        now_ms += ms;
                    }
                    CStep::ToBoundary { key, delta_ms } => {
                        let k = &c.keys[pick_idx(*key, c.keys.len())];
                        if let Some(en) = model.get(k) {
                            if let ReplySpec::Ok(recs) = &en.spec {
                                if let Some(min) = recs.iter().map(|r| r.1).min() {
                                    let target = en.birth_ms as i64 + min as i64 * 1000 + *delta_ms as i64;
                                    if target > now_ms as i64 {
                                        let d = target as u64 - now_ms;
                                        tokio::time::advance(std::time::Duration::from_millis(d)).await;
                                        now_ms += d;
                                        out.class("clock-placed-at-ttl-boundary");
                                    }
                                }
                            }
                        }
                    }
                    CStep::Sweep => {
                        cache.sweep();
                    }
                    CStep::Query { key, near, reply } => {
                        let base = &c.keys[pick_idx(*key, c.keys.len())];
                        let k = near_key(base, near);
                        if !matches!(near, Near::Exact) {
                            out.class("near-miss-lookup");
                            out.nontrivial = true;
                        }
                        let q = e::Question {
                            qdomain: to_domain(&k.name),
                            qclass: e::CLASS_IN,
                            qtype: e::Type(k.qtype),
                        };
                        let got = cache.lookup(&q, k.do_bit, k.cd);
                        let en = model.get(&k);
                        // DNS names compare without regard to letter case: when another spelling
                        // of this name has been resolved, which of the two entries serves this
                        // query is not constrained
                        let other_spelling = model.keys().any(|mk| {
                            mk != &k
                                && mk.qtype == k.qtype
                                && mk.do_bit == k.do_bit
                                && mk.cd == k.cd
                                && mk.name.len() == k.name.len()
                                && mk.name.iter().zip(k.name.iter()).all(|(a, b)| a.eq_ignore_ascii_case(b))
                        });
                        match got {
                            Some(_) if other_spelling => {
                                out.class("hit-with-another-spelling-in-letter-case-resolved");
                                continue;
                            }
                            Some(res) => {
                                hits += 1;
                                let en = match en {
                                    Some(en) => en,
                                    None => {
                                        // CaseFlip: a name differing only in letter case may be
                                        // served from the other spelling's entry (DNS names are
                                        // case-insensitive): unconstrained.
                                        if matches!(near, Near::CaseFlip) {
                                            continue;
                                        }
                                        out.fail(
                                            "C06:crossed-keys",
                                            format!("lookup {:?} ({:?} of a base key) was served from cache but nothing was ever stored under that key", k, near),
                                        );
                                        return out;
                                    }
                                };
                                let elapsed_ms = now_ms - en.birth_ms;
                                match (&res, &en.spec) {
                                    (Ok(pkt), ReplySpec::Ok(recs)) => {
                                        let min = recs.iter().map(|r| r.1).min().unwrap_or(0) as u64;
                                        if recs.is_empty() || min == 0 || elapsed_ms > min * 1000 {
                                            out.fail(
                                                "C06:served-past-ttl",
                                                format!("served from cache {} ms after it was obtained; smallest TTL {} s (records {:?})", elapsed_ms, min, recs),
                                            );
                                            return out;
                                        }
                                        if elapsed_ms + 1000 >= min * 1000 {
                                            out.nontrivial = true;
                                            out.class("hit-within-1s-of-expiry");
                                        }
                                        let orig = en.pkt.as_ref().unwrap();
                                        let dec = (elapsed_ms / 1000) as i64;
                                        let all_o = orig.answer.iter().chain(orig.nameserver.iter()).chain(orig.additional.iter());
                                        let all_g = pkt.answer.iter().chain(pkt.nameserver.iter()).chain(pkt.additional.iter());
                                        if pkt.answer.len() != orig.answer.len()
                                            || pkt.nameserver.len() != orig.nameserver.len()
                                            || pkt.additional.len() != orig.additional.len()
                                        {
                                            out.fail("C06:content-differs", "section sizes differ from the stored reply");
                                            return out;
                                        }
                                        for (o, g) in all_o.zip(all_g) {
                                            let want = o.ttl as i64 - dec;
                                            if g.ttl as i64 != want || want < 0 {
                                                out.fail(
                                                    "C06:ttl-wrong",
                                                    format!("original TTL {}, {} ms elapsed: served {} (expected {})", o.ttl, elapsed_ms, g.ttl, want),
                                                );
                                                return out;
                                            }
                                            if g.rdata != o.rdata || g.domain != o.domain || g.rrtype != o.rrtype {
                                                out.fail("C06:content-differs", "record differs from the stored reply");
                                                return out;
                                            }
                                        }
                                        let distinct: std::collections::HashSet<u32> = recs.iter().map(|r| r.1).collect();
                                        let secs: std::collections::HashSet<u8> = recs.iter().map(|r| r.0).collect();
                                        if distinct.len() >= 2 && secs.len() >= 2 {
                                            out.nontrivial = true;
                                            out.class("hit-mixed-ttls-across-sections");
                                        }
                                    }
                                    (Err(_), ReplySpec::Err(_)) => {
                                        out.class("cached-error-served");
                                    }
                                    _ => {
                                        out.fail("C06:crossed-keys", "cached value kind differs from what was stored under this key");
                                        return out;
                                    }
                                }
                            }
                            None => {
                                // miss: resolve "upstream" and offer
                                let (res, pkt) = match reply {
                                    ReplySpec::Ok(recs) => {
                                        let p = to_pkt(&build_reply(&k, recs));
                                        (Ok(p.clone()), Some(p))
                                    }
                                    ReplySpec::Err(kind) => (Err(verif_error(*kind)), None),
                                };
                                let stored = cache.offer(&q, k.do_bit, k.cd, &res);
                                if stored {
                                    model.insert(
                                        k.clone(),
                                        ModelEntry {
                                            birth_ms: now_ms,
                                            spec: reply.clone(),
                                            pkt,
                                        },
                                    );
                                }
                            }
                        }
                    }
                }
            }
            if hits > 0 {
                out.class("has-cache-hit");
            }
            out
        })
    }
}

// ---------------------------------------------------------------------------------------------
// C16: token bucket with a harness clock

thread_local! {
    static VCLOCK: std::cell::Cell<u32> = const { std::cell::Cell::new(0) };
}

pub struct TlClock;

impl erbium::dns::VerifClock for TlClock {
    fn now() -> u32 {
        VCLOCK.with(|c| c.get())
    }
}

fn set_clock(t: u32) {
    VCLOCK.with(|c| c.set(t));
}

type Bucket = erbium::dns::VerifTokenBucket;

const T0: u32 = 1_700_000_000;

/// Black-box inference: burst B = largest request granted to an idle bucket; rate R = tokens
/// regained per second after emptying it.
pub fn infer_bucket() -> (u32, f64) {
    set_clock(T0);
    let b = Bucket::new();
    let (mut lo, mut hi) = (0u32, 10_000_000u32);
    while lo < hi {
        let mid = lo + (hi - lo + 1) / 2;
        if b.check::<TlClock>(mid) {
            lo = mid;
        } else {
            hi = mid - 1;
        }
    }
    let burst = lo;
    let mut b = Bucket::new();
    b.deplete::<TlClock>(burst);
    // measure the largest grant 10 s later
    set_clock(T0 + 10);
    let (mut lo, mut hi) = (0u32, burst);
    while lo < hi {
        let mid = lo + (hi - lo + 1) / 2;
        if b.check::<TlClock>(mid) {
            lo = mid;
        } else {
            hi = mid - 1;
        }
    }
    (burst, lo as f64 / 10.0)
}

#[derive(Clone, Debug, Serialize, Deserialize)]
pub struct BucketCase {
    /// (dt seconds, tokens requested as a fraction index of B)
    pub arrivals: Vec<(u32, u32)>,
}

const DTS: [u32; 9] = [0, 0, 1, 2, 10, 49, 50, 51, 10_000];

pub fn bucket_case_strategy() -> impl Strategy<Value = BucketCase> {
    proptest::collection::vec(
        (
            any::<u16>().prop_map(|i| DTS[pick_idx(i, DTS.len())]),
            prop_oneof![
                3 => 0u32..40,
                3 => 40u32..320,
                1 => Just(100u32),
                1 => Just(101u32),
                1 => Just(200u32),
            ],
        ),
        1..60,
    )
    .prop_map(|arrivals| BucketCase { arrivals })
}

pub struct C16Bucket {
    pub burst: u32,
    pub rate: f64,
}

impl Prop for C16Bucket {
    type Case = BucketCase;
    fn sub(&self) -> &'static str {
        "bucket"
    }
    fn check(&self, c: &BucketCase) -> Outcome {
        let mut out = Outcome::default();
        let mut b = Bucket::new();
        let mut t = T0;
        let mut grants: Vec<(u32, u32)> = vec![];
        let mut denied_before = false;
        let refill = (self.burst as f64 / self.rate).ceil() as u32;
        let mut last_activity: Option<u32> = None;
        for (dt, tokens) in &c.arrivals {
            t += dt;
            set_clock(t);
            // requests are scaled so that the interesting sizes sit around the inferred burst
            let want = (*tokens as u64 * self.burst as u64 / 100) as u32;
            let idle = last_activity.map(|l| t - l >= refill).unwrap_or(true);
            // exactly what the limiter does: check, then deplete
            let ok = b.check::<TlClock>(want);
            if ok {
                b.deplete::<TlClock>(want);
                grants.push((t, want));
                if denied_before {
                    out.nontrivial = true;
                    out.class("granted-after-denial");
                }
            } else {
                denied_before = true;
                out.class("denied");
                if idle && want <= self.burst {
                    out.fail(
                        "C16:idle-source-denied",
                        format!("idle for >= {} s but a request of {} tokens (burst {}) was denied", refill, want, self.burst),
                    );
                    return out;
                }
            }
            if idle && last_activity.is_some() {
                out.nontrivial = true;
                out.class("idle-gap");
            }
            if ok || want > 0 {
                // a denied request does not consume; but activity for the idle rule is counted
                // only for grants (denials do not drain the bucket)
                if ok && want > 0 {
                    last_activity = Some(t);
                }
            }
        }
        // every window of grants
        for i in 0..grants.len() {
            let mut sum = 0u64;
            for j in i..grants.len() {
                sum += grants[j].1 as u64;
                let span = (grants[j].0 - grants[i].0) as f64;
                let bound = self.burst as f64 + self.rate * span + self.rate * (j - i + 1) as f64;
                if sum as f64 > bound {
                    out.fail(
                        "C16:bound-exceeded",
                        format!(
                            "{} tokens granted within {} s: more than B={} + R={} x span (+ rounding slack)",
                            sum, span, self.burst, self.rate
                        ),
                    );
                    return out;
                }
            }
        }
        out
    }
}

pub fn run_c06_func(ctx: &Ctx) {
    run_prop(
        ctx,
        &C06Cache,
        || cache_case_strategy(ctx.tier.pick(30, 60)),
        ctx.tier.pick(60_000, 2_000_000),
        workers(),
    );
}

pub fn run_c16_func(ctx: &Ctx) {
    let (burst, rate) = infer_bucket();
    ctx.extra(
        "inferred_bucket",
        serde_json::json!({"burst_tokens": burst, "rate_tokens_per_s": rate}),
    );
    if burst == 0 || rate <= 0.0 {
        ctx.set_inconclusive("could not infer bucket constants");
        return;
    }
    let prop = C16Bucket { burst, rate };
    run_prop(
        ctx,
        &prop,
        bucket_case_strategy,
        ctx.tier.pick(100_000, 5_000_000),
        workers(),
    );
}

pub fn replay(id: &str, sub: &str, case: &serde_json::Value) -> Option<Result<Outcome, String>> {
    match (id, sub) {
        ("C06", "cache-model") => Some(replay_prop(&C06Cache, case)),
        ("C16", "bucket") => {
            let (burst, rate) = infer_bucket();
            Some(replay_prop(&C16Bucket { burst, rate }, case))
        }
        _ => None,
    }
}
