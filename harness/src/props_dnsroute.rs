//! C15: DNS routes on the wire.  One scripted upstream per forward route.

use crate::engine::*;
use crate::props_dnswire::DnsRig;
use crate::rfc1035 as dns;
use crate::wire_dns::*;
use proptest::prelude::*;
use serde::{Deserialize, Serialize};
use std::net::{IpAddr, Ipv4Addr, Ipv6Addr, SocketAddr};
use std::time::Duration;

const ALPHA: [&str; 7] = ["a", "b", "c", "example", "com", "net", "x1"];

#[derive(Clone, Debug, Serialize, Deserialize, PartialEq)]
pub struct RouteSpec {
    /// suffixes as label lists (lower case); [] is the default suffix ""
    pub suffixes: Vec<Vec<String>>,
    pub forge: bool,
}

#[derive(Clone, Debug, Serialize, Deserialize, PartialEq)]
pub struct NameSpec {
    /// which (route, suffix) the name is built from; reduced modulo what exists
    pub route: u16,
    pub suffix: u16,
    pub extra: Vec<u8>,
    /// per-letter case flips, applied cyclically
    pub case_mask: u32,
    /// 0 exact, 1 prepend a letter to the first suffix label (xexample.com), 2 reverse the labels,
    /// 3 the root, 4 unrelated name
    pub near: u8,
    pub rd: bool,
    /// the route is chosen from the name alone, whatever is asked about it
    #[serde(default = "qtype_a")]
    pub qtype: u16,
    /// ... and in whatever class
    #[serde(default = "qtype_a")]
    pub qclass: u16,
}

fn qtype_a() -> u16 {
    1
}

#[derive(Clone, Debug, Serialize, Deserialize, PartialEq)]
pub struct RouteCase {
    pub routes: Vec<RouteSpec>,
    pub names: Vec<NameSpec>,
    /// seed of the permutation of routes and suffixes used for the second server
    pub perm: u32,
    /// write configured suffixes in upper case
    pub upper_conf: bool,
}

fn suffix_strategy() -> impl Strategy<Value = Vec<String>> {
    prop_oneof![
        1 => Just(vec![]),
        8 => proptest::collection::vec(any::<u16>().prop_map(|i| ALPHA[pick_idx(i, ALPHA.len())].to_string()), 1..=3),
    ]
}

pub fn route_case_strategy(max_names: usize) -> impl Strategy<Value = RouteCase> {
    (
        proptest::collection::vec(
            (proptest::collection::vec(suffix_strategy(), 0..=4), proptest::bool::weighted(0.4)).prop_map(|(suffixes, forge)| RouteSpec { suffixes, forge }),
            1..=6,
        ),
        proptest::collection::vec(
            (
                any::<u16>(),
                any::<u16>(),
                proptest::collection::vec(0u8..7, 0..=3),
                any::<u32>(),
                prop_oneof![10 => Just(0u8), 2 => Just(1u8), 1 => Just(2u8), 1 => Just(3u8), 1 => Just(4u8), 2 => Just(5u8)],
                proptest::bool::weighted(0.85),
                // A mostly; the types that resolvers treat specially (DS lives at the parent side
                // of a cut, NS/SOA at the apex, PTR, ...) and any other (not ANY: refused by type)
                prop_oneof![
                    6 => Just(1u16), 1 => Just(28u16), 2 => Just(43u16), 1 => Just(2u16), 1 => Just(6u16), 1 => Just(48u16),
                    1 => Just(12u16), 1 => Just(5u16), 1 => Just(33u16), 1 => Just(65u16), 1 => Just(16u16),
                    2 => (1u16..=254).prop_filter("not OPT", |t| *t != 41),
                ],
                // IN mostly; CHAOS, HESIOD, CSNET, NONE
                prop_oneof![12 => Just(1u16), 2 => Just(3u16), 1 => Just(4u16), 1 => Just(2u16), 1 => Just(254u16)],
            )
                .prop_map(|(route, suffix, extra, case_mask, near, rd, qtype, qclass)| NameSpec {
                    route,
                    suffix,
                    extra,
                    case_mask,
                    near,
                    rd,
                    qtype,
                    qclass,
                }),
            4..=max_names,
        ),
        any::<u32>(),
        proptest::bool::weighted(0.2),
    )
        .prop_map(|(mut routes, names, perm, upper_conf)| {
            // a suffix may be owned by one route only (case-insensitively): drop later duplicates
            let mut seen: Vec<Vec<String>> = vec![];
            for r in routes.iter_mut() {
                r.suffixes.retain(|s| {
                    if seen.contains(s) {
                        false
                    } else {
                        seen.push(s.clone());
                        true
                    }
                });
            }
            RouteCase {
                routes,
                names,
                perm,
                upper_conf,
            }
        })
}

fn permute<T: Clone>(v: &[T], seed: u32) -> Vec<T> {
    let mut idx: Vec<usize> = (0..v.len()).collect();
    let mut s = seed as u64 | 1;
    for i in (1..idx.len()).rev() {
        s = s.wrapping_mul(6364136223846793005).wrapping_add(1442695040888963407);
        let j = (s >> 33) as usize % (i + 1);
        idx.swap(i, j);
    }
    idx.iter().map(|i| v[*i].clone()).collect()
}

fn build_name(c: &RouteCase, n: &NameSpec) -> dns::Name {
    let all: Vec<&Vec<String>> = c.routes.iter().flat_map(|r| r.suffixes.iter()).collect();
    let base: Vec<String> = if all.is_empty() || n.near == 4 {
        vec!["unrelated".into(), "zz".into()]
    } else {
        all[pick_idx(n.route.wrapping_add(n.suffix), all.len())].clone()
    };
    let mut labels: Vec<String> = n.extra.iter().map(|i| ALPHA[*i as usize % ALPHA.len()].to_string()).collect();
    match n.near {
        1 => {
            let mut b = base.clone();
            if let Some(f) = b.first_mut() {
                *f = format!("x{}", f);
            }
            labels.extend(b);
        }
        2 => {
            let mut b = base.clone();
            b.reverse();
            labels.extend(b);
        }
        3 => labels.clear(),
        5 => {
            // the first two labels as ONE label with a dot octet inside: another name on the
            // wire (and for "whole labels") that reads the same in print
            labels.extend(base);
            if labels.len() >= 2 && labels[0].len() + labels[1].len() < 63 {
                let second = labels.remove(1);
                labels[0] = format!("{}.{}", labels[0], second);
            }
        }
        _ => labels.extend(base),
    }
    let mut k = 0;
    labels
        .iter()
        .map(|l| {
            l.bytes()
                .map(|mut b| {
                    let flip = n.case_mask & (1 << (k % 32)) != 0;
                    k += 1;
                    if flip && b.is_ascii_alphabetic() {
                        b ^= 0x20;
                        b
                    } else {
                        b
                    }
                })
                .collect::<Vec<u8>>()
        })
        .collect()
}

#[derive(Clone, Debug, PartialEq)]
pub enum Expect {
    /// index of the route
    Forward(usize),
    Forge,
    NoRoute,
}

/// Reference: the route owning the suffix with the most labels among those the name ends with
/// (whole labels, ASCII case-insensitive).
pub fn reference(c: &RouteCase, name: &dns::Name) -> Expect {
    let mut best: Option<(usize, usize)> = None;
    for (ri, r) in c.routes.iter().enumerate() {
        for s in &r.suffixes {
            if s.len() > name.len() {
                continue;
            }
            let tail = &name[name.len() - s.len()..];
            if tail.iter().zip(s.iter()).all(|(a, b)| a.eq_ignore_ascii_case(b.as_bytes())) {
                if best.map(|(l, _)| s.len() > l).unwrap_or(true) {
                    best = Some((s.len(), ri));
                }
            }
        }
    }
    match best {
        None => Expect::NoRoute,
        Some((_, ri)) => {
            if c.routes[ri].forge {
                Expect::Forge
            } else {
                Expect::Forward(ri)
            }
        }
    }
}

pub struct C15Routes {
    pub ups: Vec<Upstream>,
}

fn routes_yaml(routes: &[RouteSpec], order: &[usize], perm: Option<u32>, upper: bool) -> String {
    let mut s = String::from("dns-routes:\n");
    for &ri in order {
        let r = &routes[ri];
        let sufs = match perm {
            Some(p) => permute(&r.suffixes, p ^ ri as u32),
            None => r.suffixes.clone(),
        };
        let list: Vec<String> = sufs
            .iter()
            .map(|l| {
                let t = l.join(".");
                format!("\"{}\"", if upper { t.to_uppercase() } else { t })
            })
            .collect();
        s.push_str(&format!("  - domain-suffixes: [{}]\n", list.join(", ")));
        // The keys of a route in either order; a forge-nxdomain route may keep the dns-servers
        // key of the forward route it was made from (the manual: "only used by type forward"),
        // written before or after its type, or an empty list.
        let (first_servers, shape) = match perm {
            Some(p) => ((p >> (ri % 16)) & 1 == 1, (p >> 8) as usize + ri),
            None => (ri % 2 == 1, ri / 2),
        };
        let servers = format!("    dns-servers: [127.0.1.{}]\n", ri + 1);
        if r.forge {
            match shape % 4 {
                0 => s.push_str("    type: forge-nxdomain\n"),
                1 => {
                    s.push_str("    type: forge-nxdomain\n");
                    s.push_str(&servers);
                }
                2 => {
                    s.push_str(&servers);
                    s.push_str("    type: forge-nxdomain\n");
                }
                _ => {
                    s.push_str("    type: forge-nxdomain\n");
                    s.push_str("    dns-servers: []\n");
                }
            }
        } else if first_servers {
            s.push_str(&servers);
            s.push_str("    type: forward\n");
        } else {
            s.push_str("    type: forward\n");
            s.push_str(&servers);
        }
    }
    s
}

#[derive(Clone, Debug, PartialEq)]
enum Seen {
    Answer(Vec<u8>),
    Rcode(u16),
    Silence,
    Garbage,
}

impl C15Routes {
    pub fn new() -> Result<C15Routes, String> {
        let mut ups = vec![];
        for i in 1..=6u8 {
            ups.push(Upstream::start(IpAddr::V4(Ipv4Addr::new(127, 0, 1, i)))?);
        }
        Ok(C15Routes { ups })
    }

    fn run_table(&self, c: &RouteCase, order: &[usize], perm: Option<u32>, out: &mut Outcome) -> Result<Vec<Seen>, Fail> {
        let yaml = routes_yaml(&c.routes, order, perm, c.upper_conf);
        let port = crate::netns::free_port(IpAddr::V6(Ipv6Addr::UNSPECIFIED));
        let listeners = vec![SocketAddr::new(IpAddr::V6(Ipv6Addr::UNSPECIFIED), port)];
        let conf = dns_config(&listeners, &yaml, None);
        let dst = SocketAddr::new(IpAddr::V6(Ipv6Addr::LOCALHOST), port);
        let lvl = std::env::var("VCHECK_SERVER_LOG").unwrap_or_else(|_| "warn".to_string());
        let server = DnsServer::start(&conf, dst, &lvl).map_err(|e| Fail::new("rig-error", e))?;
        let before: Vec<usize> = self.ups.iter().map(|u| u.state.total()).collect();
        // one query per distinct name: the upstream log is keyed by the question
        let mut uniq: Vec<&NameSpec> = vec![];
        let mut seen_names: std::collections::HashSet<dns::Name> = Default::default();
        // a name with a dot inside a label is asked in a second round, after the name it reads
        // like (same labels, not joined) has been asked and answered in the first
        let twins: Vec<NameSpec> = c.names.iter().filter(|n| n.near == 5).map(|n| NameSpec { near: 0, rd: true, qclass: 1, ..n.clone() }).collect();
        for n in c.names.iter().filter(|n| n.near != 5).chain(twins.iter()).chain(c.names.iter().filter(|n| n.near == 5)) {
            if seen_names.insert(build_name(c, n)) {
                uniq.push(n);
            } else {
                out.excluded.push("duplicate-name-in-case");
            }
        }
        let mut all_results: Vec<(dns::Name, Seen)> = vec![];
        let second_round = uniq.iter().position(|n| n.near == 5).unwrap_or(uniq.len());
        let (round1, round2) = uniq.split_at(second_round);
        for (base_i, uniq) in [(0usize, round1), (second_round, round2)] {
        if uniq.is_empty() {
            continue;
        }
        if base_i > 0 {
            out.class("dot-inside-a-label-asked-after-the-name-it-reads-like");
            out.nontrivial = true;
        }
        let results: Vec<(dns::Name, Seen)> = std::thread::scope(|s| {
            let hs: Vec<_> = uniq
                .iter()
                .enumerate()
                .map(|(i, n)| {
                    let i = i + base_i;
                    s.spawn(move || {
                        let name = build_name(c, n);
                        let mut q = dns::query(0x3000 + i as u16, &name, n.qtype, n.qclass, n.rd, None);
                        q.header.rd = n.rd;
                        let bytes = dns::encode(&q, dns::Compress::Off);
                        // no-RD queries expect REFUSED, which only TCP shows reliably
                        let got = if n.rd {
                            udp_exchange(IpAddr::V6(Ipv6Addr::LOCALHOST), dst, &bytes, Duration::from_secs(4), Duration::from_millis(60))
                        } else {
                            tcp_exchange_linger(None, dst, &bytes, &[], Duration::from_secs(4), Duration::from_millis(10))
                        };
                        let seen = match got {
                            Ok(g) if g.is_empty() => Seen::Silence,
                            Ok(g) => match dns::decode(&g[0].bytes) {
                                Ok((m, _)) => {
                                    if m.full_rcode() == 0 && m.answer.len() == 1 {
                                        match &m.answer[0].rdata {
                                            dns::RData::Raw(b) => Seen::Answer(b.clone()),
                                            _ => Seen::Garbage,
                                        }
                                    } else {
                                        Seen::Rcode(m.full_rcode())
                                    }
                                }
                                Err(_) => Seen::Garbage,
                            },
                            Err(_) => Seen::Silence,
                        };
                        (name, seen)
                    })
                })
                .collect();
            hs.into_iter().map(|h| h.join().unwrap()).collect()
        });
        // judge against the reference
        for ((name, seen), n) in results.iter().zip(uniq.iter()) {
            let want = reference(c, name);
            let q = dns::Question {
                name: name.clone(),
                qtype: n.qtype,
                qclass: n.qclass,
            };
            let key = qkey(&q);
            if n.qclass != 1 {
                out.class("class-other-than-IN");
                out.nontrivial = true;
            }
            let asked: Vec<usize> = self
                .ups
                .iter()
                .enumerate()
                .filter(|(ui, u)| u.state.log.lock().unwrap()[before[*ui]..].iter().any(|s| s.key == key))
                .map(|(ui, _)| ui)
                .collect();
            let matches_two = c
                .routes
                .iter()
                .filter(|r| {
                    r.suffixes.iter().any(|s| {
                        s.len() <= name.len() && name[name.len() - s.len()..].iter().zip(s.iter()).all(|(a, b)| a.eq_ignore_ascii_case(b.as_bytes()))
                    })
                })
                .count()
                >= 2;
            let case_differs = name.iter().any(|l| l.iter().any(|b| b.is_ascii_uppercase())) != c.upper_conf;
            if matches_two {
                out.class("name-matches-suffixes-of-two-routes");
                out.nontrivial = true;
            }
            if case_differs && want != Expect::NoRoute {
                out.class("case-differs-from-configured-suffix");
                out.nontrivial = true;
            }
            let shown = dns::name_to_string(name);
            match (&want, n.rd) {
                (Expect::Forge, _) => {
                    if *seen != Seen::Rcode(3) {
                        return Err(Fail::new("C15:forge-not-nxdomain", format!("{} is under a forge-nxdomain suffix but got {:?}", shown, seen)));
                    }
                    if !asked.is_empty() {
                        return Err(Fail::new("C15:forged-name-sent-upstream", format!("{} was sent to upstream(s) {:?}", shown, asked)));
                    }
                }
                (Expect::NoRoute, _) => {
                    if *seen != Seen::Rcode(2) {
                        return Err(Fail::new("C15:no-route-not-servfail", format!("{} has no route but got {:?}", shown, seen)));
                    }
                    if !asked.is_empty() {
                        return Err(Fail::new("C15:unrouted-name-sent-upstream", format!("{} sent to {:?}", shown, asked)));
                    }
                }
                (Expect::Forward(ri), true) => {
                    let a = answer_for(&q);
                    let want_bytes = match &a.rdata {
                        dns::RData::Raw(b) => b.clone(),
                        _ => vec![],
                    };
                    if asked != vec![*ri] {
                        return Err(Fail::new(
                            "C15:wrong-upstream",
                            format!("{} belongs to route {} (longest suffix) but was sent to upstream(s) {:?}; got {:?}", shown, ri, asked, seen),
                        ));
                    }
                    if *seen != Seen::Answer(want_bytes) {
                        return Err(Fail::new("C15:wrong-answer", format!("{} -> {:?}", shown, seen)));
                    }
                }
                (Expect::Forward(_), false) => {
                    out.class("no-recursion-desired");
                    if !asked.is_empty() {
                        return Err(Fail::new("C15:forwarded-without-rd", format!("{} (RD clear) sent to {:?}", shown, asked)));
                    }
                    if *seen != Seen::Rcode(5) {
                        return Err(Fail::new("C15:no-rd-not-refused", format!("{} (RD clear) got {:?}", shown, seen)));
                    }
                }
            }
        }
        all_results.extend(results);
        }
        let panics = server.panics();
        if let Some(p) = panics.first() {
            return Err(Fail::new("server-panic", p.clone()));
        }
        Ok(all_results.into_iter().map(|r| r.1).collect())
    }
}

impl WireProp for C15Routes {
    type Case = RouteCase;
    fn sub(&self) -> &'static str {
        "routes"
    }
    fn exec_batch(&self, cases: &[RouteCase]) -> Vec<Outcome> {
        cases
            .iter()
            .map(|c| {
                let mut out = Outcome::default();
                let order: Vec<usize> = (0..c.routes.len()).collect();
                let a = match self.run_table(c, &order, None, &mut out) {
                    Ok(a) => a,
                    Err(f) => {
                        out.fail(f.sig, f.detail);
                        return out;
                    }
                };
                // the same table written in another order must behave identically
                let order2 = permute(&order, c.perm);
                let b = match self.run_table(c, &order2, Some(c.perm), &mut out) {
                    Ok(b) => b,
                    Err(f) => {
                        out.fail(format!("{}:permuted", f.sig), format!("(routes written in order {:?}) {}", order2, f.detail));
                        return out;
                    }
                };
                if a != b {
                    out.fail("C15:outcome-depends-on-order", format!("order {:?} vs {:?}", order, order2));
                }
                out
            })
            .collect()
    }
}

pub fn run_c15(ctx: &Ctx) {
    let prop = match C15Routes::new() {
        Ok(p) => p,
        Err(e) => {
            ctx.set_inconclusive(format!("wire rig unavailable: {}", e));
            return;
        }
    };
    run_wire(ctx, &prop, route_case_strategy(ctx.tier.pick(30, 60)), ctx.tier.pick(60, 3000), 1);
}

pub fn replay(id: &str, sub: &str, case: &serde_json::Value) -> Option<Result<Outcome, String>> {
    match (id, sub) {
        ("C15", "routes") => {
            let prop = match C15Routes::new() {
                Ok(p) => p,
                Err(e) => return Some(Err(format!("wire rig unavailable: {}", e))),
            };
            Some(replay_wire(&prop, case))
        }
        _ => None,
    }
}

#[allow(dead_code)]
fn _unused(_: &DnsRig) {}
