//! DNS properties decided on the wire (real `erbium-dns`): C03 (+ the wire part of C04).

use crate::dnsconv::*;
use crate::engine::*;
use crate::netns;
use crate::rfc1035 as dns;
use crate::wire_dns::*;
use proptest::prelude::*;
use serde::{Deserialize, Serialize};
use std::net::{IpAddr, Ipv4Addr, Ipv6Addr, SocketAddr};
use std::sync::Mutex;
use std::time::Duration;

pub struct DnsRig {
    /// panic lines of the server log already attributed to an earlier batch
    pub panics_seen: std::sync::atomic::AtomicUsize,
    /// serialises exchanges that must not share the server's upstream TCP connection
    pub tcp_serial: Mutex<()>,
    pub ups: Vec<Upstream>,
    pub server: Mutex<DnsServer>,
    /// [0] dual-stack [::]:p, [1] 127.0.0.1:p, [2] [::1]:p
    pub listeners: Vec<SocketAddr>,
}

pub const PROBE_SUFFIX: &str = "probe.invalid";

impl Drop for DnsRig {
    fn drop(&mut self) {
        if std::env::var("VCHECK_DEBUG").is_ok() {
            eprintln!("---- server stderr ----\n{}", self.server.lock().unwrap().stderr_tail());
        }
    }
}

impl DnsRig {
    /// One forward route for everything to 127.0.1.1, one forge-nxdomain route for the probe name.
    pub fn simple(acls_yaml: Option<&str>, log_level: &str) -> Result<DnsRig, String> {
        let up = Upstream::start(IpAddr::V4(Ipv4Addr::new(127, 0, 1, 1)))?;
        let routes = format!(
            "dns-routes:\n  - domain-suffixes: [\"\"]\n    type: forward\n    dns-servers: [127.0.1.1]\n  - domain-suffixes: [\"{}\"]\n    type: forge-nxdomain\n",
            PROBE_SUFFIX
        );
        Self::with_routes(vec![up], &routes, acls_yaml, log_level)
    }

    pub fn with_routes(ups: Vec<Upstream>, routes_yaml: &str, acls_yaml: Option<&str>, log_level: &str) -> Result<DnsRig, String> {
        let p0 = netns::free_port(IpAddr::V6(Ipv6Addr::UNSPECIFIED));
        let listeners = vec![
            SocketAddr::new(IpAddr::V6(Ipv6Addr::UNSPECIFIED), p0),
        ];
        let conf = dns_config(&listeners, routes_yaml, acls_yaml);
        let probe = SocketAddr::new(IpAddr::V6(Ipv6Addr::LOCALHOST), p0);
        let lvl = std::env::var("VCHECK_SERVER_LOG").unwrap_or_else(|_| log_level.to_string());
        let server = DnsServer::start(&conf, probe, &lvl)?;
        Ok(DnsRig {
            panics_seen: std::sync::atomic::AtomicUsize::new(0),
            tcp_serial: Mutex::new(()),
            ups,
            server: Mutex::new(server),
            listeners,
        })
    }

    /// Address a client uses to reach listener 0 from an IPv4 / IPv6 source.
    pub fn target(&self, v4: bool) -> SocketAddr {
        let p = self.listeners[0].port();
        if v4 {
            SocketAddr::new(IpAddr::V4(Ipv4Addr::new(127, 0, 0, 1)), p)
        } else {
            SocketAddr::new(IpAddr::V6(Ipv6Addr::LOCALHOST), p)
        }
    }

    /// Panics in the server log / death of the process, as a failure.
    /// true while no new panic line has appeared (does not move the watermark)
    pub fn health_peek(&self) -> bool {
        let mut s = self.server.lock().unwrap();
        s.panics().len() <= self.panics_seen.load(std::sync::atomic::Ordering::Relaxed) && s.alive()
    }

    pub fn health(&self) -> Option<Fail> {
        let mut s = self.server.lock().unwrap();
        let p = s.panics();
        let seen = self.panics_seen.swap(p.len(), std::sync::atomic::Ordering::Relaxed);
        if let Some(line) = p.get(seen) {
            let loc = line.split("panicked at ").nth(1).unwrap_or("").trim_end_matches(':');
            let file = loc.split(':').next().unwrap_or("");
            let file = file.trim_start_matches("/repo/crates/").trim_start_matches("crates/");
            // the message is on the following line; take it from the log
            let text = s.stderr_text();
            let msg = text
                .lines()
                .skip_while(|l| l != line)
                .nth(1)
                .unwrap_or("")
                .to_string();
            return Some(Fail::new(panic_sig(&msg, &format!("{}:0", file)), format!("server task panicked: {} {}", line.trim(), msg)));
        }
        if !s.alive() {
            return Some(Fail::new("server-died", format!("erbium-dns exited: {}", s.stderr_tail())));
        }
        None
    }
}

// ---------------------------------------------------------------------------------------------
// C03 / C04 wire

#[derive(Clone, Debug, Serialize, Deserialize)]
pub struct RelayCase {
    pub qname: dns::Name,
    pub qtype: u16,
    pub qclass: u16,
    pub cd: bool,
    pub ad: bool,
    pub edns: Option<dns::Edns>,
    pub tcp: bool,
    pub v4: bool,
    pub reply: dns::Message,
    pub compress: u8,
    /// ask again after this many ms (served from cache: TTL ageing)
    pub requery_ms: Option<u16>,
    /// the second query spells the name with the case of every letter flipped (what a client
    /// doing 0x20 randomisation does); it must get *its own* question back, octet for octet
    #[serde(default)]
    pub requery_flip_case: bool,
    /// the second query uses the other transport (what a client does after seeing TC)
    #[serde(default)]
    pub requery_other_transport: bool,
    /// the second query asks the same name and type in another class (CH if the first was IN,
    /// else IN): another question, which the upstream has to be asked
    #[serde(default)]
    pub requery_other_class: bool,
    /// the upstream's reply carries the question with its name in lower case instead of an
    /// octet-for-octet copy (a server that does not preserve the case of the query name); the
    /// client must still get *its own* question back
    #[serde(default)]
    pub upstream_lowercases_question: bool,
}

fn query_edns_strategy() -> impl Strategy<Value = Option<dns::Edns>> {
    let opt = prop_oneof![
        2 => Just((3u16, vec![])),
        2 => proptest::collection::vec(any::<u8>(), 8..=8).prop_map(|c| (10u16, c)),
        1 => (any::<u16>(), proptest::collection::vec(any::<u8>(), 0..20)).prop_map(|(c, d)| (if c == 10 || c == 15 { 65001 } else { c }, d)),
        1 => Just((8u16, vec![0, 1, 24, 0, 192, 0, 2])),
    ];
    proptest::option::weighted(
        0.7,
        (
            prop_oneof![Just(0u16), Just(1), Just(511), Just(512), Just(513), Just(1232), Just(4096), Just(65535), any::<u16>()],
            any::<bool>(),
            proptest::collection::vec(opt, 0..=3),
        )
            .prop_map(|(udp_size, do_bit, options)| dns::Edns {
                udp_size,
                ext_rcode: 0,
                version: 0,
                do_bit,
                options,
            }),
    )
}

pub fn relay_case_strategy(sz: MsgSize, allow_requery: bool) -> impl Strategy<Value = RelayCase> {
    (
        proptest::collection::vec(label_strategy(), 0..=6),
        prop_oneof![4 => Just(1u16), 2 => Just(28u16), 1 => Just(15u16), 1 => Just(16u16), 1 => Just(6u16), 2 => (1u16..255)],
        prop_oneof![12 => Just(1u16), 1 => Just(3u16), 1 => any::<u16>()],
        any::<[bool; 4]>(),
        query_edns_strategy(),
        message_strategy(sz),
        0u8..3,
        if allow_requery {
            proptest::option::weighted(0.2, prop_oneof![Just(0u16), Just(300), Just(1100)]).boxed()
        } else {
            Just(None).boxed()
        },
    )
        .prop_map(|(qname, qtype, qclass, b, edns, mut reply, compress, requery_ms)| {
            // derived from values already drawn, so that older replay files keep their meaning
            let requery_flip_case = requery_ms.is_some() && (qtype ^ compress as u16) & 1 == 1;
            let requery_other_class = requery_ms.is_some() && !requery_flip_case && (qname.len() + qtype as usize / 2) % 2 == 0;
            // one upstream in four does not preserve the letter case of the question it echoes
            let upstream_lowercases_question = (qtype as usize + qname.iter().map(|l| l.len()).sum::<usize>()) % 4 == 1;
            // the upstream is a recursive resolver answering a query: no TC games here
            reply.header.tc = false;
            reply.header.qr = true;
            reply.header.opcode = 0;
            // the upstream has to be able to send it: at most 65535 octets as *it* encodes it
            // (the question is replaced by the client's, up to 255 + 4 octets longer)
            let comp = match compress {
                0 => dns::Compress::Off,
                1 => dns::Compress::Owners,
                _ => dns::Compress::All,
            };
            while dns::encode(&reply, comp).len() + 300 > 65535 {
                let opt = reply.additional.iter().position(|r| r.rtype == 41).map(|i| reply.additional.remove(i));
                for sec in [&mut reply.answer, &mut reply.authority, &mut reply.additional] {
                    let keep = sec.len() / 2;
                    sec.truncate(keep);
                }
                if let Some(o) = opt {
                    reply.additional.push(o);
                }
            }
            RelayCase {
                qname,
                qtype,
                qclass,
                cd: b[0],
                ad: b[1],
                edns,
                tcp: b[2] && compress != 1 && requery_ms.is_none(),
                v4: b[3],
                reply,
                compress,
                requery_ms,
                requery_flip_case,
                requery_other_transport: false,
                requery_other_class,
                upstream_lowercases_question,
            }
        })
}

fn rr_eq_mod_ttl(a: &dns::Rr, b: &dns::Rr) -> bool {
    a.name == b.name && a.rtype == b.rtype && a.class == b.class && a.rdata == b.rdata
}

pub struct Exchange {
    pub question: dns::Question,
    pub query_id: u16,
    pub got: Vec<Got>,
    pub upstream_sent: dns::Message,
    pub second: Option<(Vec<Got>, Duration)>,
    /// the question of the second query (differs from `question` in letter case only)
    pub second_question: Option<dns::Question>,
    /// how often the upstream was asked the second question, when it differs from the first
    pub second_upstream_count: Option<usize>,
    /// transport of the second query
    pub second_tcp: bool,
    pub upstream_count: usize,
    pub err: Option<String>,
}

pub struct C03Relay<'a> {
    pub rig: &'a DnsRig,
    /// "C03" or "C04": which oracle judges the exchange
    pub mode: &'static str,
}

impl<'a> C03Relay<'a> {
    fn exchange(&self, c: &RelayCase, idx: usize) -> Exchange {
        let mut name = vec![unique_label()];
        name.extend(c.qname.iter().cloned());
        // keep the name encodable
        let mut len = 1;
        name.retain(|l| {
            len += l.len() + 1;
            len <= 255
        });
        let question = dns::Question {
            name,
            qtype: if c.qtype == 255 { 1 } else { c.qtype },
            qclass: c.qclass,
        };
        let compress = match c.compress {
            0 => dns::Compress::Off,
            1 => dns::Compress::Owners,
            _ => dns::Compress::All,
        };
        let up = &self.rig.ups[0].state;
        up.set(
            qkey(&question),
            Script {
                reply: Reply::Model(c.reply.clone(), compress),
                question_rewrite: if c.upstream_lowercases_question { 1 } else { 0 },
                // the forwarder advertises 4096 octets; a real upstream keeps to that over UDP
                udp_truncate_to: if self.mode == "C04" { Some(4096) } else { None },
                ..Default::default()
            },
        );
        // what the upstream will send (id aside)
        let mut sent = c.reply.clone();
        sent.questions = vec![question.clone()];
        let qid = 0x1000u16.wrapping_add(idx as u16).wrapping_mul(7);
        let mut q = dns::query(qid, &question.name, question.qtype, question.qclass, true, c.edns.clone());
        q.header.cd = c.cd;
        q.header.ad = c.ad;
        let bytes = dns::encode(&q, dns::Compress::Off);
        let dst = self.rig.target(c.v4);
        let src: IpAddr = if c.v4 { IpAddr::V4(Ipv4Addr::new(127, 0, 0, 1)) } else { IpAddr::V6(Ipv6Addr::LOCALHOST) };
        let run = |b: &[u8]| -> Result<Vec<Got>, String> {
            if c.tcp {
                // one TCP-path query at a time: concurrency on the upstream TCP connection is
                // C07's subject, not C03's
                let _g = self.rig.tcp_serial.lock().unwrap();
                tcp_exchange_linger(None, dst, b, &[], Duration::from_secs(4), Duration::from_millis(15))
            } else {
                udp_exchange(src, dst, b, Duration::from_secs(4), Duration::from_millis(120))
            }
        };
        let got = run(&bytes);
        let mut ex = Exchange {
            question: question.clone(),
            query_id: qid,
            got: vec![],
            upstream_sent: sent,
            second: None,
            second_question: None,
            second_upstream_count: None,
            second_tcp: c.tcp != c.requery_other_transport,
            upstream_count: 0,
            err: None,
        };
        match got {
            Ok(g) => ex.got = g,
            Err(e) => {
                ex.err = Some(e);
                return ex;
            }
        }
        if let Some(ms) = c.requery_ms {
            let t0 = std::time::Instant::now();
            std::thread::sleep(Duration::from_millis(ms as u64));
            let mut q2 = q.clone();
            q2.header.id = qid.wrapping_add(1);
            let mut question2 = question.clone();
            if c.requery_flip_case {
                for l in question2.name.iter_mut() {
                    for b in l.iter_mut() {
                        if b.is_ascii_alphabetic() {
                            *b ^= 0x20;
                        }
                    }
                }
                q2.questions[0] = question2.clone();
                // the same upstream answers the same thing whatever the spelling
                up.set(
                    qkey(&question2),
                    Script {
                        reply: Reply::Model(c.reply.clone(), compress),
                        ..Default::default()
                    },
                );
            }
            if c.requery_other_class && !c.requery_flip_case {
                question2.qclass = if question.qclass == 1 { 3 } else { 1 };
                q2.questions[0] = question2.clone();
                up.set(
                    qkey(&question2),
                    Script {
                        reply: Reply::Model(c.reply.clone(), compress),
                        ..Default::default()
                    },
                );
            }
            let b2 = dns::encode(&q2, dns::Compress::Off);
            let run2 = |b: &[u8]| -> Result<Vec<Got>, String> {
                if ex.second_tcp {
                    let _g = self.rig.tcp_serial.lock().unwrap();
                    tcp_exchange_linger(None, dst, b, &[], Duration::from_secs(4), Duration::from_millis(15))
                } else {
                    udp_exchange(src, dst, b, Duration::from_secs(4), Duration::from_millis(120))
                }
            };
            if let Ok(g) = run2(&b2) {
                ex.second = Some((g, t0.elapsed()));
                ex.second_question = Some(question2.clone());
            }
            if question2 != question {
                ex.upstream_count = up.count_for(&qkey(&question)) + up.count_for(&qkey(&question2));
                ex.second_upstream_count = Some(up.count_for(&qkey(&question2)));
                return ex;
            }
        }
        ex.upstream_count = up.count_for(&qkey(&question));
        ex
    }

    fn judge_c03(&self, c: &RelayCase, ex: &Exchange, out: &mut Outcome) {
        let up = &ex.upstream_sent;
        out.nontrivial = !up.authority.is_empty()
            || !up.additional_no_opt().is_empty()
            || up.full_rcode() != 0
            || up.records().any(|r| !matches!(r.rdata, dns::RData::Raw(_)));
        let judge_one = |g: &Got, qid: u16, asked: &dns::Question, elapsed_s: Option<f64>, out: &mut Outcome| {
            let (r, _) = match dns::decode(&g.bytes) {
                Ok(x) => x,
                Err(e) => {
                    // well-formedness is C04's; still a relay failure if nothing can be read
                    out.fail("C03:reply-undecodable", e);
                    return;
                }
            };
            if r.header.id != qid {
                out.fail("C03:wrong-id", format!("{:#x} vs {:#x}", r.header.id, qid));
                return;
            }
            if !r.header.qr {
                out.fail("C03:not-a-response", "QR clear");
                return;
            }
            if r.questions != vec![asked.clone()] {
                out.fail("C03:question-changed", format!("{:?} vs {:?}", r.questions, asked));
                return;
            }
            if r.full_rcode() != up.full_rcode() && !r.header.tc {
                out.fail("C03:rcode-changed", format!("upstream {} -> client {}", up.full_rcode(), r.full_rcode()));
                return;
            }
            if r.full_rcode() & 0xf != up.full_rcode() & 0xf {
                out.fail("C03:rcode-changed", format!("upstream {} -> client {}", up.full_rcode(), r.full_rcode()));
                return;
            }
            let secs: [(&str, &Vec<dns::Rr>, Vec<dns::Rr>); 3] = [
                ("answer", &r.answer, up.answer.clone()),
                ("authority", &r.authority, up.authority.clone()),
                ("additional", &r.additional_no_opt(), up.additional_no_opt()),
            ];
            let mut truncated_seen = false;
            for (name, got, want) in secs.iter() {
                let complete = got.len() == want.len();
                if !complete {
                    if !(r.header.tc && got.len() < want.len()) || truncated_seen && !got.is_empty() {
                        out.fail(
                            format!("C03:{}-section-differs", name),
                            format!("{} section: {} records relayed, upstream sent {}", name, got.len(), want.len()),
                        );
                        return;
                    }
                }
                if truncated_seen && !got.is_empty() {
                    out.fail(format!("C03:{}-section-differs", name), "records after a truncated section");
                    return;
                }
                for (i, (g, w)) in got.iter().zip(want.iter()).enumerate() {
                    if !rr_eq_mod_ttl(g, w) {
                        let sg = format!("{:?}", g);
                        let sw = format!("{:?}", w);
                        out.fail(
                            format!("C03:{}-section-differs", name),
                            format!("{} record {}: relayed {} upstream {}", name, i, &sg[..sg.len().min(200)], &sw[..sw.len().min(200)]),
                        );
                        return;
                    }
                    match elapsed_s {
                        None => {
                            if g.ttl != w.ttl {
                                out.fail("C03:ttl-changed", format!("upstream {} relayed {}", w.ttl, g.ttl));
                                return;
                            }
                        }
                        Some(e) => {
                            let lo = w.ttl as f64 - e - 1.5;
                            if g.ttl > w.ttl || (g.ttl as f64) < lo {
                                out.fail("C03:ttl-ageing", format!("upstream {} relayed {} after {:.1} s", w.ttl, g.ttl, e));
                                return;
                            }
                        }
                    }
                }
                if !complete {
                    truncated_seen = true;
                }
            }
        };
        if ex.got.is_empty() {
            if !c.tcp && up.header.rcode == 5 {
                // a relayed REFUSED is subject to the per-source rate limiter on UDP (C16)
                out.excluded.push("refused-rate-limited-on-udp");
                return;
            }
            out.fail("C03:no-reply", format!("no reply to {:?} over {}", ex.question, if c.tcp { "TCP" } else { "UDP" }));
            return;
        }
        judge_one(&ex.got[0], ex.query_id, &ex.question, None, out);
        if out.fail.is_some() {
            return;
        }
        if let Some((g2, dt)) = &ex.second {
            if let Some(g) = g2.first() {
                out.class("requery");
                // elapsed since the entry was obtained is at most dt + the first exchange
                let from_cache = ex.upstream_count <= 1 || (c.tcp && ex.upstream_count <= 1);
                if from_cache {
                    out.class("requery-from-cache");
                }
                let asked = ex.second_question.clone().unwrap_or_else(|| ex.question.clone());
                if asked.qclass != ex.question.qclass {
                    out.class("requery-in-another-class");
                    // nobody has asked this question before: an answer to it can only be the
                    // upstream's if the upstream was asked
                    if ex.second_upstream_count == Some(0) {
                        out.fail(
                            "C03:answered-without-asking-upstream",
                            format!("{:?} was answered although the upstream was never asked it (the same name and type had been asked in class {} {} ms earlier)", asked, ex.question.qclass, c.requery_ms.unwrap_or(0)),
                        );
                        return;
                    }
                } else if asked != ex.question {
                    out.class("requery-in-another-letter-case");
                }
                judge_one(g, ex.query_id.wrapping_add(1), &asked, Some(dt.as_secs_f64() + 0.5), out);
            }
        }
    }

    fn judge_c04(&self, c: &RelayCase, ex: &Exchange, out: &mut Outcome) {
        self.judge_c04_one(c, ex, out);
        // the same question again, over TCP: complete, whatever the first exchange left behind
        if out.fail.is_none() && ex.second_tcp {
            if let Some((g2, _)) = &ex.second {
                if let Some(g) = g2.first() {
                    out.class("asked-again-over-tcp");
                    let nrec = ex.upstream_sent.records().filter(|r| r.rtype != dns::T_OPT).count();
                    match dns::decode(&g.bytes) {
                        Err(e) => out.fail("C04:malformed-response", format!("second query over TCP: {}", e)),
                        Ok((r, _)) => {
                            let got_rec = r.records().filter(|r| r.rtype != dns::T_OPT).count();
                            let fits = dns::encode(&ex.upstream_sent, dns::Compress::All).len() + 400 < 65535;
                            if fits && (r.header.tc || got_rec != nrec) {
                                out.fail(
                                    "C04:tcp-response-truncated",
                                    format!(
                                        "asked again over TCP after a {} exchange: {} of {} records, TC={}",
                                        if c.tcp { "TCP" } else { "UDP" },
                                        got_rec,
                                        nrec,
                                        r.header.tc
                                    ),
                                );
                            }
                        }
                    }
                }
            }
        }
    }

    fn judge_c04_one(&self, c: &RelayCase, ex: &Exchange, out: &mut Outcome) {
        let up_full = dns::encode(&ex.upstream_sent, dns::Compress::All).len();
        let advertised = c.edns.as_ref().map(|e| e.udp_size as usize).unwrap_or(512).max(512);
        if ex.got.is_empty() {
            if !c.tcp && ex.upstream_sent.header.rcode == 5 {
                out.excluded.push("refused-rate-limited-on-udp");
                return;
            }
            out.fail(
                "C04:no-reply",
                format!(
                    "no reply over {}; the upstream was asked {} time(s); its reply is {} octets uncompressed, {} compressed; server log tail: {}",
                    if c.tcp { "TCP" } else { "UDP" },
                    ex.upstream_count,
                    dns::encode(&ex.upstream_sent, dns::Compress::Off).len(),
                    up_full,
                    {
                        let t = self.rig.server.lock().unwrap().stderr_tail();
                        let mut n = t.len().saturating_sub(600);
                        while !t.is_char_boundary(n) {
                            n += 1;
                        }
                        t[n..].replace('\n', " | ")
                    }
                ),
            );
            return;
        }
        let g = &ex.got[0];
        out.nontrivial = up_full + 64 > advertised;
        if up_full > advertised {
            out.class("upstream-answer-larger-than-advertised");
        }
        let (r, audit) = match dns::decode(&g.bytes) {
            Ok(x) => x,
            Err(e) => {
                out.fail("C04:malformed-response", format!("{} octets over {}: {}", g.bytes.len(), if c.tcp { "TCP" } else { "UDP" }, e));
                return;
            }
        };
        if audit.consumed != g.bytes.len() {
            out.fail("C04:trailing-octets", format!("{} of {}", audit.consumed, g.bytes.len()));
            return;
        }
        let nrec = ex.upstream_sent.records().filter(|r| r.rtype != dns::T_OPT).count();
        let got_rec = r.records().filter(|r| r.rtype != dns::T_OPT).count();
        if !c.tcp {
            if g.bytes.len() > advertised {
                out.fail(
                    "C04:udp-over-advertised-size",
                    format!("client advertised {} octets, UDP response has {}", advertised, g.bytes.len()),
                );
                return;
            }
            if got_rec < nrec && !r.header.tc {
                out.fail("C04:records-dropped-without-tc", format!("{} of {} records, TC clear", got_rec, nrec));
                return;
            }
            if got_rec == nrec && r.header.tc && !ex.upstream_sent.header.tc {
                // OPT may have been dropped: allowed ("whole records omitted from the end")
                let had_opt = r.opt_count() > 0;
                if had_opt {
                    out.fail("C04:tc-without-truncation", "TC set although every record is present");
                    return;
                }
            }
        } else {
            // complete whenever it fits a TCP frame; an upstream answer that only just fits may
            // not fit any more once the forwarder's own OPT record is added, and is then cut to
            // whole records with TC set
            let may_not_fit = {
                let mut m = ex.upstream_sent.clone();
                m.questions = vec![ex.question.clone()];
                dns::encode(&m, dns::Compress::All).len() + 11 + 64 > 65535
            };
            if may_not_fit {
                out.class("tcp-answer-at-the-frame-limit");
                out.nontrivial = true;
                if g.bytes.len() > 65535 {
                    out.fail("C04:tcp-frame-over-65535", format!("{} octets", g.bytes.len()));
                    return;
                }
                if got_rec < nrec && !r.header.tc {
                    out.fail("C04:records-dropped-without-tc", format!("{} of {} records over TCP, TC clear", got_rec, nrec));
                    return;
                }
            } else if r.header.tc || got_rec != nrec {
                out.fail(
                    "C04:tcp-response-truncated",
                    format!(
                        "TCP response carries {} of {} records, TC={} (client EDNS size {:?})",
                        got_rec,
                        nrec,
                        r.header.tc,
                        c.edns.as_ref().map(|e| e.udp_size)
                    ),
                );
                return;
            }
        }
    }
}

impl<'a> WireProp for C03Relay<'a> {
    type Case = RelayCase;
    fn sub(&self) -> &'static str {
        if self.mode == "C03" {
            "relay"
        } else {
            "wire-size"
        }
    }
    fn exec_batch(&self, cases: &[RelayCase]) -> Vec<Outcome> {
        let exs: Vec<Exchange> = std::thread::scope(|s| {
            let hs: Vec<_> = cases
                .iter()
                .enumerate()
                .map(|(i, c)| s.spawn(move || self.exchange(c, i)))
                .collect();
            hs.into_iter().map(|h| h.join().unwrap()).collect()
        });
        let health = self.rig.health();
        cases
            .iter()
            .zip(exs.iter())
            .map(|(c, ex)| {
                let mut out = Outcome::default();
                if c.tcp {
                    out.class("tcp");
                }
                if c.edns.is_some() {
                    out.class("edns");
                }
                if let Some(e) = &ex.err {
                    out.fail("rig-error", e.clone());
                    return out;
                }
                if self.mode == "C03" {
                    self.judge_c03(c, ex, &mut out);
                } else {
                    self.judge_c04(c, ex, &mut out);
                }
                if out.fail.is_none() {
                    if let Some(h) = &health {
                        out.fail(h.sig.clone(), h.detail.clone());
                    }
                }
                out
            })
            .collect()
    }
}

pub fn run_c03(ctx: &Ctx) {
    let rig = match DnsRig::simple(None, "warn") {
        Ok(r) => r,
        Err(e) => {
            ctx.set_inconclusive(format!("wire rig unavailable: {}", e));
            return;
        }
    };
    let prop = C03Relay { rig: &rig, mode: "C03" };
    let sz = MsgSize {
        min_records: 0,
        max_records: 24,
        max_raw: 300,
    };
    run_wire(ctx, &prop, relay_case_strategy(sz, true), ctx.tier.pick(1_280, 40_000), 64);
}

pub fn run_c04_wire(ctx: &Ctx) {
    let rig = match DnsRig::simple(None, "warn") {
        Ok(r) => r,
        Err(e) => {
            ctx.assume(format!("wire tier unavailable: {}", e));
            return;
        }
    };
    let prop = C03Relay { rig: &rig, mode: "C04" };
    let small = MsgSize {
        min_records: 0,
        max_records: 40,
        max_raw: 200,
    };
    let big = MsgSize {
        min_records: 30,
        max_records: 400,
        max_raw: 300,
    };
    // the frame limit over TCP, octet by octet: one opaque record whose length sweeps a window
    // in which the forwarder's own message (the upstream's plus its OPT record) passes 65535
    for l in 65416usize..=65488 {
        let case = RelayCase {
            qname: vec![],
            qtype: 1,
            qclass: 1,
            cd: false,
            ad: false,
            edns: if l % 2 == 0 { None } else { Some(dns::Edns { udp_size: 4096, ext_rcode: 0, version: 0, do_bit: false, options: vec![] }) },
            tcp: true,
            v4: l % 3 == 0,
            reply: dns::Message {
                header: dns::Header { qr: true, rd: true, ra: true, ..Default::default() },
                answer: vec![dns::Rr { name: vec![b"x".to_vec()], rtype: 65280, class: 1, ttl: 60, rdata: dns::RData::Raw(vec![0xa5; l]) }],
                ..Default::default()
            },
            compress: 0,
            requery_ms: None,
            requery_flip_case: false,
            requery_other_transport: false,
            requery_other_class: false,
            upstream_lowercases_question: false,
        };
        let out = exec_one(&prop, &case);
        ctx.record(prop.sub(), &case, &out);
        if let Some(f) = out.fail {
            if ctx.is_known(&f.sig) {
                ctx.known_hit(&f.sig);
            } else {
                ctx.violation(prop.sub(), &f, &case);
                return;
            }
        }
    }
    // the same over UDP around the size the client advertised (1232 with EDNS, 512 without)
    for (edns, lens) in [
        (Some(dns::Edns { udp_size: 1232, ext_rcode: 0, version: 0, do_bit: false, options: vec![] }), 1150usize..=1212),
        (None, 428usize..=492),
    ] {
        let cases: Vec<RelayCase> = lens
            .map(|l| RelayCase {
                qname: vec![],
                qtype: 1,
                qclass: 1,
                cd: false,
                ad: false,
                edns: edns.clone(),
                tcp: false,
                v4: l % 2 == 0,
                reply: dns::Message {
                    header: dns::Header { qr: true, rd: true, ra: true, ..Default::default() },
                    answer: vec![dns::Rr { name: vec![b"x".to_vec()], rtype: 65280, class: 1, ttl: 60, rdata: dns::RData::Raw(vec![0x5a; l]) }],
                    ..Default::default()
                },
                compress: 0,
                requery_ms: None,
                requery_flip_case: false,
                requery_other_transport: false,
                requery_other_class: false,
            upstream_lowercases_question: false,
            })
            .collect();
        let outs = prop.exec_batch(&cases);
        for (case, mut out) in cases.iter().zip(outs.into_iter()) {
            out.class("udp-answer-around-the-advertised-size");
            ctx.record(prop.sub(), case, &out);
            if let Some(f) = out.fail {
                if ctx.is_known(&f.sig) {
                    ctx.known_hit(&f.sig);
                } else {
                    ctx.violation(prop.sub(), &f, case);
                    return;
                }
            }
        }
    }
    // answers larger than the 4096 octets the forwarder advertises upstream: the scripted
    // upstream truncates over UDP as a real one does; the client asks over UDP (advertising
    // 512..4096 or nothing), sees TC, and asks again over TCP - where the answer must be whole
    {
        let mut cases = vec![];
        for (k, (nrec, adv)) in [(300usize, None), (400, Some(1232u16)), (500, Some(4096)), (900, Some(512)), (350, Some(4095)), (2000, Some(1232))].into_iter().enumerate() {
            cases.push(RelayCase {
                qname: vec![format!("big{}", k).into_bytes()],
                qtype: 1,
                qclass: 1,
                cd: false,
                ad: false,
                edns: adv.map(|u| dns::Edns { udp_size: u, ext_rcode: 0, version: 0, do_bit: false, options: vec![] }),
                tcp: false,
                v4: k % 2 == 0,
                reply: dns::Message {
                    header: dns::Header { qr: true, rd: true, ra: true, ..Default::default() },
                    answer: (0..nrec)
                        .map(|i| dns::Rr { name: vec![b"x".to_vec()], rtype: 1, class: 1, ttl: 120, rdata: dns::RData::Raw(vec![10, 1, (i >> 8) as u8, i as u8]) })
                        .collect(),
                    ..Default::default()
                },
                compress: 0,
                requery_ms: Some(50),
                requery_flip_case: false,
                requery_other_transport: true,
                requery_other_class: false,
            upstream_lowercases_question: false,
            });
        }
        let outs = prop.exec_batch(&cases);
        for (case, mut out) in cases.iter().zip(outs.into_iter()) {
            out.class("truncated-upstream-udp-answer-then-tcp");
            ctx.record(prop.sub(), case, &out);
            if let Some(f) = out.fail {
                if ctx.is_known(&f.sig) {
                    ctx.known_hit(&f.sig);
                } else {
                    ctx.violation(prop.sub(), &f, case);
                    return;
                }
            }
        }
    }
    run_wire(ctx, &prop, relay_case_strategy(small, false), ctx.tier.pick(1_500, 24_000), 48);
    run_wire(ctx, &prop, relay_case_strategy(big, false), ctx.tier.pick(600, 8_000), 24);
}

pub fn replay(id: &str, sub: &str, case: &serde_json::Value) -> Option<Result<Outcome, String>> {
    match (id, sub) {
        ("C03", "relay") | ("C04", "wire-size") => {
            let rig = match DnsRig::simple(None, "warn") {
                Ok(r) => r,
                Err(e) => return Some(Err(format!("wire rig unavailable: {}", e))),
            };
            let prop = C03Relay {
                rig: &rig,
                mode: if id == "C03" { "C03" } else { "C04" },
            };
            Some(replay_wire(&prop, case))
        }
        _ => None,
    }
}
