//! Wire tiers of C05 (hostile DNS bytes), C06 (cache), C08 (ACL on DNS), C16 (REFUSED limiter and
//! cookies) on the real `erbium-dns`.

use crate::engine::*;
use crate::mutate;
use crate::props_acl as acl;
use crate::props_codec::HexBytes;
use crate::props_dnswire::DnsRig;
use crate::rfc1035 as dns;
use crate::wire_dns::*;
use proptest::prelude::*;
use serde::{Deserialize, Serialize};
use std::net::{IpAddr, Ipv4Addr, Ipv6Addr, SocketAddr};
use std::time::{Duration, Instant};

fn v6_local(i: u8) -> Ipv6Addr {
    format!("fd00:e::{:x}", 1 + (i % 16)).parse().unwrap()
}

// ---------------------------------------------------------------------------------------------
// C05 wire: hostile datagrams / frames / upstream replies, then a liveness probe

#[derive(Clone, Debug, Serialize, Deserialize)]
pub struct HostileBatch {
    /// 0: UDP datagram to the server, 1: TCP frame to the server, 2: upstream reply over UDP,
    /// 3: upstream reply over TCP (query sent over TCP)
    pub via: u8,
    pub inputs: Vec<HexBytes>,
}

pub struct C05Wire<'a> {
    pub rig: &'a DnsRig,
}

impl<'a> C05Wire<'a> {
    fn probe(&self) -> Result<(), String> {
        let name = vec![unique_label(), b"alive".to_vec(), b"test".to_vec()];
        let q = dns::query(0x4242, &name, 1, 1, true, None);
        let bytes = dns::encode(&q, dns::Compress::Off);
        let question = q.questions[0].clone();
        for tcp in [false, true] {
            let got = if tcp {
                tcp_exchange_linger(None, self.rig.target(false), &bytes, &[], Duration::from_secs(5), Duration::from_millis(5))?
            } else {
                udp_exchange(IpAddr::V6(Ipv6Addr::LOCALHOST), self.rig.target(false), &bytes, Duration::from_secs(5), Duration::from_millis(5))?
            };
            let ok = got.first().and_then(|g| dns::decode(&g.bytes).ok()).map(|(m, _)| {
                m.full_rcode() == 0 && m.answer.len() == 1 && m.answer[0].rdata == answer_for(&question).rdata
            });
            if ok != Some(true) {
                return Err(format!(
                    "a well-formed query over {} was not answered after the hostile batch (got {:?})",
                    if tcp { "TCP" } else { "UDP" },
                    got.first().map(|g| g.bytes.len())
                ));
            }
        }
        Ok(())
    }
}

impl<'a> WireProp for C05Wire<'a> {
    type Case = HostileBatch;
    fn sub(&self) -> &'static str {
        "wire-dns"
    }
    fn exec_batch(&self, cases: &[HostileBatch]) -> Vec<Outcome> {
        cases
            .iter()
            .map(|c| {
                let mut out = Outcome::default();
                out.nontrivial = true;
                let dst = self.rig.target(false);
                // upstream replies are asked for under names that are asked again a good second
                // later: what was cached from a hostile reply is then aged and served
                let tag = unique_label();
                let tagr = &tag;
                std::thread::scope(|s| {
                    for (i, inp) in c.inputs.iter().enumerate() {
                        let rig = self.rig;
                        s.spawn(move || match c.via {
                            0 => {
                                let _ = udp_exchange(IpAddr::V6(Ipv6Addr::LOCALHOST), dst, &inp.0, Duration::from_millis(150), Duration::from_millis(1));
                            }
                            1 => {
                                let _ = tcp_exchange_linger(None, dst, &inp.0[..inp.0.len().min(65535)], &[], Duration::from_millis(150), Duration::from_millis(1));
                            }
                            via => {
                                let name = vec![tagr.clone(), format!("h{}", i).into_bytes(), b"hostile".to_vec()];
                                let q = dns::query(0x6000 + i as u16, &name, 1, 1, true, None);
                                rig.ups[0].state.set(
                                    qkey(&q.questions[0]),
                                    Script {
                                        reply: Reply::Raw(inp.0.clone()),
                                        ..Default::default()
                                    },
                                );
                                let b = dns::encode(&q, dns::Compress::Off);
                                if via == 2 {
                                    let _ = udp_exchange(IpAddr::V6(Ipv6Addr::LOCALHOST), dst, &b, Duration::from_millis(1200), Duration::from_millis(1));
                                } else {
                                    let _g = rig.tcp_serial.lock().unwrap();
                                    let _ = tcp_exchange_linger(None, dst, &b, &[], Duration::from_millis(600), Duration::from_millis(1));
                                }
                            }
                        });
                    }
                });
                if c.via >= 2 && self.rig.health_peek() {
                    std::thread::sleep(Duration::from_millis(1150));
                    std::thread::scope(|s| {
                        for i in 0..c.inputs.len() {
                            s.spawn(move || {
                                let name = vec![tagr.clone(), format!("h{}", i).into_bytes(), b"hostile".to_vec()];
                                let q = dns::query(0x6800 + i as u16, &name, 1, 1, true, None);
                                let b = dns::encode(&q, dns::Compress::Off);
                                let _ = udp_exchange(IpAddr::V6(Ipv6Addr::LOCALHOST), dst, &b, Duration::from_millis(800), Duration::from_millis(1));
                            });
                        }
                    });
                    out.class("asked-again-after-a-second");
                }
                out.class(match c.via {
                    0 => "udp-datagrams-to-server",
                    1 => "tcp-frames-to-server",
                    2 => "upstream-replies-udp",
                    _ => "upstream-replies-tcp",
                });
                if let Some(h) = self.rig.health() {
                    out.fail(h.sig, format!("after a hostile batch via {}: {}", c.via, h.detail));
                    return out;
                }
                if let Err(e) = self.probe() {
                    out.fail("C05:service-stopped-answering", e);
                }
                out
            })
            .collect()
    }
}

pub fn hostile_batch_strategy() -> impl Strategy<Value = HostileBatch> {
    let mut seeds = mutate::dns_seeds();
    seeds.extend(mutate::dns_nested());
    let ns = seeds.len();
    let one = (any::<u16>(), proptest::collection::vec((any::<u16>(), any::<u8>(), 0u8..4), 0..3), any::<u32>()).prop_map(move |(si, edits, fam)| {
        let seed = &seeds[pick_idx(si, ns)];
        let mut b = if fam % 3 == 0 {
            mutate::family_member(seed, fam as u64 % mutate::family_size(seed.len()))
        } else {
            seed.clone()
        };
        for (pos, val, kind) in edits {
            if b.is_empty() {
                break;
            }
            let i = pick_idx(pos, b.len());
            match kind {
                0 => b[i] = val,
                1 => b[i] ^= 1 << (val % 8),
                2 => b.truncate(i),
                _ => b.insert(i, val),
            }
        }
        HexBytes(b)
    });
    (0u8..4, proptest::collection::vec(one, 16..=64)).prop_map(|(via, inputs)| HostileBatch { via, inputs })
}

pub fn run_c05_wire(ctx: &Ctx) {
    let rig = match DnsRig::simple(None, "warn") {
        Ok(r) => r,
        Err(e) => {
            ctx.assume(format!("wire tier unavailable: {}", e));
            return;
        }
    };
    let prop = C05Wire { rig: &rig };
    // well-formed but unusual queries first: every way a query is answered without going
    // upstream (refused by type, refused for lack of RD, forged) x sizes from tiny to larger than
    // any answer to it (EDNS padding, a large unknown option, extra records), over UDP and TCP.
    // Handlers compute with the sizes of query and reply; nothing here is malformed.
    for via in [0u8, 1u8] {
        let mut inputs = vec![];
        for (qtype, rd) in [(255u16, true), (1u16, false), (255u16, false), (252u16, true), (1u16, true)] {
            for pad in [0usize, 1, 7, 8, 31, 64, 100, 128, 255, 256, 468, 1000, 1400, 3000] {
                for kind in 0..3u8 {
                    let name = vec![unique_label(), b"sized".to_vec(), b"test".to_vec()];
                    let edns = match kind {
                        0 => Some(dns::Edns { udp_size: 1232, ext_rcode: 0, version: 0, do_bit: false, options: vec![(12, vec![0u8; pad])] }),
                        1 => Some(dns::Edns { udp_size: 4096, ext_rcode: 0, version: 0, do_bit: true, options: vec![(65001, vec![0xabu8; pad]), (3, vec![])] }),
                        _ => None,
                    };
                    let mut q = dns::query(0x7100, &name, qtype, 1, rd, edns);
                    if kind == 2 {
                        // size by extra records instead of options
                        for k in 0..(pad / 16).min(120) {
                            q.additional.push(dns::Rr { name: vec![format!("p{}", k).into_bytes()], rtype: 1, class: 1, ttl: 1, rdata: dns::RData::Raw(vec![192, 0, 2, 1]) });
                        }
                    }
                    inputs.push(HexBytes(dns::encode(&q, dns::Compress::Off)));
                }
            }
        }
        for chunk in inputs.chunks(42) {
            let case = HostileBatch { via, inputs: chunk.to_vec() };
            let mut out = exec_one(&prop, &case);
            out.class("well-formed-queries-of-every-size");
            ctx.record(prop.sub(), &case, &out);
            if let Some(f) = out.fail {
                if ctx.is_known(&f.sig) {
                    ctx.known_hit(&f.sig);
                } else {
                    ctx.violation(prop.sub(), &f, &case);
                    return;
                }
            }
        }
    }
    // well-formed upstream replies that arrive late on the shared upstream TCP connection
    // (after 3.5 s and 6.5 s; thorough also 12 s and 31 s): whatever the forwarder has told the
    // client meanwhile, the late reply is one more input to its upstream-facing handler, which
    // must survive it and keep serving the TCP path
    for delay in if ctx.tier == Tier::Quick { vec![3500u64, 6500] } else { vec![3500, 6500, 12_000, 31_000] } {
        let mut out = Outcome::default();
        out.nontrivial = true;
        out.class("late-upstream-reply-over-tcp");
        let case = serde_json::json!({"upstream_tcp_reply_delayed_ms": delay});
        let name = vec![unique_label(), b"late".to_vec(), b"test".to_vec()];
        let q = dns::query(0x7e00, &name, 1, 1, true, None);
        rig.ups[0].state.set(qkey(&q.questions[0]), Script { delay_ms: delay, ..Default::default() });
        let started = std::time::Instant::now();
        {
            let _g = rig.tcp_serial.lock().unwrap();
            let _ = tcp_exchange_linger(None, rig.target(false), &dns::encode(&q, dns::Compress::Off), &[], Duration::from_millis(delay + 2500), Duration::from_millis(50));
        }
        // the client may have been answered (or told SERVFAIL) before the reply came: outwait it
        let due = Duration::from_millis(delay + 700);
        if started.elapsed() < due {
            std::thread::sleep(due - started.elapsed());
        }
        if let Some(h) = rig.health() {
            out.fail(h.sig, format!("after an upstream TCP reply that took {} ms: {}", delay, h.detail));
        } else if let Err(e) = prop.probe() {
            out.fail("C05:service-stopped-answering", format!("after an upstream TCP reply that took {} ms: {}", delay, e));
        }
        ctx.record(prop.sub(), &case, &out);
        if let Some(f) = out.fail {
            if ctx.is_known(&f.sig) {
                ctx.known_hit(&f.sig);
            } else {
                ctx.violation(prop.sub(), &f, &case);
                return;
            }
        }
    }
    run_wire(ctx, &prop, hostile_batch_strategy(), ctx.tier.pick(16, 400), 1);
}

// ---------------------------------------------------------------------------------------------
// C06 wire

#[derive(Clone, Debug, Serialize, Deserialize)]
pub struct CacheWireCase {
    /// per name: (section, ttl seconds 1..=4) of each record
    pub names: Vec<Vec<(u8, u8)>>,
}

pub struct C06Wire<'a> {
    pub rig: &'a DnsRig,
}

impl<'a> WireProp for C06Wire<'a> {
    type Case = CacheWireCase;
    fn sub(&self) -> &'static str {
        "wire-cache"
    }
    fn exec_batch(&self, cases: &[CacheWireCase]) -> Vec<Outcome> {
        cases
            .iter()
            .map(|c| {
                let mut out = Outcome::default();
                out.nontrivial = true;
                let dst = self.rig.target(false);
                let up = &self.rig.ups[0].state;
                let fails: Vec<Option<Fail>> = std::thread::scope(|s| {
                    let hs: Vec<_> = c
                        .names
                        .iter()
                        .enumerate()
                        .map(|(i, recs)| {
                            s.spawn(move || -> Option<Fail> {
                                let name = vec![unique_label(), format!("c{}", i).into_bytes(), b"cache".to_vec()];
                                let mk = |qtype: u16, qclass: u16| dns::Question {
                                    name: name.clone(),
                                    qtype,
                                    qclass,
                                };
                                let base = mk(1, 1);
                                let mut reply = dns::Message::default();
                                reply.header.ra = true;
                                for (k, (sec, ttl)) in recs.iter().enumerate() {
                                    let r = dns::Rr {
                                        name: name.clone(),
                                        rtype: dns::T_A,
                                        class: 1,
                                        ttl: *ttl as u32,
                                        rdata: dns::RData::Raw(vec![10, 1, i as u8, k as u8]),
                                    };
                                    match sec % 3 {
                                        0 => reply.answer.push(r),
                                        1 => reply.authority.push(r),
                                        _ => reply.additional.push(r),
                                    }
                                }
                                let min_ttl = recs.iter().map(|r| r.1 as f64).fold(f64::MAX, f64::min);
                                for (t, cl) in [(1u16, 1u16), (2, 1), (1, 3)] {
                                    up.set(
                                        qkey(&mk(t, cl)),
                                        Script {
                                            reply: Reply::Model(reply.clone(), dns::Compress::All),
                                            ..Default::default()
                                        },
                                    );
                                }
                                let ask = |id: u16, q: &dns::Question, do_bit: bool, cd: bool| -> Option<dns::Message> {
                                    let e = if do_bit {
                                        Some(dns::Edns {
                                            udp_size: 1232,
                                            ext_rcode: 0,
                                            version: 0,
                                            do_bit: true,
                                            options: vec![],
                                        })
                                    } else {
                                        None
                                    };
                                    let mut m = dns::query(id, &q.name, q.qtype, q.qclass, true, e);
                                    m.header.cd = cd;
                                    let b = dns::encode(&m, dns::Compress::Off);
                                    udp_exchange(IpAddr::V6(Ipv6Addr::LOCALHOST), dst, &b, Duration::from_secs(4), Duration::from_millis(1))
                                        .ok()
                                        .and_then(|g| g.first().cloned())
                                        .and_then(|g| dns::decode(&g.bytes).ok())
                                        .map(|x| x.0)
                                };
                                // first resolution
                                let t0 = Instant::now();
                                if ask(1, &base, false, false).is_none() {
                                    return Some(Fail::new("rig-error", "no reply to the first query"));
                                }
                                let birth_latest = t0.elapsed().as_secs_f64();
                                // near misses right away: each must be resolved upstream again
                                std::thread::sleep(Duration::from_millis(150));
                                let near: [(&str, dns::Question, bool, bool); 4] = [
                                    ("other-type", mk(2, 1), false, false),
                                    ("do-bit", mk(1, 1), true, false),
                                    ("cd-bit", mk(1, 1), false, true),
                                    ("class-ch", mk(1, 3), false, false),
                                ];
                                for (k, (what, q, d, cd)) in near.iter().enumerate() {
                                    let before = up.count_for(&qkey(q));
                                    let r = ask(10 + k as u16, q, *d, *cd);
                                    let after = up.count_for(&qkey(q));
                                    if r.is_some() && after == before {
                                        return Some(Fail::new(
                                            format!("C06:near-miss-served-from-cache:{}", what),
                                            format!("a query differing from the cached one in {} was answered without asking the upstream", what),
                                        ));
                                    }
                                }
                                // exact re-queries over time
                                for step in 0..6 {
                                    let target = 0.4 + step as f64;
                                    let now = t0.elapsed().as_secs_f64();
                                    if target > now {
                                        std::thread::sleep(Duration::from_secs_f64(target - now));
                                    }
                                    let before = up.count_for(&qkey(&base));
                                    let asked_at = t0.elapsed().as_secs_f64();
                                    let r = match ask(100 + step, &base, false, false) {
                                        Some(r) => r,
                                        None => return Some(Fail::new("rig-error", "no reply to a re-query")),
                                    };
                                    let after = up.count_for(&qkey(&base));
                                    let from_cache = after == before;
                                    // elapsed since the entry was obtained lies in [asked_at - birth_latest, asked_at]
                                    let e_min = asked_at - birth_latest;
                                    if from_cache {
                                        if e_min > min_ttl + 1.0 {
                                            return Some(Fail::new(
                                                "C06:served-past-ttl",
                                                format!("answered from cache {:.1} s after it was obtained; smallest TTL {} s", e_min, min_ttl),
                                            ));
                                        }
                                        for (g, w) in r.records().filter(|x| x.rtype != dns::T_OPT).zip(reply.records()) {
                                            let hi = w.ttl as f64 - e_min + 1.0;
                                            let lo = w.ttl as f64 - asked_at - 1.0;
                                            if g.ttl > w.ttl || g.ttl as f64 > hi || (g.ttl as f64) < lo {
                                                return Some(Fail::new(
                                                    "C06:cached-ttl-wrong",
                                                    format!("original TTL {}, about {:.1} s elapsed, served {}", w.ttl, asked_at, g.ttl),
                                                ));
                                            }
                                        }
                                    } else {
                                        // a fresh resolution restarts the clock for the rest of the loop
                                        return None;
                                    }
                                }
                                None
                            })
                        })
                        .collect();
                    hs.into_iter().map(|h| h.join().unwrap()).collect()
                });
                for f in fails.into_iter().flatten() {
                    out.fail(f.sig, f.detail);
                    return out;
                }
                if let Some(h) = self.rig.health() {
                    out.fail(h.sig, h.detail);
                }
                out
            })
            .collect()
    }
}

pub fn run_c06_wire(ctx: &Ctx) {
    let rig = match DnsRig::simple(None, "warn") {
        Ok(r) => r,
        Err(e) => {
            ctx.assume(format!("wire tier unavailable: {}", e));
            return;
        }
    };
    let prop = C06Wire { rig: &rig };
    let strat = proptest::collection::vec(proptest::collection::vec((0u8..3, 1u8..=4), 1..=5), ctx.tier.pick(40, 200)..=ctx.tier.pick(40, 200)).prop_map(|names| CacheWireCase { names });
    run_wire(ctx, &prop, strat, ctx.tier.pick(1, 20), 1);
    if !ctx.violations.lock().unwrap().is_empty() {
        return;
    }
    // Two clients ask the same question at the same moment; the upstream answers the first
    // transmission it sees (records of TTL 1..2 s) and nothing after it, so that one client is
    // answered at once and the other's query fails after the forwarder's retries (6..20 s).
    // Whatever the second client is told then, it is not the first client's answer: that left
    // the upstream longer ago than its TTL.
    for (k, ttl) in [(0u16, 2u32), (1, 1)] {
        let mut out = Outcome::default();
        out.nontrivial = true;
        out.class("twin-queries-one-answered-one-lost");
        let case = serde_json::json!({"twin_queries": true, "ttl": ttl});
        let name = vec![unique_label(), format!("twin{}", k).into_bytes(), b"test".to_vec()];
        let question = dns::Question { name: name.clone(), qtype: 1, qclass: 1 };
        let mut m = dns::Message {
            header: dns::Header { qr: true, rd: true, ra: true, ..Default::default() },
            questions: vec![question.clone()],
            ..Default::default()
        };
        m.answer.push(dns::Rr { name: name.clone(), rtype: 1, class: 1, ttl, rdata: dns::RData::Raw(vec![192, 0, 2, 77]) });
        rig.ups[0].state.set(qkey(&question), Script { reply: Reply::Model(m, dns::Compress::All), drop_mask: !1u32, ..Default::default() });
        let dst = rig.target(false);
        let t0 = std::time::Instant::now();
        let got: Vec<Option<(u16, usize, Vec<u32>, f64)>> = std::thread::scope(|sc| {
            let hs: Vec<_> = (0..2u16)
                .map(|i| {
                    let name = name.clone();
                    sc.spawn(move || {
                        let q = dns::encode(&dns::query(0x6600 + i, &name, 1, 1, true, None), dns::Compress::Off);
                        let g = udp_exchange(IpAddr::V6(Ipv6Addr::LOCALHOST), dst, &q, Duration::from_secs(40), Duration::from_millis(20)).ok()?;
                        let g = g.first()?;
                        let (r, _) = dns::decode(&g.bytes).ok()?;
                        Some((r.full_rcode(), r.answer.len(), r.answer.iter().map(|a| a.ttl).collect(), t0.elapsed().as_secs_f64()))
                    })
                })
                .collect();
            hs.into_iter().map(|h| h.join().unwrap()).collect()
        });
        let asked = rig.ups[0].state.seen_for(&qkey(&question));
        let answered_at = asked.iter().find(|s| s.answered).map(|s| s.at);
        for g in got.iter().flatten() {
            let (rcode, nans, ttls, at) = g;
            // an answer with records that reaches its client later than TTL + 1.5 s after the
            // upstream's only reply left can only be that reply, served past its TTL
            if *rcode == 0 && *nans > 0 && *at > ttl as f64 + 1.5 && answered_at.is_some() {
                out.fail(
                    "C06:wire:served-past-ttl",
                    format!(
                        "a client was answered with {} record(s) (TTLs {:?}) {:.1} s after asking; the upstream answered only once, with TTL {} s, {} transmissions seen in all",
                        nans, ttls, at, ttl, asked.len()
                    ),
                );
                break;
            }
        }
        if out.fail.is_none() {
            if let Some(h) = rig.health() {
                out.fail(h.sig, h.detail);
            }
        }
        ctx.record(prop.sub(), &case, &out);
        if let Some(f) = out.fail {
            if ctx.is_known(&f.sig) {
                ctx.known_hit(&f.sig);
            } else {
                ctx.violation(prop.sub(), &f, &case);
                return;
            }
        }
    }
}

// ---------------------------------------------------------------------------------------------
// C08 wire (DNS part)

#[derive(Clone, Debug, Serialize, Deserialize)]
pub struct AclWireCase {
    pub rules: Vec<acl::AclRule>,
    /// (source selector, ask over tcp)
    pub clients: Vec<(u8, bool)>,
}

/// Source addresses available in the rig.
fn source(i: u8) -> IpAddr {
    match i % 8 {
        0 => IpAddr::V4(Ipv4Addr::new(127, 0, 0, 1)),
        1 => IpAddr::V4(Ipv4Addr::new(127, 0, 0, 2)),
        2 => IpAddr::V4(Ipv4Addr::new(127, 0, 1, 200)),
        3 => IpAddr::V4(Ipv4Addr::new(127, 200, 3, 4)),
        4 => IpAddr::V6(Ipv6Addr::LOCALHOST),
        5 => IpAddr::V6(v6_local(0)),
        6 => IpAddr::V6(v6_local(1)),
        _ => IpAddr::V6(v6_local(8)),
    }
}

fn wire_pfx_strategy() -> impl Strategy<Value = acl::Pfx> {
    prop_oneof![
        3 => (0u8..4, prop_oneof![Just(8u8), Just(16), Just(24), Just(31), Just(32), 0u8..=32], any::<bool>()).prop_map(|(s, len, hb)| {
            let a = match source(s) { IpAddr::V4(a) => u32::from(a), _ => 0 };
            let m: u32 = if len == 0 { 0 } else { u32::MAX << (32 - len as u32) };
            acl::Pfx { ip: IpAddr::V4(Ipv4Addr::from(if hb { a } else { a & m })), len }
        }),
        3 => (4u8..8, prop_oneof![Just(64u8), Just(124), Just(127), Just(128), 0u8..=128], any::<bool>()).prop_map(|(s, len, hb)| {
            let a = match source(s) { IpAddr::V6(a) => u128::from(a), _ => 0 };
            let m: u128 = if len == 0 { 0 } else { u128::MAX << (128 - len as u32) };
            acl::Pfx { ip: IpAddr::V6(Ipv6Addr::from(if hb { a } else { a & m })), len }
        }),
        2 => (0u8..4, 96u8..=128, any::<bool>()).prop_map(|(s, len, hb)| {
            let a = match source(s) { IpAddr::V4(a) => 0xffff_0000_0000u128 | u32::from(a) as u128, _ => 0 };
            let m: u128 = u128::MAX << (128 - len as u32);
            acl::Pfx { ip: IpAddr::V6(Ipv6Addr::from(if hb { a } else { a & m })), len }
        }),
        // IPv6 prefixes short enough to contain (up to /80) or just miss (/81../95) the whole
        // IPv4-mapped range: an IPv4 client on the dual-stack socket is inside the former
        2 => prop_oneof![Just(0u8), Just(1), Just(8), Just(32), Just(64), Just(79), Just(80), Just(81), Just(95)]
            .prop_map(|len| acl::Pfx { ip: IpAddr::V6(Ipv6Addr::UNSPECIFIED), len }),
    ]
}

pub fn acl_wire_strategy() -> impl Strategy<Value = AclWireCase> {
    (
        proptest::collection::vec(
            (
                proptest::option::weighted(0.85, proptest::collection::vec(wire_pfx_strategy(), 0..=3)),
                prop_oneof![4 => Just(0u8), 1 => Just(2u8), 1 => Just(1u8)],
                proptest::collection::vec(any::<u16>().prop_map(|i| acl::ACCESS[pick_idx(i, acl::ACCESS.len())].to_string()), 0..=3),
            )
                .prop_map(|(subnets, unix, access)| acl::AclRule { subnets, unix, access }),
            0..=5,
        ),
        proptest::collection::vec((any::<u8>(), any::<bool>()), 4..=10),
    )
        .prop_map(|(rules, clients)| AclWireCase { rules, clients })
}

pub struct C08Wire {
    pub up: Upstream,
}

impl WireProp for C08Wire {
    type Case = AclWireCase;
    fn sub(&self) -> &'static str {
        "wire-dns-acl"
    }
    fn exec_batch(&self, cases: &[AclWireCase]) -> Vec<Outcome> {
        cases
            .iter()
            .map(|c| {
                let mut out = Outcome::default();
                // configuration text through the same renderer as the function tier
                let ac = acl::AclCase {
                    acls: Some(c.rules.clone()),
                    addresses: vec![],
                    clients: vec![],
                };
                let text = match acl::render(&ac) {
                    Some(t) => t,
                    None => {
                        out.excluded.push("yaml-emitter-did-not-round-trip");
                        return out;
                    }
                };
                let acls_yaml: String = text.lines().filter(|l| !l.starts_with("---")).map(|l| format!("{}\n", l)).collect();
                let p6 = crate::netns::free_port(IpAddr::V6(Ipv6Addr::UNSPECIFIED));
                let listeners = vec![SocketAddr::new(IpAddr::V6(Ipv6Addr::UNSPECIFIED), p6)];
                let routes = "dns-routes:\n  - domain-suffixes: [\"\"]\n    type: forward\n    dns-servers: [127.0.1.1]\n";
                let conf = dns_config(&listeners, routes, Some(&acls_yaml));
                let probe = SocketAddr::new(IpAddr::V6(Ipv6Addr::LOCALHOST), p6);
                let server = match DnsServer::start(&conf, probe, "warn") {
                    Ok(s) => s,
                    Err(e) => {
                        out.fail("rig-error", e);
                        return out;
                    }
                };
                // a name that is in the cache if anybody is allowed to put it there
                let shared = vec![unique_label(), b"shared".to_vec(), b"acl".to_vec()];
                let mut cached_by_someone = false;
                for (k, (sel, tcp)) in c.clients.iter().enumerate() {
                    let src = source(*sel);
                    // what the server sees: IPv4 sources arrive as mapped addresses on [::]
                    let seen = match src {
                        IpAddr::V4(a) => acl::Client::V6(Ipv6Addr::from(0xffff_0000_0000u128 | u32::from(a) as u128)),
                        IpAddr::V6(a) => acl::Client::V6(a),
                    };
                    let fm = match acl::first_match(&c.rules, &seen) {
                        None => {
                            out.excluded.push("documentation-silent-containment");
                            continue;
                        }
                        Some(x) => x,
                    };
                    let granted = fm.as_ref().map(|(_, p)| p.dns).unwrap_or(false);
                    if matches!(src, IpAddr::V4(_)) {
                        out.class("mapped-client");
                    }
                    out.nontrivial = true;
                    let dst = SocketAddr::new(
                        match src {
                            IpAddr::V4(_) => IpAddr::V4(Ipv4Addr::LOCALHOST),
                            IpAddr::V6(_) => IpAddr::V6(Ipv6Addr::LOCALHOST),
                        },
                        p6,
                    );
                    for (which, name) in [("fresh", vec![unique_label(), format!("k{}", k).into_bytes(), b"acl".to_vec()]), ("possibly-cached", shared.clone())] {
                        let q = dns::query(0x5000 + k as u16, &name, 1, 1, true, None);
                        let key = qkey(&q.questions[0]);
                        let before = self.up.state.count_for(&key);
                        let b = dns::encode(&q, dns::Compress::Off);
                        let got = if *tcp {
                            tcp_exchange_linger(Some(src), dst, &b, &[], Duration::from_secs(4), Duration::from_millis(5))
                        } else {
                            udp_exchange(src, dst, &b, Duration::from_millis(if granted { 4000 } else { 700 }), Duration::from_millis(5))
                        };
                        let got = match got {
                            Ok(g) => g,
                            Err(e) => {
                                out.fail("rig-error", e);
                                return out;
                            }
                        };
                        let after = self.up.state.count_for(&key);
                        let m = got.first().and_then(|g| dns::decode(&g.bytes).ok()).map(|x| x.0);
                        let desc = format!("client {} over {} asking a {} name; first matching rule {:?}", src, if *tcp { "TCP" } else { "UDP" }, which, fm.as_ref().map(|x| x.0));
                        if granted {
                            let ok = m.as_ref().map(|m| m.full_rcode() == 0 && m.answer.len() == 1 && m.answer[0].rdata == answer_for(&q.questions[0]).rdata);
                            if ok != Some(true) {
                                out.fail("C08:dns-granted-client-not-served", format!("{}: got {:?}", desc, m.as_ref().map(|m| m.full_rcode())));
                                return out;
                            }
                            if which == "possibly-cached" {
                                cached_by_someone = true;
                            }
                        } else {
                            match &m {
                                None if !*tcp => {}
                                Some(m) if m.full_rcode() == 5 && m.answer.is_empty() => {}
                                other => {
                                    out.fail(
                                        if which == "possibly-cached" && cached_by_someone { "C08:dns-refused-client-served-from-cache" } else { "C08:dns-refused-client-served" },
                                        format!("{}: got {:?}", desc, other.as_ref().map(|m| (m.full_rcode(), m.answer.len()))),
                                    );
                                    return out;
                                }
                            }
                            if after != before {
                                out.fail("C08:dns-refused-query-forwarded", format!("{}: the upstream was asked", desc));
                                return out;
                            }
                        }
                    }
                }
                if let Some(p) = server.panics().first() {
                    out.fail("server-panic", p.clone());
                }
                out
            })
            .collect()
    }
}

pub fn run_c08_wire(ctx: &Ctx) {
    let prop = match Upstream::start(IpAddr::V4(Ipv4Addr::new(127, 0, 1, 1))) {
        Ok(up) => C08Wire { up },
        Err(e) => {
            ctx.assume(format!("wire tier unavailable: {}", e));
            return;
        }
    };
    run_wire(ctx, &prop, acl_wire_strategy(), ctx.tier.pick(40, 600), 1);
}

// ---------------------------------------------------------------------------------------------
// C16 wire

#[derive(Clone, Debug, Serialize, Deserialize)]
pub struct LimiterCase {
    /// source selectors of the quiet sources
    pub quiet: Vec<u8>,
    /// number of refused queries in the blast (per blasting source)
    pub blast: u16,
    /// 0 same everything; 1 other source address; 2 other server address; 3 flipped bit;
    /// 4 random server part; 5 after restart
    pub cookie_variants: Vec<u8>,
}

pub struct C16Wire {
    pub up: Upstream,
}

fn refused_query(id: u16, cookie: Option<Vec<u8>>) -> Vec<u8> {
    // ANY queries are refused for every client
    let name = vec![unique_label(), b"any".to_vec(), b"test".to_vec()];
    let e = cookie.map(|c| dns::Edns {
        udp_size: 1232,
        ext_rcode: 0,
        version: 0,
        do_bit: false,
        options: vec![(10, c)],
    });
    dns::encode(&dns::query(id, &name, 255, 1, true, e), dns::Compress::Off)
}

fn is_refused(g: &Got) -> bool {
    dns::decode(&g.bytes).map(|(m, _)| m.full_rcode() == 5).unwrap_or(false)
}

fn server_cookie_of(g: &Got) -> Option<Vec<u8>> {
    let (m, _) = dns::decode(&g.bytes).ok()?;
    let e = m.edns()?.ok()?;
    e.options.iter().find(|o| o.0 == 10).map(|o| o.1.clone())
}

impl C16Wire {
    fn second_listener(first: u16) -> u16 {
        if first < 65000 {
            first + 1
        } else {
            first - 1
        }
    }

    fn start_server(&self) -> Result<(DnsServer, u16), String> {
        let p6 = crate::netns::free_port(IpAddr::V6(Ipv6Addr::UNSPECIFIED));
        // a second listener, one port up (see `second_listener`): a source's allowance is the
        // source's, whichever of the server's sockets it talks to
        let listeners = vec![
            SocketAddr::new(IpAddr::V6(Ipv6Addr::UNSPECIFIED), p6),
            SocketAddr::new(IpAddr::V4(Ipv4Addr::new(127, 0, 0, 53)), Self::second_listener(p6)),
        ];
        let routes = "dns-routes:\n  - domain-suffixes: [\"\"]\n    type: forward\n    dns-servers: [127.0.1.1]\n";
        let conf = dns_config(&listeners, routes, None);
        let probe = SocketAddr::new(IpAddr::V6(Ipv6Addr::LOCALHOST), p6);
        Ok((DnsServer::start(&conf, probe, "error")?, p6))
    }

    /// Send `n` refused queries from `src` to `dst` as fast as possible; number of REFUSED back.
    /// `n` refused queries from one source *address*, spread over eight source ports (the bound
    /// is per source, not per socket); returns the number of REFUSED responses.
    fn blast(src: IpAddr, dst: SocketAddr, n: usize, cookie: Option<Vec<u8>>) -> usize {
        let socks: Vec<std::net::UdpSocket> = (0..8).filter_map(|_| std::net::UdpSocket::bind((src, 0)).ok()).collect();
        if socks.is_empty() {
            return 0;
        }
        for i in 0..n {
            let _ = socks[i % socks.len()].send_to(&refused_query(i as u16, cookie.clone()), dst);
            if i % 64 == 63 {
                std::thread::sleep(Duration::from_millis(2));
            }
        }
        let mut buf = vec![0u8; 4096];
        let mut got = 0;
        for (k, sock) in socks.iter().enumerate() {
            sock.set_read_timeout(Some(Duration::from_millis(if k == 0 { 700 } else { 30 }))).unwrap();
            while let Ok((l, from)) = sock.recv_from(&mut buf) {
                if is_refused(&Got { bytes: buf[..l].to_vec(), from, after: Duration::ZERO }) {
                    got += 1;
                }
            }
        }
        got
    }
}

impl WireProp for C16Wire {
    type Case = LimiterCase;
    fn sub(&self) -> &'static str {
        "wire-limiter"
    }
    fn exec_batch(&self, cases: &[LimiterCase]) -> Vec<Outcome> {
        cases
            .iter()
            .map(|c| {
                let mut out = Outcome::default();
                out.nontrivial = true;
                let (server, port) = match self.start_server() {
                    Ok(x) => x,
                    Err(e) => {
                        out.fail("rig-error", e);
                        return out;
                    }
                };
                let dst_for = |src: &IpAddr| -> SocketAddr {
                    SocketAddr::new(
                        match src {
                            IpAddr::V4(_) => IpAddr::V4(Ipv4Addr::LOCALHOST),
                            IpAddr::V6(_) => IpAddr::V6(Ipv6Addr::LOCALHOST),
                        },
                        port,
                    )
                };
                // (1) quiet sources: each has never spoken; one refused query each
                let mut quiet: Vec<IpAddr> = c.quiet.iter().map(|s| source(*s)).collect();
                quiet.sort();
                quiet.dedup();
                for src in &quiet {
                    let got = udp_exchange(*src, dst_for(src), &refused_query(1, None), Duration::from_millis(1500), Duration::from_millis(100)).unwrap_or_default();
                    if got.len() != 1 || !is_refused(&got[0]) {
                        out.fail(
                            "C16:quiet-source-silence",
                            format!("source {} had sent nothing before; its first refused query got {} responses instead of one REFUSED", src, got.len()),
                        );
                        return out;
                    }
                    out.class("quiet-source-answered");
                }
                // (2) blast from a source that is not among the quiet ones
                let blaster = IpAddr::V4(Ipv4Addr::new(127, 77, 0, 1 + (c.blast % 200) as u8));
                let n = c.blast as usize;
                let answered = Self::blast(blaster, dst_for(&blaster), n, None);
                if n >= 200 && answered * 4 > n {
                    out.fail(
                        "C16:limiter-not-engaged",
                        format!("{} refused queries in one burst from {}: {} REFUSED responses came back", n, blaster, answered),
                    );
                    return out;
                }
                // (2b) the budget the burst used up stays used up: the same source asks again
                // shortly afterwards (the refill rate is a few tokens per second, one REFUSED
                // costs at least 200)
                if n >= 200 {
                    std::thread::sleep(Duration::from_millis(300));
                    let again = Self::blast(blaster, dst_for(&blaster), 200, None);
                    if again > 2 {
                        out.fail(
                            "C16:budget-restored-too-soon",
                            format!("{} got {} REFUSED for a burst of {}, and 0.3 s later {} more for a burst of 200", blaster, answered, n, again),
                        );
                        return out;
                    }
                    out.class("second-burst-still-limited");
                    // ... and asks the server's other listening socket
                    let other = SocketAddr::new(IpAddr::V4(Ipv4Addr::new(127, 0, 0, 53)), Self::second_listener(port));
                    let there = Self::blast(blaster, other, 200, None);
                    if there > 2 {
                        out.fail(
                            "C16:allowance-per-listening-socket",
                            format!("{} had used up its allowance at {} ({} REFUSED for {}), and at once got {} more REFUSED for a burst of 200 sent to {}", blaster, dst_for(&blaster), answered, n, there, other),
                        );
                        return out;
                    }
                    out.class("other-listener-still-limited");
                }
                let small = IpAddr::V4(Ipv4Addr::new(127, 78, 0, 1 + (c.blast % 200) as u8));
                let answered_small = Self::blast(small, dst_for(&small), 200.min(n), None);
                // The volume of REFUSED does not grow with what arrives: a source draws on two
                // buckets of 1000 tokens and one REFUSED costs at least 200, so ten per burst
                // (one more for what is refilled meanwhile), however large the burst.  The two
                // sources are not compared with each other: the 256 buckets are shared between
                // all sources, and one that shares a bucket with an earlier source of this case
                // legitimately gets less.
                for (who, got, sent) in [(blaster, answered, n), (small, answered_small, 200.min(n))] {
                    if got > 11 {
                        out.fail(
                            "C16:burst-over-budget",
                            format!("{} refused queries in one burst from {} got {} REFUSED responses; burst + rate x time allows 11", sent, who, got),
                        );
                        return out;
                    }
                }
                out.class("blast-bounded");
                // (3) cookies
                for v in &c.cookie_variants {
                    let src = IpAddr::V6(v6_local(3));
                    let dst = SocketAddr::new(IpAddr::V6(v6_local(4)), port);
                    let client_cookie: Vec<u8> = vec![0xc0, 0x0c, 1, 2, 3, 4, 5, *v];
                    // obtain a server cookie with a normal, answered query
                    let name = vec![unique_label(), b"cookie".to_vec(), b"test".to_vec()];
                    let q = dns::query(
                        9,
                        &name,
                        1,
                        1,
                        true,
                        Some(dns::Edns {
                            udp_size: 1232,
                            ext_rcode: 0,
                            version: 0,
                            do_bit: false,
                            options: vec![(10, client_cookie.clone())],
                        }),
                    );
                    let got = udp_exchange(src, dst, &dns::encode(&q, dns::Compress::Off), Duration::from_secs(4), Duration::from_millis(5)).unwrap_or_default();
                    let full = match got.first().and_then(server_cookie_of) {
                        Some(c) if c.len() >= 16 && c[..8] == client_cookie[..] => c,
                        other => {
                            out.fail("C16:no-server-cookie-issued", format!("reply to a query with a client cookie carries cookie {:?}", other.map(|c| c.len())));
                            return out;
                        }
                    };
                    let n = 60;
                    let (use_src, use_dst, cookie, restarted): (IpAddr, SocketAddr, Vec<u8>, Option<(DnsServer, u16)>) = match v {
                        0 => (src, dst, full.clone(), None),
                        1 => (IpAddr::V6(v6_local(5)), dst, full.clone(), None),
                        2 => (src, SocketAddr::new(IpAddr::V6(v6_local(6)), port), full.clone(), None),
                        3 => {
                            let mut f = full.clone();
                            let l = f.len();
                            f[l - 1] ^= 0x10;
                            (src, dst, f, None)
                        }
                        4 => {
                            let mut f = client_cookie.clone();
                            f.extend((0..(8 + (*v as usize * 5) % 24)).map(|i| (i * 37 + 11) as u8));
                            (src, dst, f, None)
                        }
                        6..=8 => {
                            // the algorithm is public (HMAC-SHA256 over client cookie, server
                            // address, client address); only the key is secret.  A server part
                            // computed under a key anyone can guess was never issued by this server.
                            use hmac::Mac as _;
                            let key: [u8; 8] = match v {
                                6 => [0u8; 8],
                                7 => [0xffu8; 8],
                                _ => [1, 2, 3, 4, 5, 6, 7, 8],
                            };
                            let mut h = hmac::Hmac::<sha2::Sha256>::new_from_slice(&key).unwrap();
                            h.update(&client_cookie);
                            if let (IpAddr::V6(d), IpAddr::V6(s_)) = (dst.ip(), src) {
                                h.update(&d.octets());
                                h.update(&s_.octets());
                            }
                            let mut f = client_cookie.clone();
                            f.extend_from_slice(h.finalize().into_bytes().as_slice());
                            (src, dst, f, None)
                        }
                        9..=11 => {
                            // the server's own cookie cut short (the client cookie plus the first
                            // 1, 8 or 16 octets of the server part): not what was issued
                            let keep = match v {
                                9 => 1,
                                10 => 8,
                                _ => 16,
                            };
                            let mut f = full.clone();
                            f.truncate(8 + keep);
                            (src, dst, f, None)
                        }
                        _ => match self.start_server() {
                            Ok((s2, p2)) => (src, SocketAddr::new(IpAddr::V6(v6_local(4)), p2), full.clone(), Some((s2, p2))),
                            Err(e) => {
                                out.fail("rig-error", e);
                                return out;
                            }
                        },
                    };
                    let answered = Self::blast(use_src, use_dst, n, Some(cookie));
                    drop(restarted);
                    if *v == 0 {
                        out.class("valid-cookie-exempt");
                        if answered < n - 2 {
                            out.fail(
                                "C16:valid-cookie-not-exempt",
                                format!("{} refused queries with the server's own cookie from the same addresses: only {} answered", n, answered),
                            );
                            return out;
                        }
                    } else {
                        out.class("invalid-cookie-not-exempt");
                        if answered * 2 > n {
                            let what = ["", "presented from another source address", "presented to another server address", "with one bit flipped", "with an invented server part", "issued before a restart", "computed with the public algorithm under the all-zero key", "computed with the public algorithm under the all-ones key", "computed with the public algorithm under the key 01..08", "cut to one octet of server part", "cut to 8 octets of server part", "cut to 16 octets of server part"][(*v as usize).min(11)];
                            out.fail(
                                format!("C16:invalid-cookie-exempt:{}", v),
                                format!("a cookie {} exempted the client: {} of {} refused queries answered", what, answered, n),
                            );
                            return out;
                        }
                    }
                }
                // (4) guessing: a source that has used up its allowance tries every one-octet
                // server part; whatever gets a REFUSED back is replayed in a burst
                {
                    let src = IpAddr::V6(v6_local(7));
                    let dst = SocketAddr::new(IpAddr::V6(v6_local(4)), port);
                    let client_cookie: Vec<u8> = vec![0xc0, 0x0c, 9, 9, 9, 9, 9, 9];
                    let _ = Self::blast(src, dst, 300, None);
                    let sock = match std::net::UdpSocket::bind((src, 0)) {
                        Ok(s) => s,
                        Err(e) => {
                            out.fail("rig-error", e.to_string());
                            return out;
                        }
                    };
                    sock.set_read_timeout(Some(Duration::from_millis(400))).unwrap();
                    for b in 0..=255u8 {
                        let mut ck = client_cookie.clone();
                        ck.push(b);
                        let _ = sock.send_to(&refused_query(0x4000 + b as u16, Some(ck)), dst);
                        if b % 64 == 63 {
                            std::thread::sleep(Duration::from_millis(2));
                        }
                    }
                    let mut accepted: Vec<u8> = vec![];
                    let mut buf = vec![0u8; 4096];
                    while let Ok((l, from)) = sock.recv_from(&mut buf) {
                        if l >= 2 && is_refused(&Got { bytes: buf[..l].to_vec(), from, after: Duration::ZERO }) {
                            let id = ((buf[0] as u16) << 8) | buf[1] as u16;
                            accepted.push((id & 0xff) as u8);
                        }
                    }
                    out.class("one-octet-server-parts-tried");
                    for b in accepted.iter().take(3) {
                        let mut ck = client_cookie.clone();
                        ck.push(*b);
                        let answered = Self::blast(src, dst, 40, Some(ck));
                        if answered * 2 > 40 {
                            out.fail(
                                "C16:invalid-cookie-exempt:guessed-short-server-part",
                                format!("one of 256 guesses for a one-octet server part ({:#04x}) exempts the source: {} of 40 refused queries answered", b, answered),
                            );
                            return out;
                        }
                    }
                }
                if let Some(p) = server.panics().first() {
                    out.fail("server-panic", p.clone());
                }
                out
            })
            .collect()
    }
}

pub fn run_c16_wire(ctx: &Ctx) {
    let prop = match Upstream::start(IpAddr::V4(Ipv4Addr::new(127, 0, 1, 1))) {
        Ok(up) => C16Wire { up },
        Err(e) => {
            ctx.assume(format!("wire tier unavailable: {}", e));
            return;
        }
    };
    let strat = (
        proptest::collection::vec(any::<u8>(), 1..=4),
        prop_oneof![Just(200u16), Just(600), 200u16..2000],
        proptest::collection::vec(0u8..12, 1..=4),
    )
        .prop_map(|(quiet, blast, mut cookie_variants)| {
            // the whole matrix in every case (the subset only orders it): each variant is one
            // short burst, and a case is a fresh server
            cookie_variants.extend(0u8..12);
            let mut seen = std::collections::HashSet::new();
            cookie_variants.retain(|v| seen.insert(*v));
            LimiterCase {
                quiet,
                blast,
                cookie_variants,
            }
        });
    // a steady flood from one source for longer than any plausible internal period (35 s;
    // thorough 100 s): the volume of REFUSED stays within burst + rate x time however long the
    // flood lasts, and the allowance does not come back while the source keeps asking
    {
        let secs = ctx.tier.pick(35u64, 100u64);
        let mut out = Outcome::default();
        out.nontrivial = true;
        out.class("steady-flood-across-half-minute-boundaries");
        let case = serde_json::json!({"steady_flood_seconds": secs, "queries_per_second": 20});
        match prop.start_server() {
            Err(e) => out.fail("rig-error", e),
            Ok((server, port)) => {
                let src = IpAddr::V4(Ipv4Addr::new(127, 79, 0, 1));
                let dst = SocketAddr::new(IpAddr::V4(Ipv4Addr::LOCALHOST), port);
                match std::net::UdpSocket::bind((src, 0)) {
                    Err(e) => out.fail("rig-error", e.to_string()),
                    Ok(sock) => {
                        sock.set_nonblocking(true).ok();
                        let start = std::time::Instant::now();
                        let mut arrivals: Vec<f64> = vec![];
                        let mut buf = vec![0u8; 4096];
                        let mut i = 0u32;
                        while start.elapsed() < Duration::from_secs(secs) {
                            let _ = sock.send_to(&refused_query(i as u16, None), dst);
                            i += 1;
                            std::thread::sleep(Duration::from_millis(50));
                            while let Ok((l, from)) = sock.recv_from(&mut buf) {
                                if is_refused(&Got { bytes: buf[..l].to_vec(), from, after: Duration::ZERO }) {
                                    arrivals.push(start.elapsed().as_secs_f64());
                                }
                            }
                        }
                        // one REFUSED costs at least 200 tokens; two buckets of 1000 tokens, refilled
                        // at 2 tokens a second each: 10 replies, plus one per 50 s of flood
                        let allowed = 10 + 1 + (secs as usize * 4) / 200;
                        if arrivals.len() > allowed {
                            out.fail(
                                "C16:steady-flood-over-budget",
                                format!(
                                    "{} refused queries in {} s from one source without a cookie got {} REFUSED responses (burst + rate x time allows {}); they arrived at {:?} s",
                                    i,
                                    secs,
                                    arrivals.len(),
                                    allowed,
                                    arrivals.iter().map(|t| (t * 10.0).round() / 10.0).collect::<Vec<_>>()
                                ),
                            );
                        }
                        if let Some(p) = server.panics().first() {
                            out.fail("server-panic", p.clone());
                        }
                    }
                }
            }
        }
        ctx.record(prop.sub(), &case, &out);
        if let Some(f) = out.fail {
            if ctx.is_known(&f.sig) {
                ctx.known_hit(&f.sig);
            } else {
                ctx.violation(prop.sub(), &f, &case);
                return;
            }
        }
    }
    // REFUSED responses of every size: the upstream refuses with 0..180 records (42..3000
    // octets) and the forwarder relays that to a source without a cookie that advertises 4096
    // octets; six questions at once per size, a fresh source per size.  A REFUSED costs at least
    // as many tokens as it has octets, so the octets sent to one source stay within
    // burst + rate x time whatever the size of each response.
    {
        let mut out = Outcome::default();
        out.nontrivial = true;
        out.class("relayed-refused-responses-of-every-size");
        let sizes = [0usize, 4, 12, 20, 30, 45, 70, 100, 140, 180];
        let case = serde_json::json!({"relayed_refused_with_records": sizes, "questions_per_size": 6});
        match prop.start_server() {
            Err(e) => out.fail("rig-error", e),
            Ok((server, port)) => {
                for (si, nrec) in sizes.iter().enumerate() {
                    let src = IpAddr::V4(Ipv4Addr::new(127, 81, 0, 1 + si as u8));
                    let dst = SocketAddr::new(IpAddr::V4(Ipv4Addr::LOCALHOST), port);
                    let t0 = std::time::Instant::now();
                    let got: Vec<(usize, usize)> = std::thread::scope(|sc| {
                        let hs: Vec<_> = (0..6)
                            .map(|k| {
                                let up = &prop.up;
                                sc.spawn(move || {
                                    let name = vec![unique_label(), format!("r{}", k).into_bytes(), b"refusing".to_vec(), b"test".to_vec()];
                                    let e = dns::Edns { udp_size: 4096, ext_rcode: 0, version: 0, do_bit: false, options: vec![] };
                                    let q = dns::query(0x5e00 + k as u16, &name, 1, 1, true, Some(e));
                                    let mut m = dns::Message {
                                        header: dns::Header { qr: true, rd: true, ra: true, rcode: 5, ..Default::default() },
                                        questions: q.questions.clone(),
                                        ..Default::default()
                                    };
                                    for r in 0..*nrec {
                                        m.answer.push(dns::Rr { name: name.clone(), rtype: 1, class: 1, ttl: 60, rdata: dns::RData::Raw(vec![192, 0, 2, r as u8]) });
                                    }
                                    up.state.set(qkey(&q.questions[0]), Script { reply: Reply::Model(m, dns::Compress::All), ..Default::default() });
                                    let b = dns::encode(&q, dns::Compress::Off);
                                    let got = udp_exchange(src, dst, &b, Duration::from_millis(1200), Duration::from_millis(50)).unwrap_or_default();
                                    let refused: Vec<&Got> = got.iter().filter(|g| is_refused(g)).collect();
                                    (refused.len(), refused.iter().map(|g| g.bytes.len()).sum::<usize>())
                                })
                            })
                            .collect();
                        hs.into_iter().map(|h| h.join().unwrap()).collect()
                    });
                    let count: usize = got.iter().map(|g| g.0).sum();
                    let octets: usize = got.iter().map(|g| g.1).sum();
                    let allowed = 2000.0 + 4.0 * (t0.elapsed().as_secs_f64() + 1.0) + 16.0;
                    if octets as f64 > allowed {
                        out.fail(
                            "C16:refused-octets-over-budget",
                            format!(
                                "{} got {} REFUSED responses, {} octets in all, for six questions the upstream refuses with {} records each; burst + rate x time allows {:.0} octets",
                                src, count, octets, nrec, allowed
                            ),
                        );
                        break;
                    }
                    if count > 0 {
                        out.class("relayed-refused-delivered");
                    }
                }
                if out.fail.is_none() {
                    if let Some(p) = server.panics().first() {
                        out.fail("server-panic", p.clone());
                    }
                }
            }
        }
        ctx.record(prop.sub(), &case, &out);
        if let Some(f) = out.fail {
            if ctx.is_known(&f.sig) {
                ctx.known_hit(&f.sig);
            } else {
                ctx.violation(prop.sub(), &f, &case);
                return;
            }
        }
    }
    run_wire(ctx, &prop, strat, ctx.tier.pick(4, 40), 1);
}

pub fn replay(id: &str, sub: &str, case: &serde_json::Value) -> Option<Result<Outcome, String>> {
    match (id, sub) {
        ("C05", "wire-dns") | ("C06", "wire-cache") => {
            let rig = match DnsRig::simple(None, "warn") {
                Ok(r) => r,
                Err(e) => return Some(Err(format!("wire rig unavailable: {}", e))),
            };
            if id == "C05" {
                Some(replay_wire(&C05Wire { rig: &rig }, case))
            } else {
                Some(replay_wire(&C06Wire { rig: &rig }, case))
            }
        }
        ("C08", "wire-dns-acl") | ("C16", "wire-limiter") => {
            let up = match Upstream::start(IpAddr::V4(Ipv4Addr::new(127, 0, 1, 1))) {
                Ok(u) => u,
                Err(e) => return Some(Err(format!("wire rig unavailable: {}", e))),
            };
            if id == "C08" {
                Some(replay_wire(&C08Wire { up }, case))
            } else {
                Some(replay_wire(&C16Wire { up }, case))
            }
        }
        _ => None,
    }
}
