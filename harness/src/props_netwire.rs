//! Wire tiers on the veth rig (real `erbium` / `erbium-dhcp`): C20 (lease listing + gauges),
//! C08 (HTTP ACL), C05 (hostile DHCP frames), C12 (broadcast bit + frames), C10 (lease time on
//! the wire vs database), C18 (SIGKILL instants).

use crate::engine::*;
use crate::hist::Row;
use crate::mutate;
use crate::props_acl as acl;
use crate::props_codec::HexBytes;
use crate::rfc2131 as wire;
use crate::wire_net::*;
use proptest::prelude::*;
use serde::{Deserialize, Serialize};
use std::net::{IpAddr, Ipv4Addr, Ipv6Addr, SocketAddr};
use std::time::{Duration, Instant};

pub fn base_conf(extra: &str) -> String {
    format!(
        "---\naddresses: [10.55.0.0/24, \"fd55::/64\"]\napi-listeners: [\"/var/lib/erbium/control\", \"[::]:9968\"]\ndns-routes: []\n{}",
        extra
    )
}

fn wipe_db() {
    let _ = std::fs::remove_file(LEASE_DB);
    let _ = std::fs::remove_file(format!("{}-journal", LEASE_DB));
    let _ = std::fs::remove_file(CONTROL);
}

fn wait_http(srv: &mut NetServer) -> Result<(), String> {
    let deadline = Instant::now() + Duration::from_secs(10);
    loop {
        if !srv.alive() {
            return Err(format!("erbium exited: {}", srv.stderr_tail()));
        }
        if std::path::Path::new(CONTROL).exists() {
            if let Ok(r) = http_unix(CONTROL, Some("/var/lib/erbium/probe.sock"), "/nonexistent") {
                if r.status > 0 {
                    return Ok(());
                }
            }
        }
        if Instant::now() > deadline {
            return Err(format!("HTTP API not ready: {}", srv.stderr_tail()));
        }
        std::thread::sleep(Duration::from_millis(30));
    }
}

fn panic_fail(srv: &NetServer) -> Option<Fail> {
    let p = srv.panics();
    let (line, msg) = p.first()?;
    let loc = line.split("panicked at ").nth(1).unwrap_or("").trim_end_matches(':');
    let file = loc.split(':').next().unwrap_or("").trim_start_matches("crates/");
    Some(Fail::new(panic_sig(msg, &format!("{}:0", file)), format!("server task panicked: {} {}", line.trim(), msg)))
}

fn mac_of(i: usize) -> [u8; 6] {
    [0x02, 0x11, 0, (i >> 16) as u8, (i >> 8) as u8, i as u8]
}

fn discover(i: usize, xid: u32, flags: u16) -> wire::Msg {
    let mut m = wire::Msg {
        xid,
        flags,
        ..Default::default()
    };
    m.set_hw(&mac_of(i));
    m.options.push((wire::OPT_MSG_TYPE, vec![wire::DISCOVER]));
    m
}

// ---------------------------------------------------------------------------------------------
// C20 wire

#[derive(Clone, Debug, Serialize, Deserialize)]
pub struct ListingCase {
    /// (client identifier, host name) per client
    pub clients: Vec<(Option<HexBytes>, Option<HexBytes>)>,
    /// every n-th lease is aged past its expiry before the gauges are read
    pub age_every: u8,
}

fn nasty_bytes() -> impl Strategy<Value = Vec<u8>> {
    prop_oneof![
        3 => proptest::collection::vec(any::<u8>(), 0..=40),
        2 => proptest::collection::vec(prop_oneof![Just(b'"'), Just(b'\\'), Just(0u8), Just(1u8), Just(0x1fu8), Just(0x7fu8), Just(b'/'), Just(b'a'), Just(0xc3u8), Just(0xa9u8), Just(0xe2u8), Just(0x80u8), Just(0xa8u8), Just(0xffu8), Just(b'\n'), Just(b'\t')], 0..=24),
        1 => proptest::collection::vec(any::<u8>(), 200..=255),
        // whole characters: the code points that text formats single out (line and paragraph
        // separator, next line, byte order mark, replacement character, noncharacters, the
        // first and last of every encoded length, bidi override, combining accent)
        3 => proptest::collection::vec(
            prop_oneof![
                Just('\u{2028}'), Just('\u{2029}'), Just('\u{85}'), Just('\u{a0}'), Just('\u{feff}'), Just('\u{fffd}'), Just('\u{fffe}'), Just('\u{ffff}'),
                Just('\u{10ffff}'), Just('\u{1f600}'), Just('\u{0}'), Just('\u{7f}'), Just('\u{80}'), Just('\u{7ff}'), Just('\u{800}'), Just('\u{d7ff}'),
                Just('\u{e000}'), Just('\u{10000}'), Just('\u{301}'), Just('\u{202e}'), Just('"'), Just('\\'), Just('a'), Just('/'), Just('\u{1b}'),
            ],
            1..=12,
        )
        .prop_map(|cs| cs.into_iter().collect::<String>().into_bytes()),
        // text that *reads* like an escape, an entity or the end of a value: what a renderer that
        // edits its own output, or a consumer that unescapes twice, trips over
        2 => proptest::collection::vec(
            prop_oneof![
                Just("\\u0000"), Just("\\u2028"), Just("\\n"), Just("\\\""), Just("\\\\"), Just("\\x00"), Just("\\"), Just("%00"), Just("&quot;"), Just("</script>"),
                Just("\" }"), Just("\"}"), Just("]}"), Just("\", \"x\": \""), Just("pc"), Just("0000"), Just("u"),
            ],
            1..=5,
        )
        .prop_map(|v| v.concat().into_bytes()),
        1 => "[a-z0-9-]{1,16}".prop_map(|s| s.into_bytes()),
        1 => Just(vec![]),
    ]
}

pub fn listing_strategy(max_clients: usize) -> impl Strategy<Value = ListingCase> {
    (
        proptest::collection::vec(
            (
                proptest::option::weighted(0.6, nasty_bytes().prop_map(HexBytes)),
                proptest::option::weighted(0.8, nasty_bytes().prop_map(HexBytes)),
            ),
            2..=max_clients,
        ),
        0u8..4,
    )
        .prop_map(|(clients, age_every)| ListingCase { clients, age_every })
}

pub struct C20Wire {
    pub raw: RawIf,
}

impl WireProp for C20Wire {
    type Case = ListingCase;
    fn sub(&self) -> &'static str {
        "wire-listing"
    }
    fn exec_batch(&self, cases: &[ListingCase]) -> Vec<Outcome> {
        cases.iter().map(|c| self.run(c)).collect()
    }
}

impl C20Wire {
    fn gauges(&self) -> Result<(i64, i64), String> {
        let r = http_unix(CONTROL, Some("/var/lib/erbium/cli.sock"), "/metrics")?;
        if r.status != 200 {
            return Err(format!("/metrics status {}", r.status));
        }
        let text = String::from_utf8_lossy(&r.body).to_string();
        let get = |name: &str| -> Option<i64> {
            text.lines()
                .find(|l| l.starts_with(name) && !l.starts_with('#'))
                .and_then(|l| l.split_whitespace().nth(1))
                .and_then(|v| v.parse::<f64>().ok())
                .map(|v| v as i64)
        };
        match (get("dhcp_active_leases"), get("dhcp_expired_leases")) {
            (Some(a), Some(e)) => Ok((a, e)),
            _ => Err("gauges missing from /metrics".into()),
        }
    }

    fn run(&self, c: &ListingCase) -> Outcome {
        let mut out = Outcome::default();
        wipe_db();
        // the unix socket may do everything; one TCP client may read the metrics and nothing else
        // (what a monitoring host is given), another the listing and nothing else
        let acls = format!(
            "acls:\n  - match-unix: true\n    apply-access: [http-ro, dhcp-client]\n  - match-subnets: [\"{}/32\"]\n    apply-access: [http-metrics]\n  - match-subnets: [\"{}/32\"]\n    apply-access: [http-leases]\n  - match-subnets: [\"0.0.0.0/0\", \"::/0\"]\n    apply-access: [dhcp-client]\n",
            CLI4[0], CLI4[1]
        );
        let mut srv = match NetServer::start("erbium", &base_conf(&acls), "warn") {
            Ok(s) => s,
            Err(e) => {
                out.fail("rig-error", e);
                return out;
            }
        };
        if let Err(e) = srv.wait_dhcp_ready(&self.raw).and_then(|_| wait_http(&mut srv)) {
            out.fail("rig-error", e);
            return out;
        }
        // gauges before the generated clients exist: start from what the readiness probe left
        match (self.gauges(), db_rows()) {
            (Ok((a, e)), Ok(rows)) => {
                let now = crate::hist::wall_now() as i64;
                let act = rows.iter().filter(|r| r.expire as i64 > now).count() as i64;
                if (a, e) != (act, rows.len() as i64 - act) {
                    out.fail("C20:gauge-mismatch", format!("gauges active={} expired={}, database active={} expired={}", a, e, act, rows.len() as i64 - act));
                    return out;
                }
            }
            (Err(e), _) => {
                out.fail("C20:gauges-unavailable", e);
                return out;
            }
            (_, Err(e)) => {
                out.fail("rig-error", e);
                return out;
            }
        }
        self.raw.drain();
        let mut needs_escaping = false;
        for (i, (cid, host)) in c.clients.iter().enumerate() {
            let mut m = discover(1000 + i, 0x2000_0000 + i as u32, 0x8000);
            if let Some(id) = cid {
                if !id.0.is_empty() {
                    m.options.push((wire::OPT_CLIENT_ID, id.0.clone()));
                }
            }
            if let Some(h) = host {
                m.options.push((wire::OPT_HOSTNAME, h.0.clone()));
                if h.0.iter().any(|b| *b < 0x20 || *b == b'"' || *b == b'\\' || *b >= 0x7f) {
                    needs_escaping = true;
                }
            }
            let _ = dhcp_exchange(&self.raw, &m, Duration::from_millis(1500));
        }
        if needs_escaping {
            out.class("host-name-needs-json-escaping");
        }
        let rows = match db_rows() {
            Ok(r) => r,
            Err(e) => {
                out.fail("rig-error", e);
                return out;
            }
        };
        out.nontrivial = rows.len() >= 2 && needs_escaping;
        // ---- the listing
        let resp = match http_unix(CONTROL, Some("/var/lib/erbium/cli.sock"), "/api/v1/leases.json") {
            Ok(r) => r,
            Err(e) => {
                out.fail("C20:listing-unavailable", e);
                return out;
            }
        };
        if resp.status != 200 {
            out.fail("C20:listing-unavailable", format!("status {}", resp.status));
            return out;
        }
        let v: serde_json::Value = match serde_json::from_slice(&resp.body) {
            Ok(v) => v,
            Err(e) => {
                let text = String::from_utf8_lossy(&resp.body);
                let at = e.column().saturating_sub(30);
                let line = text.lines().nth(e.line().saturating_sub(1)).unwrap_or("");
                let frag: String = line.chars().skip(at).take(60).collect();
                out.fail("C20:listing-not-json", format!("{} near {:?}", e, frag));
                return out;
            }
        };
        let entries = match v.get("leases").and_then(|l| l.as_array()) {
            Some(a) => a.clone(),
            None => {
                out.fail("C20:listing-shape", "no \"leases\" array");
                return out;
            }
        };
        let mut listed: Vec<(Ipv4Addr, Vec<u8>, i64, i64)> = vec![];
        for e in &entries {
            let ip = e.get("ip").and_then(|x| x.as_str()).and_then(|s| s.parse::<Ipv4Addr>().ok());
            let cid = e.get("client_id").and_then(|x| x.as_str()).map(|s| {
                s.split(':').filter(|p| !p.is_empty()).filter_map(|p| u8::from_str_radix(p, 16).ok()).collect::<Vec<u8>>()
            });
            let st = e.get("start").and_then(|x| x.as_i64());
            let ex = e.get("expire").and_then(|x| x.as_i64());
            match (ip, cid, st, ex) {
                (Some(a), Some(b), Some(c), Some(d)) => listed.push((a, b, c, d)),
                _ => {
                    out.fail("C20:listing-entry-malformed", format!("{}", e));
                    return out;
                }
            }
        }
        listed.sort();
        let mut want: Vec<(Ipv4Addr, Vec<u8>, i64, i64)> = rows.iter().map(|r: &Row| (r.ip, r.client.clone(), r.start as i64, r.expire as i64)).collect();
        want.sort();
        if listed != want {
            let missing = want.iter().find(|w| !listed.contains(w));
            let extra = listed.iter().find(|l| !want.contains(l));
            out.fail(
                "C20:listing-differs-from-store",
                format!("{} entries listed, {} rows stored; first missing {:?}, first invented {:?}", listed.len(), want.len(), missing, extra),
            );
            return out;
        }
        // ---- scrapes while DHCP traffic is being handled: rows are only ever added here (every
        // lease runs >= 300 s), so a scrape between two listings reports a count between theirs
        {
            let count_listing = || -> Option<i64> {
                let r = http_unix(CONTROL, Some("/var/lib/erbium/cli.sock"), "/api/v1/leases.json").ok()?;
                if r.status != 200 {
                    return None;
                }
                let v: serde_json::Value = serde_json::from_slice(&r.body).ok()?;
                Some(v.get("leases")?.as_array()?.len() as i64)
            };
            let mut stale: Option<String> = None;
            let mut scrapes = 0;
            let mut next_client = 30000usize;
            for round in 0..8 {
                let Some(before) = count_listing() else { continue };
                // a burst of back-to-back DISCOVERs from new clients: the server is still working
                // through it (one task per packet, all wanting the lease store) when the scrape
                // arrives
                for _ in 0..30 {
                    let m = discover(next_client, 0x7700_0000 + next_client as u32, 0x8000);
                    next_client += 1;
                    let _ = self.raw.send(&dhcp_frame(&m));
                }
                if round % 2 == 1 {
                    std::thread::sleep(Duration::from_millis(2));
                }
                let g = self.gauges();
                let Some(after) = count_listing() else { continue };
                if let Ok((a, e)) = g {
                    scrapes += 1;
                    if a < before || a > after || e != 0 {
                        stale = Some(format!(
                            "listing before the scrape: {} leases, after: {}; the scrape in between reports active={} expired={}",
                            before, after, a, e
                        ));
                        break;
                    }
                }
            }
            // the server may still be working through the last burst: wait until the store has
            // stopped changing before anything is compared sequentially again
            let mut last = -1i64;
            for _ in 0..40 {
                std::thread::sleep(Duration::from_millis(250));
                let n = db_rows().map(|r| r.len() as i64).unwrap_or(-2);
                if n == last {
                    break;
                }
                last = n;
            }
            self.raw.drain();
            if scrapes > 0 {
                out.class("scraped-under-dhcp-load");
            }
            if let Some(d) = stale {
                out.fail("C20:gauge-stale-under-load", d);
                return out;
            }
        }
        let rows = match db_rows() {
            Ok(r) => r,
            Err(e) => {
                out.fail("rig-error", e);
                return out;
            }
        };
        // ---- the first scrape of a client that may read the metrics and nothing else (nobody
        // with more rights has scraped since the store last changed)
        {
            let now = crate::hist::wall_now() as i64;
            if !rows.iter().any(|r| (r.expire as i64 - now).abs() <= 2) {
                let act = rows.iter().filter(|r| r.expire as i64 > now).count() as i64;
                let exp = rows.len() as i64 - act;
                match http_tcp(IpAddr::V4(CLI4[0]), SocketAddr::new(IpAddr::V4(SRV4), 9968), "/metrics") {
                    Ok(r) if r.status == 200 => {
                        let text = String::from_utf8_lossy(&r.body).to_string();
                        let get = |name: &str| -> Option<i64> {
                            text.lines()
                                .find(|l| l.starts_with(name) && !l.starts_with('#'))
                                .and_then(|l| l.split_whitespace().nth(1))
                                .and_then(|v| v.parse::<f64>().ok())
                                .map(|v| v as i64)
                        };
                        out.class("scraped-by-a-metrics-only-client");
                        let got = (get("dhcp_active_leases"), get("dhcp_expired_leases"));
                        if got != (Some(act), Some(exp)) {
                            out.fail(
                                "C20:gauge-mismatch:metrics-only-client",
                                format!("a client whose rule grants http-metrics only scrapes active={:?} expired={:?}; the database holds active={} expired={}", got.0, got.1, act, exp),
                            );
                            return out;
                        }
                    }
                    Ok(r) => {
                        out.fail("C20:gauges-unavailable", format!("metrics-only client: status {}", r.status));
                        return out;
                    }
                    Err(e) => {
                        out.fail("C20:gauges-unavailable", format!("metrics-only client: {}", e));
                        return out;
                    }
                }
            }
        }
        // ---- gauges with both classes non-empty
        if c.age_every > 0 {
            if let Ok(conn) = rusqlite::Connection::open(LEASE_DB) {
                let _ = conn.busy_timeout(Duration::from_secs(2));
                for (k, r) in rows.iter().enumerate() {
                    if k % c.age_every as usize == 0 {
                        let _ = conn.execute(
                            "UPDATE leases SET start = start - 100000, expiry = expiry - 100000 WHERE address = ?1",
                            rusqlite::params![r.ip.to_string()],
                        );
                    }
                }
            }
        }
        let rows2 = db_rows().unwrap_or_default();
        let now = crate::hist::wall_now() as i64;
        if rows2.iter().any(|r| (r.expire as i64 - now).abs() <= 2) {
            out.excluded.push("clock-edge");
        } else {
            let act = rows2.iter().filter(|r| r.expire as i64 > now).count() as i64;
            let exp = rows2.len() as i64 - act;
            if act > 0 && exp > 0 {
                out.class("gauges-both-classes-non-empty");
                out.nontrivial = true;
            }
            match self.gauges() {
                Ok((a, e)) => {
                    if (a, e) != (act, exp) {
                        out.fail("C20:gauge-mismatch", format!("gauges active={} expired={}, database active={} expired={}", a, e, act, exp));
                        return out;
                    }
                }
                Err(e) => {
                    out.fail("C20:gauges-unavailable", e);
                    return out;
                }
            }
        }
        if let Some(f) = panic_fail(&srv) {
            out.fail(f.sig, f.detail);
        }
        out
    }
}

// ---------------------------------------------------------------------------------------------
// C08 wire (HTTP)

#[derive(Clone, Debug, Serialize, Deserialize)]
pub struct HttpAclCase {
    pub rules: Vec<acl::AclRule>,
    /// 0..2 TCP/IPv4 from client address i, 3..5 TCP/IPv6, 6 unix (bound), 7 unix (unbound)
    pub clients: Vec<u8>,
}

fn net_pfx_strategy() -> impl Strategy<Value = acl::Pfx> {
    prop_oneof![
        3 => (0usize..3, prop_oneof![Just(24u8), Just(25), Just(31), Just(32), 0u8..=32], any::<bool>()).prop_map(|(i, len, hb)| {
            let a = u32::from(CLI4[i]);
            let m: u32 = if len == 0 { 0 } else { u32::MAX << (32 - len as u32) };
            acl::Pfx { ip: IpAddr::V4(Ipv4Addr::from(if hb { a } else { a & m })), len }
        }),
        3 => (0usize..3, prop_oneof![Just(64u8), Just(112), Just(127), Just(128), 0u8..=128], any::<bool>()).prop_map(|(i, len, hb)| {
            let a = u128::from(cli6(i));
            let m: u128 = if len == 0 { 0 } else { u128::MAX << (128 - len as u32) };
            acl::Pfx { ip: IpAddr::V6(Ipv6Addr::from(if hb { a } else { a & m })), len }
        }),
        2 => (0usize..3, 96u8..=128, any::<bool>()).prop_map(|(i, len, hb)| {
            let a = 0xffff_0000_0000u128 | u32::from(CLI4[i]) as u128;
            let m: u128 = u128::MAX << (128 - len as u32);
            acl::Pfx { ip: IpAddr::V6(Ipv6Addr::from(if hb { a } else { a & m })), len }
        }),
    ]
}

pub fn http_acl_strategy() -> impl Strategy<Value = HttpAclCase> {
    (
        proptest::collection::vec(
            (
                proptest::option::weighted(0.7, proptest::collection::vec(net_pfx_strategy(), 0..=3)),
                prop_oneof![3 => Just(0u8), 1 => Just(1u8), 1 => Just(2u8)],
                proptest::collection::vec(any::<u16>().prop_map(|i| acl::ACCESS[pick_idx(i, acl::ACCESS.len())].to_string()), 0..=3),
            )
                .prop_map(|(subnets, unix, access)| acl::AclRule { subnets, unix, access }),
            0..=5,
        ),
        proptest::collection::vec(0u8..8, 3..=8),
    )
        .prop_map(|(rules, clients)| HttpAclCase { rules, clients })
}

pub struct C08Http {
    pub raw: RawIf,
}

impl WireProp for C08Http {
    type Case = HttpAclCase;
    fn sub(&self) -> &'static str {
        "wire-http-acl"
    }
    fn exec_batch(&self, cases: &[HttpAclCase]) -> Vec<Outcome> {
        cases
            .iter()
            .map(|c| {
                let mut out = Outcome::default();
                let ac = acl::AclCase {
                    acls: Some(c.rules.clone()),
                    addresses: vec![],
                    clients: vec![],
                };
                let text = match acl::render(&ac) {
                    Some(t) => t,
                    None => {
                        out.excluded.push("yaml-emitter-did-not-round-trip");
                        return out;
                    }
                };
                let acls_yaml: String = text.lines().filter(|l| !l.starts_with("---") && !l.starts_with("dns-search")).map(|l| format!("{}\n", l)).collect();
                wipe_db();
                let mut srv = match NetServer::start("erbium", &base_conf(&acls_yaml), "warn") {
                    Ok(s) => s,
                    Err(e) => {
                        out.fail("rig-error", e);
                        return out;
                    }
                };
                if let Err(e) = srv.wait_dhcp_ready(&self.raw).and_then(|_| wait_http(&mut srv)) {
                    out.fail("rig-error", e);
                    return out;
                }
                for sel in &c.clients {
                    let (client, desc): (acl::Client, String) = match sel {
                        0..=2 => (
                            acl::Client::V6(Ipv6Addr::from(0xffff_0000_0000u128 | u32::from(CLI4[*sel as usize]) as u128)),
                            format!("TCP from {}", CLI4[*sel as usize]),
                        ),
                        3..=5 => (acl::Client::V6(cli6(*sel as usize - 3)), format!("TCP from {}", cli6(*sel as usize - 3))),
                        6 => (acl::Client::Unix, "unix socket (bound client)".into()),
                        _ => (acl::Client::Unix, "unix socket (unbound client)".into()),
                    };
                    let fm = match acl::first_match(&c.rules, &client) {
                        None => {
                            out.excluded.push("documentation-silent-containment");
                            continue;
                        }
                        Some(x) => x,
                    };
                    out.nontrivial = true;
                    // several requests on ONE connection: every request is judged on its own,
                    // whatever was granted or refused on the connection before it
                    if *sel <= 5 {
                        let pages: Vec<(&str, Option<bool>)> = [("/", "http"), ("/metrics", "http-metrics"), ("/api/v1/leases.json", "http-leases")]
                            .iter()
                            .map(|(path, what)| {
                                (*path, match &fm {
                                    None => Some(false),
                                    Some((_, p)) => match *what {
                                        "http" => p.http,
                                        "http-metrics" => Some(p.metrics),
                                        _ => Some(p.leases),
                                    },
                                })
                            })
                            .collect();
                        let granted: Vec<&str> = pages.iter().filter(|p| p.1 == Some(true)).map(|p| p.0).collect();
                        let refused: Vec<&str> = pages.iter().filter(|p| p.1 == Some(false)).map(|p| p.0).collect();
                        if let (Some(g), false) = (granted.first(), refused.is_empty()) {
                            let mut seq: Vec<&str> = vec![g];
                            for r in &refused {
                                seq.push(r);
                            }
                            seq.push(g);
                            seq.push(refused[0]);
                            let r = match sel {
                                0..=2 => http_tcp_seq(IpAddr::V4(CLI4[*sel as usize]), SocketAddr::new(IpAddr::V4(SRV4), 9968), &seq),
                                _ => http_tcp_seq(IpAddr::V6(cli6(*sel as usize - 3)), SocketAddr::new(IpAddr::V6(srv6()), 9968), &seq),
                            };
                            out.class("granted-then-refused-pages-on-one-connection");
                            match r {
                                Err(e) => {
                                    // a server may close after a refusal; what was answered is judged
                                    out.class("keep-alive-connection-closed-early");
                                    let _ = e;
                                }
                                Ok(rs) => {
                                    for (path, resp) in seq.iter().zip(rs.iter()) {
                                        let want = if granted.contains(path) { 200 } else { 403 };
                                        if resp.status != want {
                                            out.fail(
                                                format!("C08:http-keep-alive:{}", if want == 403 { "served-but-model-refuses" } else { "refused-but-model-grants" }),
                                                format!("{}: requests {:?} on one connection answered {:?}; first-match model (rule {:?}) says {} for {}", desc, seq, rs.iter().map(|r| r.status).collect::<Vec<_>>(), fm.as_ref().map(|x| x.0), want, path),
                                            );
                                            return out;
                                        }
                                    }
                                }
                            }
                        }
                    }
                    for (path, what) in [("/", "http"), ("/metrics", "http-metrics"), ("/api/v1/leases.json", "http-leases")] {
                        let granted: Option<bool> = match &fm {
                            None => Some(false),
                            Some((_, p)) => match what {
                                "http" => p.http,
                                "http-metrics" => Some(p.metrics),
                                _ => Some(p.leases),
                            },
                        };
                        let granted = match granted {
                            Some(g) => g,
                            None => {
                                out.excluded.push("http-ro-alias-and-root-page");
                                continue;
                            }
                        };
                        let r = match sel {
                            0..=2 => http_tcp(IpAddr::V4(CLI4[*sel as usize]), SocketAddr::new(IpAddr::V4(SRV4), 9968), path),
                            3..=5 => http_tcp(IpAddr::V6(cli6(*sel as usize - 3)), SocketAddr::new(IpAddr::V6(srv6()), 9968), path),
                            6 => http_unix(CONTROL, Some("/var/lib/erbium/cli.sock"), path),
                            _ => http_unix(CONTROL, None, path),
                        };
                        let status = match r {
                            Ok(r) => r.status,
                            Err(e) => {
                                let kind = if *sel >= 6 { "unix" } else { "tcp" };
                                out.fail(
                                    format!("C08:http-no-response:{}{}", kind, if *sel == 7 { ":unbound" } else { "" }),
                                    format!("{} GET {}: {}; server: {}", desc, path, e, srv.panics().first().map(|p| format!("{} {}", p.0, p.1)).unwrap_or_default()),
                                );
                                return out;
                            }
                        };
                        let want = if granted { 200 } else { 403 };
                        if status != want {
                            out.fail(
                                format!("C08:http-{}-{}", what, if granted { "refused-but-model-grants" } else { "served-but-model-refuses" }),
                                format!("{} GET {}: status {}, first-match model (rule {:?}) says {}", desc, path, status, fm.as_ref().map(|x| x.0), want),
                            );
                            return out;
                        }
                        // whatever the request method: a page is never handed to a client whose
                        // first matching rule lacks the permission for it
                        if !granted {
                            for method in ["HEAD", "POST", "PUT", "DELETE", "OPTIONS"] {
                                let mp = format!("{} {}", method, path);
                                let r = match sel {
                                    0..=2 => http_tcp(IpAddr::V4(CLI4[*sel as usize]), SocketAddr::new(IpAddr::V4(SRV4), 9968), &mp),
                                    3..=5 => http_tcp(IpAddr::V6(cli6(*sel as usize - 3)), SocketAddr::new(IpAddr::V6(srv6()), 9968), &mp),
                                    6 => http_unix(CONTROL, Some("/var/lib/erbium/cli.sock"), &mp),
                                    _ => http_unix(CONTROL, None, &mp),
                                };
                                out.class("non-get-request-to-a-refused-page");
                                if let Ok(r) = r {
                                    if r.status == 200 {
                                        out.fail(
                                            format!("C08:http-{}-served-but-model-refuses", what),
                                            format!("{} {} {}: status 200, first-match model (rule {:?}) refuses {}", desc, method, path, fm.as_ref().map(|x| x.0), what),
                                        );
                                        return out;
                                    }
                                }
                            }
                            // ... and whatever the spelling of the request target: the content of
                            // the page (recognised by what only it contains) never reaches that
                            // client under another spelling of its path either
                            let marker: Option<&[u8]> = match what {
                                "http-metrics" => Some(b"# TYPE"),
                                "http-leases" => Some(b"\"leases\""),
                                _ => None,
                            };
                            if let Some(marker) = marker {
                                let p = path;
                                let spellings = [
                                    format!("GET {}?x=1", p),
                                    format!("GET {}/", p),
                                    format!("GET /.{}", p),
                                    format!("GET /{}", p),
                                    format!("GET {}#f", p),
                                    format!("GET {}", p.to_uppercase()),
                                    format!("GET /%{:02x}{}", p.as_bytes()[1], &p[2..]),
                                    format!("GET http://erbium{}", p),
                                    format!("GET {}%00", p),
                                    format!("GET {};a=b", p),
                                ];
                                for mp in spellings.iter() {
                                    let r = match sel {
                                        0..=2 => http_tcp(IpAddr::V4(CLI4[*sel as usize]), SocketAddr::new(IpAddr::V4(SRV4), 9968), mp),
                                        3..=5 => http_tcp(IpAddr::V6(cli6(*sel as usize - 3)), SocketAddr::new(IpAddr::V6(srv6()), 9968), mp),
                                        6 => http_unix(CONTROL, Some("/var/lib/erbium/cli.sock"), mp),
                                        _ => http_unix(CONTROL, None, mp),
                                    };
                                    out.class("other-spelling-of-a-refused-page");
                                    if let Ok(r) = r {
                                        if r.status == 200 && r.body.windows(marker.len()).any(|w| w == marker) {
                                            out.fail(
                                                format!("C08:http-{}-served-under-another-spelling", what),
                                                format!("{} `{}`: status 200 with the page's content, first-match model (rule {:?}) refuses {}", desc, mp, fm.as_ref().map(|x| x.0), what),
                                            );
                                            return out;
                                        }
                                    }
                                }
                            }
                        }
                    }
                }
                if let Some(f) = panic_fail(&srv) {
                    out.fail(f.sig, f.detail);
                }
                out
            })
            .collect()
    }
}

// ---------------------------------------------------------------------------------------------
// C05 wire (DHCP frames), C12 wire (broadcast bit, frames), C10 wire (lease time vs database)

#[derive(Clone, Debug, Serialize, Deserialize)]
pub struct DhcpWireCase {
    pub hostile: Vec<HexBytes>,
}

pub struct DhcpWire {
    pub raw: RawIf,
    pub srv: std::sync::Mutex<NetServer>,
    /// "C05" | "C12" | "C10"
    pub mode: &'static str,
    pub seq: std::sync::atomic::AtomicU32,
}

impl DhcpWire {
    pub fn new(mode: &'static str) -> Result<DhcpWire, String> {
        let raw = RawIf::open("cli0")?;
        wipe_db();
        let mut srv = NetServer::start("erbium-dhcp", &base_conf(""), "warn")?;
        srv.wait_dhcp_ready(&raw)?;
        Ok(DhcpWire {
            raw,
            srv: std::sync::Mutex::new(srv),
            mode,
            seq: std::sync::atomic::AtomicU32::new(1),
        })
    }

    fn next(&self) -> u32 {
        self.seq.fetch_add(1, std::sync::atomic::Ordering::Relaxed)
    }
}

impl WireProp for DhcpWire {
    type Case = DhcpWireCase;
    fn sub(&self) -> &'static str {
        "wire-dhcp"
    }
    fn exec_batch(&self, cases: &[DhcpWireCase]) -> Vec<Outcome> {
        cases
            .iter()
            .map(|c| {
                let mut out = Outcome::default();
                out.nontrivial = true;
                let seen_before = self.srv.lock().unwrap().panics().len();
                for h in &c.hostile {
                    // deliver the payload in a well-formed broadcast frame
                    let f = crate::ethip::build_udp4([0xff; 6], [2, 0x66, 0, 0, 0, 1], Ipv4Addr::UNSPECIFIED, 68, Ipv4Addr::BROADCAST, 67, &h.0[..h.0.len().min(1472)]);
                    let _ = self.raw.send(&f);
                }
                std::thread::sleep(Duration::from_millis(60));
                self.raw.drain();
                // liveness: a well-formed DISCOVER must be answered.  Four probe clients take
                // turns: each holds a lease from its first turn on, so the probe is answered
                // even when well-formed members of the hostile batches (every distinct client
                // identifier is a client) have used up the /24 meanwhile
                let k = self.next();
                let m = discover(5000 + (k % 4) as usize, 0x3000_0000 + k, 0x8000);
                let r = dhcp_exchange(&self.raw, &m, Duration::from_secs(3));
                let mut srv = self.srv.lock().unwrap();
                let panics = srv.panics();
                if panics.len() > seen_before {
                    let (line, msg) = &panics[seen_before];
                    let loc = line.split("panicked at ").nth(1).unwrap_or("").trim_end_matches(':');
                    let file = loc.split(':').next().unwrap_or("").trim_start_matches("crates/");
                    out.fail(panic_sig(msg, &format!("{}:0", file)), format!("handler task panicked on a received frame: {} {}", line.trim(), msg));
                    return out;
                }
                if !srv.alive() {
                    out.fail("C05:service-died", srv.stderr_tail());
                    return out;
                }
                match r {
                    Some(Ok(_)) => {}
                    other => {
                        out.fail("C05:service-stopped-answering", format!("DISCOVER after the hostile batch: {:?}", other.map(|r| r.map(|_| ()))));
                    }
                }
                out
            })
            .collect()
    }
}

/// C12 / C10 on the wire: one DISCOVER + REQUEST per flag value.
pub fn run_flags_and_lease_times(ctx: &Ctx, rig: &DhcpWire, flags: &[u16]) {
    for (n, f) in flags.iter().enumerate() {
        let k = rig.next();
        let i = 7000 + k as usize;
        let mut out = Outcome::default();
        out.nontrivial = true;
        let d = discover(i, 0x4000_0000 + k, *f);
        let t0 = crate::hist::wall_now() as i64;
        let offer = dhcp_exchange(&rig.raw, &d, Duration::from_secs(3));
        let case = serde_json::json!({"flags": f, "client": i, "n": n});
        let check = |r: Option<Result<DhcpReplyFrame, (String, String)>>, req: &wire::Msg, out: &mut Outcome| -> Option<DhcpReplyFrame> {
            match r {
                None => {
                    out.fail("wire:no-reply", format!("no reply to message type {:?} with flags {:#06x}", req.msg_type(), req.flags));
                    None
                }
                Some(Err((tag, d))) => {
                    out.fail(format!("C12:frame:{}", tag), d);
                    None
                }
                Some(Ok(fr)) => {
                    let want_b = req.flags & 0x8000 != 0;
                    let is_b = fr.frame.ip_dst == Ipv4Addr::BROADCAST;
                    if rig.mode == "C12" {
                        if want_b != is_b {
                            out.fail(
                                if want_b { "C12:wire:broadcast-bit-ignored" } else { "C12:wire:broadcast-without-bit" },
                                format!("flags {:#06x}: IPv4 destination {}", req.flags, fr.frame.ip_dst),
                            );
                            return None;
                        }
                        if !is_b && fr.frame.ip_dst != fr.msg.yiaddr {
                            out.fail("C12:wire:unicast-not-to-yiaddr", format!("{} vs {}", fr.frame.ip_dst, fr.msg.yiaddr));
                            return None;
                        }
                        if fr.frame.eth_dst[..] != req.hw()[..6.min(req.hw().len())] {
                            out.fail("C12:wire:ethernet-destination", format!("{:02x?}", fr.frame.eth_dst));
                            return None;
                        }
                        if fr.msg.xid != req.xid || fr.msg.flags != req.flags || fr.msg.op != 2 {
                            out.fail("C12:wire:reply-does-not-echo-request", format!("xid {:#x} flags {:#x} op {}", fr.msg.xid, fr.msg.flags, fr.msg.op));
                            return None;
                        }
                    }
                    Some(fr)
                }
            }
        };
        let offer = check(offer, &d, &mut out);
        if let Some(o) = &offer {
            let mut rq = discover(i, 0x4100_0000 + k, *f);
            rq.options.clear();
            rq.options.push((wire::OPT_MSG_TYPE, vec![wire::REQUEST]));
            rq.options.push((wire::OPT_SERVER_ID, SRV4.octets().to_vec()));
            rq.options.push((wire::OPT_REQUESTED_IP, o.msg.yiaddr.octets().to_vec()));
            let ack = dhcp_exchange(&rig.raw, &rq, Duration::from_secs(3));
            let ack = check(ack, &rq, &mut out);
            // RENEWING / REBINDING: ciaddr filled in, no server identifier; the broadcast bit
            // still decides where the reply goes (once as the client set it, once inverted)
            if rig.mode == "C12" && out.fail.is_none() {
                if let Some(a) = &ack {
                    for (j, fl) in [*f, *f ^ 0x8000].into_iter().enumerate() {
                        let mut rn = discover(i, 0x4200_0000 + (k << 1) + j as u32, fl);
                        rn.options.clear();
                        rn.options.push((wire::OPT_MSG_TYPE, vec![wire::REQUEST]));
                        rn.ciaddr = a.msg.yiaddr;
                        let r = dhcp_exchange(&rig.raw, &rn, Duration::from_secs(3));
                        if check(r, &rn, &mut out).is_none() {
                            break;
                        }
                    }
                }
            }
            if rig.mode == "C10" {
                for (what, fr) in [("OFFER", Some(o)), ("ACK", ack.as_ref())] {
                    let fr = match fr {
                        Some(f) => f,
                        None => continue,
                    };
                    let l = match fr.msg.opt(wire::OPT_LEASE_TIME) {
                        Some(v) if v.len() == 4 => u32::from_be_bytes([v[0], v[1], v[2], v[3]]) as i64,
                        other => {
                            out.fail(format!("C10:wire:no-lease-time:{}", what), format!("{:?}", other));
                            break;
                        }
                    };
                    if !(300..=86400).contains(&l) {
                        out.fail("C10:wire:out-of-bounds", format!("{} advertises {} s", what, l));
                        break;
                    }
                    if what == "ACK" {
                        match db_rows().ok().and_then(|rows| rows.into_iter().find(|r| r.ip == fr.msg.yiaddr)) {
                            None => out.fail("C10:wire:no-record", format!("no row for {}", fr.msg.yiaddr)),
                            Some(r) => {
                                if r.expire as i64 - r.start as i64 != l || (r.expire as i64) < t0 + l {
                                    out.fail("C10:wire:record-mismatch", format!("ACK advertises {} s; row start {} expire {} (request sent at {})", l, r.start, r.expire, t0));
                                }
                            }
                        }
                    }
                }
            }
        }
        ctx.record("wire-dhcp-exchange", &case, &out);
        if let Some(f) = out.fail {
            ctx.violation("wire-dhcp-exchange", &f, &case);
            return;
        }
    }
}

pub fn hostile_dhcp_strategy() -> impl Strategy<Value = DhcpWireCase> {
    let mut seeds = mutate::dhcp_seeds();
    seeds.extend(mutate::dhcp_nested());
    seeds.extend(mutate::dhcp_long_split().into_iter().step_by(3));
    let ns = seeds.len();
    let one = (any::<u16>(), any::<u32>(), proptest::collection::vec((any::<u16>(), any::<u8>()), 0..3)).prop_map(move |(si, fam, edits)| {
        let seed = &seeds[pick_idx(si, ns)];
        let mut b = if fam % 3 == 0 {
            mutate::family_member(seed, fam as u64 % mutate::family_size(seed.len()))
        } else {
            seed.clone()
        };
        for (pos, val) in edits {
            if !b.is_empty() {
                let i = pick_idx(pos, b.len());
                b[i] = val;
            }
        }
        HexBytes(b)
    });
    proptest::collection::vec(one, 16..=64).prop_map(|hostile| DhcpWireCase { hostile })
}

// ---------------------------------------------------------------------------------------------
// C18 wire: SIGKILL instants

#[derive(Clone, Debug, Serialize, Deserialize)]
pub struct KillCase {
    pub clients: u8,
    /// kill after this many frames
    pub after_frames: u16,
    /// plus this many microseconds
    pub extra_us: u16,
}

pub struct C18Kill {
    pub raw: RawIf,
}

impl WireProp for C18Kill {
    type Case = KillCase;
    fn sub(&self) -> &'static str {
        "wire-kill"
    }
    fn exec_batch(&self, cases: &[KillCase]) -> Vec<Outcome> {
        cases
            .iter()
            .map(|c| {
                let mut out = Outcome::default();
                wipe_db();
                let mut srv = match NetServer::start("erbium-dhcp", &base_conf(""), "warn") {
                    Ok(s) => s,
                    Err(e) => {
                        out.fail("rig-error", e);
                        return out;
                    }
                };
                if let Err(e) = srv.wait_dhcp_ready(&self.raw) {
                    out.fail("rig-error", e);
                    return out;
                }
                self.raw.drain();
                let n = c.clients.max(2) as usize;
                // a stream of DISCOVERs (round robin over the clients), then REQUESTs
                let mut sent = 0u16;
                let mut acked: Vec<(Ipv4Addr, Vec<u8>)> = vec![];
                let mut offers: Vec<Option<Ipv4Addr>> = vec![None; n];
                let total = c.after_frames.max(1);
                'outer: loop {
                    for i in 0..n {
                        let xid = 0x5000_0000 + sent as u32;
                        let mut m = discover(9000 + i, xid, 0x8000);
                        if let Some(a) = offers[i] {
                            m.options.clear();
                            m.options.push((wire::OPT_MSG_TYPE, vec![wire::REQUEST]));
                            m.options.push((wire::OPT_SERVER_ID, SRV4.octets().to_vec()));
                            m.options.push((wire::OPT_REQUESTED_IP, a.octets().to_vec()));
                        }
                        let _ = self.raw.send(&dhcp_frame(&m));
                        sent += 1;
                        if sent >= total {
                            break 'outer;
                        }
                        // read the reply (if it comes quickly) so that later frames are REQUESTs
                        if let Some(Ok(fr)) = recv_dhcp_reply(&self.raw, xid, Duration::from_millis(40)) {
                            offers[i] = Some(fr.msg.yiaddr);
                            acked.push((fr.msg.yiaddr, mac_of(9000 + i).to_vec()));
                        }
                    }
                }
                // the generated instant
                let t = Instant::now();
                while t.elapsed() < Duration::from_micros(c.extra_us as u64) {
                    std::hint::spin_loop();
                }
                srv.kill();
                // replies that were already on the wire when the process died
                let deadline = Instant::now() + Duration::from_millis(50);
                while Instant::now() < deadline {
                    if let Some(f) = self.raw.recv(Duration::from_millis(10)) {
                        if let Ok(fr) = crate::ethip::decode_udp4(&f) {
                            if fr.sport == 67 {
                                if let Ok(m) = wire::Msg::decode(&fr.payload) {
                                    acked.push((m.yiaddr, m.hw().to_vec()));
                                }
                            }
                        }
                    }
                }
                drop(srv);
                // ---- the database must open and contain every lease whose reply was seen
                let mut pool = match erbium::dhcp::pool::Pool::verif_open(std::path::Path::new(LEASE_DB)) {
                    Ok(p) => p,
                    Err(e) => {
                        out.fail("C18:database-does-not-open-after-kill", e.to_string());
                        return out;
                    }
                };
                let rows = match pool.get_leases() {
                    Ok(r) => r,
                    Err(e) => {
                        out.fail("C18:leases-unreadable-after-kill", e.to_string());
                        return out;
                    }
                };
                drop(pool);
                let clients_with_rows: std::collections::HashSet<&Vec<u8>> = rows.iter().map(|r| &r.client_id).collect();
                out.nontrivial = clients_with_rows.len() >= 2;
                for r in &rows {
                    let d = r.expire as i64 - r.start as i64;
                    if r.client_id.is_empty() || !(300..=86400).contains(&d) {
                        out.fail("C18:partially-written-lease", format!("row {} client {:02x?} start {} expire {}", r.ip, r.client_id, r.start, r.expire));
                        return out;
                    }
                }
                for (ip, mac) in &acked {
                    // the readiness probe's clients are not in `acked`; every reply seen is
                    if !rows.iter().any(|r| r.ip == *ip && r.client_id == *mac) {
                        out.fail(
                            "C18:acknowledged-lease-lost",
                            format!("a reply assigning {} to {:02x?} was on the wire before the kill, the database has no such row ({} rows)", ip, mac, rows.len()),
                        );
                        return out;
                    }
                }
                // ---- the restarted server gives the same clients the same addresses
                let mut srv2 = match NetServer::start("erbium-dhcp", &base_conf(""), "warn") {
                    Ok(s) => s,
                    Err(e) => {
                        out.fail("rig-error", e);
                        return out;
                    }
                };
                if let Err(e) = srv2.wait_dhcp_ready(&self.raw) {
                    out.fail("C18:server-does-not-restart", e);
                    return out;
                }
                let mut latest: std::collections::HashMap<Vec<u8>, Ipv4Addr> = Default::default();
                for (ip, mac) in &acked {
                    latest.insert(mac.clone(), *ip);
                }
                for (k, (mac, ip)) in latest.iter().enumerate() {
                    let mut m = wire::Msg {
                        xid: 0x5800_0000 + k as u32,
                        flags: 0x8000,
                        ..Default::default()
                    };
                    m.set_hw(mac);
                    m.options.push((wire::OPT_MSG_TYPE, vec![wire::DISCOVER]));
                    match dhcp_exchange(&self.raw, &m, Duration::from_secs(2)) {
                        Some(Ok(fr)) => {
                            if fr.msg.yiaddr != *ip {
                                out.fail("C18:address-changed-after-restart", format!("{:02x?} had {} before the kill, is offered {} after", mac, ip, fr.msg.yiaddr));
                                return out;
                            }
                        }
                        other => {
                            out.fail("C18:no-reply-after-restart", format!("{:?}", other.map(|r| r.map(|_| ()))));
                            return out;
                        }
                    }
                }
                out
            })
            .collect()
    }
}

// ---------------------------------------------------------------------------------------------
// entry points

pub fn run_c20_wire(ctx: &Ctx) {
    let raw = match RawIf::open("cli0") {
        Ok(r) => r,
        Err(e) => {
            ctx.assume(format!("wire tier unavailable: {}", e));
            return;
        }
    };
    let prop = C20Wire { raw };
    // first one client per piece of text that reads like an escape, an entity or the end of a
    // value (and a few of the separator characters), so that each is seen in every run
    {
        let names: Vec<&[u8]> = vec![
            b"\\u0000", b"pc\\u0000", b"\\u2028", b"\\n", b"\\\"", b"\\\\", b"\\", b"a\\", b"%00", b"&quot;", b"</script>", b"\" }", b"\"}", b"]}", b"\", \"x\": \"", b"printer\0",
            "\u{2028}".as_bytes(), "\u{2029}".as_bytes(), "\u{feff}".as_bytes(), b"\xff\xfe", b"",
        ];
        let case = ListingCase {
            clients: names.iter().enumerate().map(|(i, n)| (if i % 3 == 0 { Some(HexBytes(vec![0, i as u8, b'"', b'\\'])) } else { None }, Some(HexBytes(n.to_vec())))).collect(),
            age_every: 0,
        };
        let mut out = exec_one(&prop, &case);
        out.class("one-client-per-escape-like-text");
        ctx.record(prop.sub(), &case, &out);
        if let Some(f) = out.fail {
            if ctx.is_known(&f.sig) {
                ctx.known_hit(&f.sig);
            } else {
                ctx.violation(prop.sub(), &f, &case);
                return;
            }
        }
    }
    run_wire(ctx, &prop, listing_strategy(ctx.tier.pick(40, 250)), ctx.tier.pick(8, 200), 1);
}

pub fn run_c08_http(ctx: &Ctx) {
    let raw = match RawIf::open("cli0") {
        Ok(r) => r,
        Err(e) => {
            ctx.assume(format!("wire tier unavailable: {}", e));
            return;
        }
    };
    let prop = C08Http { raw };
    run_wire(ctx, &prop, http_acl_strategy(), ctx.tier.pick(12, 300), 1);
}

pub fn run_c05_dhcp_wire(ctx: &Ctx) {
    match DhcpWire::new("C05") {
        Ok(rig) => {
            // the options-longer-than-one-instance family, every member, in batches of 48
            let fam = mutate::dhcp_long_split();
            for chunk in fam.chunks(48) {
                let case = DhcpWireCase { hostile: chunk.iter().map(|b| HexBytes(b.clone())).collect() };
                let mut out = exec_one(&rig, &case);
                out.class("options-split-over-several-instances");
                ctx.record(rig.sub(), &case, &out);
                if let Some(f) = out.fail {
                    if ctx.is_known(&f.sig) {
                        ctx.known_hit(&f.sig);
                    } else {
                        // name the one frame that does it
                        let culprit = chunk.iter().find(|b| {
                            let one = DhcpWireCase { hostile: vec![HexBytes((*b).clone())] };
                            exec_one(&rig, &one).fail.is_some()
                        });
                        let case = match culprit {
                            Some(b) => DhcpWireCase { hostile: vec![HexBytes(b.clone())] },
                            None => case,
                        };
                        ctx.violation(rig.sub(), &f, &case);
                        return;
                    }
                }
            }
            run_wire(ctx, &rig, hostile_dhcp_strategy(), ctx.tier.pick(24, 400), 1)
        }
        Err(e) => ctx.assume(format!("DHCP wire tier unavailable: {}", e)),
    }
}

pub fn run_c12_wire(ctx: &Ctx) {
    match DhcpWire::new("C12") {
        Ok(rig) => {
            let flags: Vec<u16> = if ctx.tier == Tier::Quick {
                vec![0x0000, 0x8000, 0x0080, 0x0001, 0x4000, 0x7fff, 0xffff, 0x8080, 0x0100, 0x8001, 0x00ff, 0xff00]
            } else {
                (0..16).flat_map(|b| [1u16 << b, !(1u16 << b)]).chain([0, 0xffff, 0x8080, 0x7f7f]).collect()
            };
            run_flags_and_lease_times(ctx, &rig, &flags);
            drop(rig);
            if ctx.violations.lock().unwrap().is_empty() {
                run_c12_big_replies(ctx);
            }
        }
        Err(e) => ctx.assume(format!("DHCP wire tier unavailable: {}", e)),
    }
}

/// C12 on the wire, replies of every size up to and beyond what one frame on the link carries: a
/// configuration with a long search list and portal URL, clients asking for them.  Whatever
/// frame comes back is judged in full (lengths, checksums, option walk up to the end option,
/// the values of options 119 and 114); a reply that does not fit the link cannot be sent and no
/// frame is then the expected outcome.
pub fn run_c12_big_replies(ctx: &Ctx) {
    let raw = match RawIf::open("cli0") {
        Ok(r) => r,
        Err(e) => {
            ctx.assume(format!("wire tier unavailable: {}", e));
            return;
        }
    };
    let confs: Vec<(usize, usize)> = if ctx.tier == Tier::Quick {
        vec![(4, 40), (16, 200), (19, 120), (20, 250), (21, 30), (22, 180), (24, 250)]
    } else {
        (0..=26).flat_map(|d| [(d, 20usize), (d, 135), (d, 250)]).collect()
    };
    let mut k = 0u32;
    for (ndom, urllen) in confs {
        // domains that share no suffix (nothing for a compressing encoder to fold)
        let doms: Vec<String> = (0..ndom).map(|i| format!("{}.t{:02}x", "d".repeat(40 + (i * 7) % 17), i)).collect();
        let url = format!("https://portal.example/{}", "p".repeat(urllen.saturating_sub(23)));
        let extra = format!(
            "dns-search: [{}]\ncaptive-portal: \"{}\"\n",
            doms.iter().map(|d| format!("\"{}\"", d)).collect::<Vec<_>>().join(", "),
            url
        );
        wipe_db();
        let mut srv = match NetServer::start("erbium-dhcp", &base_conf(&extra), "warn") {
            Ok(s) => s,
            Err(e) => {
                ctx.assume(format!("DHCP wire tier unavailable: {}", e));
                return;
            }
        };
        if let Err(e) = srv.wait_dhcp_ready(&raw) {
            ctx.assume(format!("DHCP wire tier unavailable: {}", e));
            return;
        }
        for (pi, pl) in [vec![119u8, 114], vec![119], vec![114, 1, 3, 6], vec![1, 3, 6, 15, 26, 28, 51, 58, 59, 119, 114, 121]].iter().enumerate() {
            k += 1;
            let mut out = Outcome::default();
            out.nontrivial = true;
            let case = serde_json::json!({"search_domains": ndom, "portal_url_octets": url.len(), "parameter_list": pl, "n": k});
            let mut d = discover(9000 + k as usize, 0x6000_0000 + k, if pi % 2 == 0 { 0x8000 } else { 0 });
            d.options.push((wire::OPT_PARAM_LIST, pl.clone()));
            match dhcp_exchange(&raw, &d, Duration::from_secs(2)) {
                None => {
                    // nothing on the wire: fine for a reply larger than the link carries, as
                    // long as the server is still there for the next client
                    out.class("no-frame-for-a-reply-that-may-exceed-the-link");
                    let small = discover(9500 + k as usize, 0x6100_0000 + k, 0x8000);
                    match dhcp_exchange(&raw, &small, Duration::from_secs(3)) {
                        Some(Ok(_)) => {}
                        other => out.fail("C12:wire:server-gone-after-a-large-reply", format!("{:?}; {}", other.map(|r| r.map(|_| ())), srv.stderr_tail())),
                    }
                }
                Some(Err((tag, d))) => out.fail(format!("C12:frame:{}", tag), format!("{} (search list of {} domains, URL of {} octets, parameter list {:?})", d, ndom, url.len(), pl)),
                Some(Ok(fr)) => {
                    let len = fr.frame.payload.len();
                    out.class(if len > 1200 { "reply-longer-than-1200-octets" } else if len > 576 { "reply-longer-than-576-octets" } else { "reply-up-to-576-octets" });
                    if pl.contains(&114) {
                        match fr.msg.opt(114) {
                            Some(v) if v == url.as_bytes() => {}
                            other => out.fail("C12:wire:option-value-differs", format!("option 114: {:?} octets on the wire, {} configured", other.map(|v| v.len()), url.len())),
                        }
                    }
                    if pl.contains(&119) && ndom > 0 {
                        let want: Vec<u8> = doms
                            .iter()
                            .flat_map(|d| {
                                let mut v: Vec<u8> = d.split('.').flat_map(|l| std::iter::once(l.len() as u8).chain(l.bytes())).collect();
                                v.push(0);
                                v
                            })
                            .collect();
                        match fr.msg.opt(119) {
                            Some(v) if v == want => {}
                            other => out.fail("C12:wire:option-value-differs", format!("option 119: {:?} octets on the wire, {} expected", other.map(|v| v.len()), want.len())),
                        }
                    }
                }
            }
            if let Some((line, msg)) = srv.panics().first() {
                out.fail("server-panic", format!("{} {}", line, msg));
            }
            ctx.record("wire-large-replies", &case, &out);
            if let Some(f) = out.fail {
                ctx.violation("wire-large-replies", &f, &case);
                return;
            }
        }
    }
}

pub fn run_c10_wire(ctx: &Ctx) {
    match DhcpWire::new("C10") {
        Ok(rig) => {
            let flags: Vec<u16> = (0..ctx.tier.pick(12, 200)).map(|i| if i % 2 == 0 { 0x8000 } else { 0 }).collect();
            run_flags_and_lease_times(ctx, &rig, &flags);
        }
        Err(e) => ctx.assume(format!("DHCP wire tier unavailable: {}", e)),
    }
}

pub fn run_c18_kill(ctx: &Ctx) {
    let raw = match RawIf::open("cli0") {
        Ok(r) => r,
        Err(e) => {
            ctx.assume(format!("wire tier unavailable: {}", e));
            return;
        }
    };
    let prop = C18Kill { raw };
    let strat = (4u8..=16, 1u16..80, 0u16..2000).prop_map(|(clients, after_frames, extra_us)| KillCase {
        clients,
        after_frames,
        extra_us,
    });
    run_wire(ctx, &prop, strat, ctx.tier.pick(12, 300), 1);
    ctx.extra("fault_enumeration", serde_json::json!({"kill_instants_sampled": ctx.tier.pick(12, 300), "exhaustive": false}));
}

pub fn replay(id: &str, sub: &str, case: &serde_json::Value) -> Option<Result<Outcome, String>> {
    let raw = || RawIf::open("cli0").map_err(|e| format!("wire rig unavailable: {}", e));
    match (id, sub) {
        ("C17", "wire-ra") => Some(C17Wire::new().and_then(|p| replay_wire(&p, case))),
        ("C20", "wire-listing") => Some(raw().and_then(|raw| replay_wire(&C20Wire { raw }, case))),
        ("C08", "wire-http-acl") => Some(raw().and_then(|raw| replay_wire(&C08Http { raw }, case))),
        ("C18", "wire-kill") => Some(raw().and_then(|raw| replay_wire(&C18Kill { raw }, case))),
        ("C05", "wire-dhcp") => Some(DhcpWire::new("C05").and_then(|rig| replay_wire(&rig, case))),
        ("C12", "wire-dhcp-exchange") | ("C10", "wire-dhcp-exchange") => {
            let mode = if id == "C12" { "C12" } else { "C10" };
            let flags = case.get("flags").and_then(|f| f.as_u64()).unwrap_or(0) as u16;
            Some(DhcpWire::new(mode).map(|rig| {
                let ctx = Ctx::new(id, Tier::Quick, "exploration");
                run_flags_and_lease_times(&ctx, &rig, &[flags]);
                let v = ctx.violations.lock().unwrap();
                let mut out = Outcome::default();
                if let Some(x) = v.first() {
                    out.fail(x.sig.clone(), x.detail.clone());
                }
                out
            }))
        }
        _ => None,
    }
}

// ---------------------------------------------------------------------------------------------
// C17 wire: router solicitation -> captured router advertisement from the real erbium

pub struct C17Wire {
    pub raw: RawIf,
    pub cli_ll: Ipv6Addr,
}

pub const SRV_MAC: [u8; 6] = [0x02, 0, 0, 0, 0, 0x51];
pub const CLI_MAC: [u8; 6] = [0x02, 0, 0, 0, 0, 0xc1];

fn link_local(dev: &str) -> Option<Ipv6Addr> {
    let t = crate::netns::sh(&format!("ip -6 -o addr show dev {} scope link", dev)).ok()?;
    t.split_whitespace()
        .find(|w| w.starts_with("fe80"))
        .and_then(|w| w.split('/').next())
        .and_then(|a| a.parse().ok())
}

fn rs_frame(src: &Ipv6Addr) -> Vec<u8> {
    let dst: Ipv6Addr = "ff02::2".parse().unwrap();
    let mut icmp = vec![133u8, 0, 0, 0, 0, 0, 0, 0, 1, 1];
    icmp.extend_from_slice(&CLI_MAC);
    let ck = crate::rfc4861::icmp6_checksum(src, &dst, &icmp);
    icmp[2] = (ck >> 8) as u8;
    icmp[3] = ck as u8;
    let mut f = vec![0x33, 0x33, 0, 0, 0, 2];
    f.extend_from_slice(&CLI_MAC);
    f.extend_from_slice(&[0x86, 0xdd]);
    f.extend_from_slice(&[0x60, 0, 0, 0]);
    f.extend_from_slice(&(icmp.len() as u16).to_be_bytes());
    f.push(58);
    f.push(255);
    f.extend_from_slice(&src.octets());
    f.extend_from_slice(&dst.octets());
    f.extend_from_slice(&icmp);
    f
}

impl C17Wire {
    pub fn new() -> Result<C17Wire, String> {
        let raw = RawIf::open("cli0")?;
        let cli_ll = link_local("cli0").ok_or("cli0 has no link-local address")?;
        Ok(C17Wire { raw, cli_ll })
    }

    /// Solicit and capture one RA: (hop limit, checksum ok, ICMPv6 message).
    fn solicit(&self) -> Option<(u8, bool, Vec<u8>)> {
        for _ in 0..4 {
            self.raw.drain();
            let _ = self.raw.send(&rs_frame(&self.cli_ll));
            let deadline = Instant::now() + Duration::from_millis(1200);
            while Instant::now() < deadline {
                let f = match self.raw.recv(Duration::from_millis(200)) {
                    Some(f) => f,
                    None => continue,
                };
                if f.len() < 14 + 40 + 16 || f[12] != 0x86 || f[13] != 0xdd || f[14 + 6] != 58 {
                    continue;
                }
                let ip = &f[14..];
                let plen = ((ip[4] as usize) << 8) | ip[5] as usize;
                if ip.len() < 40 + plen {
                    continue;
                }
                let msg = &ip[40..40 + plen];
                if msg[0] != 134 {
                    continue;
                }
                let mut s = [0u8; 16];
                s.copy_from_slice(&ip[8..24]);
                let mut d = [0u8; 16];
                d.copy_from_slice(&ip[24..40]);
                let mut zeroed = msg.to_vec();
                let sent = ((zeroed[2] as u16) << 8) | zeroed[3] as u16;
                zeroed[2] = 0;
                zeroed[3] = 0;
                let want = crate::rfc4861::icmp6_checksum(&Ipv6Addr::from(s), &Ipv6Addr::from(d), &zeroed);
                return Some((ip[7], sent == want, msg.to_vec()));
            }
        }
        None
    }
}

/// An ICMPv6 message in an Ethernet/IPv6 frame to all-routers, checksum computed for the
/// addresses it carries.
fn icmp6_frame(src: &Ipv6Addr, hop: u8, icmp: &[u8]) -> Vec<u8> {
    let dst: Ipv6Addr = "ff02::2".parse().unwrap();
    let mut icmp = icmp.to_vec();
    if icmp.len() >= 4 {
        icmp[2] = 0;
        icmp[3] = 0;
        let ck = crate::rfc4861::icmp6_checksum(src, &dst, &icmp);
        icmp[2] = (ck >> 8) as u8;
        icmp[3] = ck as u8;
    }
    let mut f = vec![0x33, 0x33, 0, 0, 0, 2];
    f.extend_from_slice(&CLI_MAC);
    f.extend_from_slice(&[0x86, 0xdd]);
    f.extend_from_slice(&[0x60, 0, 0, 0]);
    f.extend_from_slice(&(icmp.len() as u16).to_be_bytes());
    f.push(58);
    f.push(hop);
    f.extend_from_slice(&src.octets());
    f.extend_from_slice(&dst.octets());
    f.extend_from_slice(&icmp);
    f
}

/// C05 on the wire, router advertisement service: ICMPv6 messages (the seed solicitations and
/// advertisements, every option type x length family, boundary-family members) reach the real
/// erbium from every kind of source address a solicitation can carry - link-local, global, the
/// unspecified address of a host that has none yet, multicast - with hop limit 255 and not; after
/// every batch an ordinary solicitation must still be answered and the log must show no panic.
pub fn run_c05_ra_wire(ctx: &Ctx) {
    let prop = match C17Wire::new() {
        Ok(p) => p,
        Err(e) => {
            ctx.assume(format!("RA wire tier unavailable: {}", e));
            return;
        }
    };
    let conf = "---\naddresses: [10.55.0.0/24]\napi-listeners: [\"/var/lib/erbium/control\"]\ndns-routes: []\nrouter-advertisements:\n  srv0:\n    lifetime: 600\n    prefixes:\n      - prefix: \"2001:db8:55::/64\"\n";
    wipe_db();
    let mut srv = match NetServer::start("erbium", conf, "warn") {
        Ok(s) => s,
        Err(e) => {
            ctx.assume(format!("RA wire tier unavailable: {}", e));
            return;
        }
    };
    if let Err(e) = srv.wait_dhcp_ready(&prop.raw) {
        ctx.assume(format!("RA wire tier unavailable: {}", e));
        return;
    }
    std::thread::sleep(Duration::from_millis(150));
    if prop.solicit().is_none() {
        ctx.assume("RA wire tier unavailable: no advertisement in answer to an ordinary solicitation".to_string());
        return;
    }
    let mut msgs = mutate::icmp6_seeds();
    msgs.extend(mutate::icmp6_nested());
    if ctx.tier == Tier::Thorough {
        let seeds = mutate::icmp6_seeds();
        for s0 in &seeds {
            for i in 0..mutate::family_size(s0.len()) {
                msgs.push(mutate::family_member(s0, i));
            }
        }
    }
    let sources: Vec<Ipv6Addr> = vec![prop.cli_ll, Ipv6Addr::UNSPECIFIED, "2001:db8:55::c1".parse().unwrap(), "ff02::1".parse().unwrap(), "::1".parse().unwrap()];
    let mut frames: Vec<Vec<u8>> = vec![];
    for (i, m) in msgs.iter().enumerate() {
        if m.len() > 1400 {
            continue;
        }
        for (k, src) in sources.iter().enumerate() {
            // every message from the link-local and the unspecified source; the others in turn
            if k >= 2 && (i + k) % 3 != 0 {
                continue;
            }
            frames.push(icmp6_frame(src, if (i + k) % 7 == 6 { 64 } else { 255 }, m));
        }
    }
    let mut seen_panics = srv.panics().len();
    for chunk in frames.chunks(48) {
        let mut out = Outcome::default();
        out.nontrivial = true;
        out.class("icmpv6-frames-to-the-router-advertisement-service");
        let case = DhcpWireCase { hostile: chunk.iter().map(|f| HexBytes(f.clone())).collect() };
        for f in chunk {
            let _ = prop.raw.send(f);
        }
        std::thread::sleep(Duration::from_millis(80));
        let alive = prop.solicit().is_some();
        let panics = srv.panics();
        if panics.len() > seen_panics {
            let (line, msg) = &panics[seen_panics];
            let loc = line.split("panicked at ").nth(1).unwrap_or("").trim_end_matches(':');
            let file = loc.split(':').next().unwrap_or("").trim_start_matches("crates/");
            out.fail(panic_sig(msg, &format!("{}:0", file)), format!("a task of the router advertisement service panicked on a received frame: {} {}", line.trim(), msg));
            seen_panics = panics.len();
        } else if !srv.alive() {
            out.fail("C05:service-died", srv.stderr_tail());
        } else if !alive {
            out.fail("C05:service-stopped-answering", format!("no advertisement in answer to 4 ordinary solicitations after a batch of {} ICMPv6 frames; {}", chunk.len(), srv.stderr_tail()));
        }
        ctx.record("wire-ra", &case, &out);
        if let Some(f) = out.fail {
            if ctx.is_known(&f.sig) {
                ctx.known_hit(&f.sig);
            } else {
                ctx.violation("wire-ra", &f, &case);
                return;
            }
        }
    }
}

impl WireProp for C17Wire {
    type Case = crate::props_ra::RaCase;
    fn sub(&self) -> &'static str {
        "wire-ra"
    }
    fn exec_batch(&self, cases: &[crate::props_ra::RaCase]) -> Vec<Outcome> {
        use crate::props_ra::{judge_ra, render_named, Tri};
        cases
            .iter()
            .map(|c0| {
                let mut out = Outcome::default();
                // what the rig's interface resolves to
                let mut c = c0.clone();
                c.ll = Some(SRV_MAC);
                c.if_mtu = Some(1500);
                c.self6 = srv6();
                c.fallback_lifetime = 0;
                let text = match render_named(&c, "srv0") {
                    Some(t) => t,
                    None => {
                        out.excluded.push("yaml-emitter-did-not-round-trip");
                        return out;
                    }
                };
                // the loader must accept it (unrepresentable values may be rejected: skip those)
                match crate::conf::load(&text) {
                    Ok(Err(_)) => {
                        out.excluded.push("rejected-at-load");
                        return out;
                    }
                    Ok(Ok(conf)) => {
                        // an advertisement that does not fit the link (1500 - 40 octets of IPv6
                        // header) would have to be fragmented, which RFC 6980 forbids for
                        // neighbour discovery and receivers ignore: nothing to capture, not judged
                        let len = guard(|| {
                            erbium::radv::verif_build_ra(&conf, "srv0", Some(SRV_MAC), Some(1500), srv6(), Duration::from_secs(0))
                                .map(|ra| erbium::radv::icmppkt::serialise(&erbium::radv::icmppkt::Icmp6::RtrAdvert(ra)).len())
                        });
                        if let Ok(Some(l)) = len {
                            if l > 1500 - 40 {
                                out.excluded.push("advertisement-larger-than-the-link-mtu");
                                return out;
                            }
                        }
                    }
                    Err(_) => {}
                }
                let body: String = text.lines().filter(|l| !l.starts_with("---")).map(|l| format!("{}\n", l)).collect();
                let conf = format!(
                    "---\naddresses: [10.55.0.0/24]\napi-listeners: [\"/var/lib/erbium/control\"]\ndns-routes: []\n{}",
                    body
                );
                wipe_db();
                let mut srv = match NetServer::start("erbium", &conf, "warn") {
                    Ok(s) => s,
                    Err(e) => {
                        out.fail("rig-error", e);
                        return out;
                    }
                };
                if let Err(e) = srv.wait_dhcp_ready(&self.raw) {
                    out.fail("rig-error", e);
                    return out;
                }
                std::thread::sleep(Duration::from_millis(100));
                let (hop, ck_ok, msg) = match self.solicit() {
                    Some(x) => x,
                    None => {
                        let p = panic_fail(&srv);
                        match p {
                            Some(f) => out.fail(f.sig, f.detail),
                            None => out.fail("C17:wire:no-advertisement", format!("no RA in answer to 4 router solicitations; {}", srv.stderr_tail())),
                        }
                        return out;
                    }
                };
                out.nontrivial = true;
                match (&c.iface.mtu, &c.iface.lifetime) {
                    (Tri::Absent, _) => out.class("mtu-from-interface"),
                    (Tri::Null, _) => out.class("mtu-suppressed"),
                    _ => out.class("mtu-configured"),
                }
                if hop != 255 {
                    out.fail("C17:wire:hop-limit-not-255", format!("{}", hop));
                    return out;
                }
                if !ck_ok {
                    out.fail("C17:wire:icmpv6-checksum", "the ICMPv6 checksum of the captured RA does not verify");
                    return out;
                }
                let ra = match crate::rfc4861::decode_ra(&msg) {
                    Ok(r) => r,
                    Err(e) => {
                        out.fail("C17:rfc-decoder-rejects", e);
                        return out;
                    }
                };
                let mtu_param = match &c.iface.mtu {
                    Tri::Val(v) => Some(*v),
                    Tri::Null => None,
                    Tri::Absent => Some(1500),
                };
                judge_ra(&c, mtu_param, &ra, false, &mut out);
                if out.fail.is_none() {
                    if let Some(f) = panic_fail(&srv) {
                        out.fail(f.sig, f.detail);
                    }
                }
                out
            })
            .collect()
    }
}

pub fn run_c17_wire(ctx: &Ctx) {
    use crate::props_ra::*;
    let prop = match C17Wire::new() {
        Ok(p) => p,
        Err(e) => {
            ctx.assume(format!("wire tier unavailable: {}", e));
            return;
        }
    };
    // the nine mtu x lifetime tri-state combinations through the real binary
    let base = IfaceSpec {
        hop_limit: Tri::Val(64),
        managed: Tri::Absent,
        other: Tri::Val(true),
        lifetime: Tri::Absent,
        reachable: Tri::Absent,
        retransmit: Tri::Absent,
        mtu: Tri::Absent,
        prefixes: Some(vec![PrefixSpec {
            addr: "fd55::".parse().unwrap(),
            len: 64,
            onlink: Tri::Absent,
            autonomous: Tri::Absent,
            valid: Tri::Absent,
            preferred: Tri::Absent,
        }]),
        rdnss: None,
        dnssl: None,
        captive: Tri::Absent,
        pref64: None,
        max_interval: None,
    };
    // configured MTUs below, at and above the MTU of the link the service answers on (1500)
    for mtu in [Tri::Absent, Tri::Null, Tri::Val(1400u32), Tri::Val(1500), Tri::Val(9000), Tri::Val(1280), Tri::Val(65535)] {
        for lifetime in [Tri::Absent, Tri::Null, Tri::Val(Dur { secs: 3600, style: 1 })] {
            if matches!(mtu, Tri::Val(v) if v != 1400 && v != 9000) && !matches!(lifetime, Tri::Absent) {
                continue;
            }
            let mut iface = base.clone();
            iface.mtu = mtu.clone();
            iface.lifetime = lifetime;
            let case = RaCase {
                top_dns: None,
                top_search: Some(vec!["example.org".into()]),
                top_captive: None,
                iface,
                ll: None,
                if_mtu: None,
                self6: srv6(),
                fallback_lifetime: 0,
            };
            let out = exec_one(&prop, &case);
            ctx.record(prop.sub(), &case, &out);
            if let Some(f) = out.fail {
                if ctx.is_known(&f.sig) {
                    ctx.known_hit(&f.sig);
                } else {
                    ctx.violation(prop.sub(), &f, &case);
                    return;
                }
            }
        }
    }
    // no router-advertisements section at all: the documented shortcut in which the prefixes
    // come from the interface's own addresses covered by the top-level `addresses`
    {
        let mut out = Outcome::default();
        out.nontrivial = true;
        out.class("no-router-advertisements-section");
        let case = serde_json::json!({"config": "addresses only (no router-advertisements section)"});
        wipe_db();
        match NetServer::start("erbium", &base_conf(""), "warn") {
            Err(e) => out.fail("rig-error", e),
            Ok(mut srv) => {
                let _ = wait_http(&mut srv);
                match prop.solicit() {
                    None => out.fail("C17:no-advertisement", "no router advertisement in answer to a solicitation (addresses-only configuration)"),
                    Some((hop, ck_ok, msg)) => {
                        if hop != 255 || !ck_ok {
                            out.fail("C17:wire:header", format!("hop limit {} checksum ok {}", hop, ck_ok));
                        } else {
                            match crate::rfc4861::decode_ra(&msg) {
                                Err(e) => out.fail("C17:rfc-decoder-rejects", e),
                                Ok(ra) => {
                                    let want: Ipv6Addr = "fd55::".parse().unwrap();
                                    let mut found = false;
                                    for o in &ra.options {
                                        if let crate::rfc4861::NdOpt::Prefix { len, prefix, flags_rest, reserved2, .. } = o {
                                            let mask: u128 = if *len == 0 { 0 } else { u128::MAX << (128 - *len as u32) };
                                            if u128::from(*prefix) & !mask != 0 {
                                                out.fail(
                                                    "C17:reserved:prefix-host-bits",
                                                    format!("addresses-only configuration: advertised prefix {}/{} has bits set beyond its length", prefix, len),
                                                );
                                            }
                                            if *flags_rest != 0 || *reserved2 != 0 {
                                                out.fail("C17:reserved:prefix", "");
                                            }
                                            if *len == 64 && u128::from(*prefix) & mask == u128::from(want) {
                                                found = true;
                                            }
                                        }
                                    }
                                    if out.fail.is_none() && !found {
                                        out.fail("C17:option:prefix", format!("addresses-only configuration: fd55::/64 is not advertised ({:?})", ra.options));
                                    }
                                }
                            }
                        }
                    }
                }
            }
        }
        ctx.record(prop.sub(), &case, &out);
        if let Some(f) = out.fail {
            if ctx.is_known(&f.sig) {
                ctx.known_hit(&f.sig);
            } else {
                ctx.violation(prop.sub(), &f, &case);
                return;
            }
        }
    }
    run_wire(ctx, &prop, ra_case_strategy(), ctx.tier.pick(12, 120), 1);
}

// ---------------------------------------------------------------------------------------------
// C01 wire: clients racing for the addresses of a small pool against the real erbium-dhcp

#[derive(Clone, Debug, Serialize, Deserialize)]
pub struct RaceClient {
    /// index into the MAC table
    pub mac: u8,
    /// Some(k): client-identifier option k (two MACs may share one: the same client; one MAC may
    /// use two: different clients)
    pub client_id: Option<u8>,
    /// 0: DISCOVER, then REQUEST what was offered; 1: DISCOVER naming pool address `want`;
    /// 2: REQUEST pool address `want` out of the blue (INIT-REBOOT style); 3: REQUEST what was
    /// offered *to the previous client of the list*
    pub style: u8,
    pub want: u8,
}

#[derive(Clone, Debug, Serialize, Deserialize)]
pub struct RaceCase {
    /// number of addresses in the pool (10.55.0.8 ..)
    pub pool: u8,
    pub clients: Vec<RaceClient>,
    pub rounds: u8,
}

pub fn race_case_strategy() -> impl Strategy<Value = RaceCase> {
    let client = (
        0u8..24,
        proptest::option::weighted(0.3, 0u8..6),
        prop_oneof![5 => Just(0u8), 2 => Just(1u8), 2 => Just(2u8), 2 => Just(3u8)],
        0u8..8,
    )
        .prop_map(|(mac, client_id, style, want)| RaceClient { mac, client_id, style, want });
    (1u8..=6, proptest::collection::vec(client, 2..=32), 1u8..=3).prop_map(|(pool, clients, rounds)| RaceCase { pool, clients, rounds })
}

pub struct C01Race {
    pub raw: RawIf,
}

fn race_identity(c: &RaceClient) -> Vec<u8> {
    match c.client_id {
        Some(k) => vec![0xff, b'i', b'd', k],
        None => mac_of(7000 + c.mac as usize).to_vec(),
    }
}

impl C01Race {
    fn build(&self, c: &RaceClient, xid: u32, msgtype: u8, requested: Option<Ipv4Addr>, server_id: bool) -> wire::Msg {
        let mut m = wire::Msg {
            xid,
            flags: 0x8000,
            ..Default::default()
        };
        m.set_hw(&mac_of(7000 + c.mac as usize));
        m.options.push((wire::OPT_MSG_TYPE, vec![msgtype]));
        if let Some(k) = c.client_id {
            m.options.push((wire::OPT_CLIENT_ID, vec![0xff, b'i', b'd', k]));
        }
        if let Some(r) = requested {
            m.options.push((wire::OPT_REQUESTED_IP, r.octets().to_vec()));
        }
        if server_id {
            m.options.push((wire::OPT_SERVER_ID, SRV4.octets().to_vec()));
        }
        m
    }

    fn run_case(&self, c: &RaceCase) -> Outcome {
        let mut out = Outcome::default();
        wipe_db();
        // the pool starts at .8 so that pools of 2..6 addresses straddle the 9|10 text-width step
        let first = 8u8;
        let last = first + c.pool.max(1) - 1;
        let extra = format!(
            "dhcp-policies:\n  - match-subnet: 10.55.0.0/24\n    apply-range: {{start: 10.55.0.{}, end: 10.55.0.{}}}\n",
            first, last
        );
        let mut srv = match NetServer::start("erbium-dhcp", &base_conf(&extra), "warn") {
            Ok(s) => s,
            Err(e) => {
                out.fail("rig-error", e);
                return out;
            }
        };
        if let Err(e) = srv.wait_dhcp_ready(&self.raw) {
            out.fail("rig-error", e);
            return out;
        }
        self.raw.drain();
        // address -> identity, from every reply seen (the readiness probe's rows count too)
        let mut holder: std::collections::HashMap<Ipv4Addr, Vec<u8>> = Default::default();
        if let Ok(rows) = db_rows() {
            for r in rows {
                holder.insert(r.ip, r.client);
            }
        }
        let pool_addr = |k: u8| Ipv4Addr::new(10, 55, 0, first + k % c.pool.max(1));
        let mut offered: Vec<Option<Ipv4Addr>> = vec![None; c.clients.len()];
        let mut replies = 0usize;
        let mut contended = false;
        for round in 0..c.rounds.max(1) {
            // one burst: every client's frame back to back, replies collected afterwards
            let mut xids: std::collections::HashMap<u32, usize> = Default::default();
            let mut frames = vec![];
            for (i, cl) in c.clients.iter().enumerate() {
                let xid = 0x6100_0000 + ((round as u32) << 16) + i as u32;
                let m = match (cl.style, offered[i]) {
                    (0, Some(a)) => self.build(cl, xid, wire::REQUEST, Some(a), true),
                    (0, None) => self.build(cl, xid, wire::DISCOVER, None, false),
                    (1, _) => self.build(cl, xid, wire::DISCOVER, Some(pool_addr(cl.want)), false),
                    (2, _) => self.build(cl, xid, wire::REQUEST, Some(pool_addr(cl.want)), false),
                    (_, _) => {
                        let prev = if i == 0 { c.clients.len() - 1 } else { i - 1 };
                        match offered[prev] {
                            Some(a) => self.build(cl, xid, wire::REQUEST, Some(a), true),
                            None => self.build(cl, xid, wire::DISCOVER, None, false),
                        }
                    }
                };
                xids.insert(xid, i);
                frames.push(dhcp_frame(&m));
            }
            for f in &frames {
                let _ = self.raw.send(f);
            }
            let deadline = Instant::now() + Duration::from_millis(700);
            let mut quiet = Instant::now();
            while Instant::now() < deadline && quiet.elapsed() < Duration::from_millis(250) {
                let Some(f) = self.raw.recv(Duration::from_millis(50)) else { continue };
                let Ok(fr) = crate::ethip::decode_udp4(&f) else { continue };
                if fr.sport != 67 || fr.dport != 68 {
                    continue;
                }
                let Ok(m) = wire::Msg::decode(&fr.payload) else { continue };
                let Some(&i) = xids.get(&m.xid) else { continue };
                quiet = Instant::now();
                let mt = m.option_map().get(&wire::OPT_MSG_TYPE).and_then(|v| v.first().copied()).unwrap_or(0);
                if mt != wire::OFFER && mt != wire::ACK {
                    continue;
                }
                replies += 1;
                let id = race_identity(&c.clients[i]);
                let x = m.yiaddr;
                if mt == wire::OFFER {
                    offered[i] = Some(x);
                }
                match holder.get(&x) {
                    Some(h) if *h != id => {
                        // every lease of this case runs for at least 300 s; the case lasts seconds
                        out.nontrivial = true;
                        out.fail(
                            "C01:double-grant-on-the-wire",
                            format!(
                                "{} was {} to client {:02x?} (round {}) while client {:02x?} holds it; pool of {} addresses, {} clients",
                                x,
                                if mt == wire::OFFER { "offered" } else { "acknowledged" },
                                id,
                                round,
                                h,
                                c.pool,
                                c.clients.len()
                            ),
                        );
                        return out;
                    }
                    Some(_) => {}
                    None => {
                        holder.insert(x, id);
                    }
                }
            }
        }
        let ids: std::collections::HashSet<Vec<u8>> = c.clients.iter().map(race_identity).collect();
        if ids.len() > c.pool as usize {
            contended = true;
            out.class("more-clients-than-addresses");
        }
        if c.clients.iter().any(|x| x.client_id.is_some()) {
            out.class("client-identifier-in-use");
        }
        out.nontrivial = contended && replies >= 2;
        // the store agrees with what was put on the wire
        match db_rows() {
            Ok(rows) => {
                for (x, id) in &holder {
                    if let Some(r) = rows.iter().find(|r| r.ip == *x) {
                        if r.client != *id {
                            out.fail(
                                "C01:store-disagrees-with-wire",
                                format!("{} was granted to {:02x?} on the wire, the store records {:02x?}", x, id, r.client),
                            );
                            return out;
                        }
                    }
                }
            }
            Err(e) => {
                out.fail("rig-error", format!("lease database unreadable: {}", e));
                return out;
            }
        }
        if let Some((p, m)) = srv.panics().first() {
            out.fail(panic_sig(m, p), format!("server task panicked: {} {}", p, m));
        }
        out
    }
}

impl WireProp for C01Race {
    type Case = RaceCase;
    fn sub(&self) -> &'static str {
        "wire-race"
    }
    fn exec_batch(&self, cases: &[RaceCase]) -> Vec<Outcome> {
        cases.iter().map(|c| self.run_case(c)).collect()
    }
}

pub fn run_c01_wire(ctx: &Ctx) {
    let raw = match RawIf::open("cli0") {
        Ok(r) => r,
        Err(e) => {
            ctx.assume(format!("wire tier unavailable: {}", e));
            return;
        }
    };
    let prop = C01Race { raw };
    run_wire(ctx, &prop, race_case_strategy(), ctx.tier.pick(40, 600), 1);
}
