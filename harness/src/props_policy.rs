//! C02 (address sets) and C11 (option semantics): generated dhcp-policies trees rendered to YAML,
//! loaded through the real loader, served by the real `handle_pkt`, compared with an independent
//! model of erbium.conf(5).

use crate::conf::*;
use crate::engine::*;
use crate::rfc2131 as wire;
use erbium::dhcp::{self, dhcppkt};
use proptest::prelude::*;
use serde::{Deserialize, Serialize};
use std::collections::{BTreeMap, BTreeSet};
use std::net::Ipv4Addr;
use yaml_rust::yaml::Yaml;

fn workers() -> usize {
    crate::props_codec::workers()
}

pub const MACS: [[u8; 6]; 4] = [
    [0x00, 0x00, 0x5e, 0x00, 0x53, 0x01],
    [0x00, 0x00, 0x5e, 0x00, 0x53, 0x02],
    [0x00, 0x00, 0x5e, 0x00, 0x53, 0xf0],
    [0x02, 0xaa, 0xbb, 0xcc, 0xdd, 0xee],
];

/// The universe all generated addresses come from: 10.77.0.0/22.
pub const UBASE: u32 = 0x0a4d_0000;
pub const USIZE: u32 = 1024;

#[derive(Clone, Debug, Serialize, Deserialize, PartialEq)]
pub struct Net4 {
    pub addr: Ipv4Addr,
    pub len: u8,
}

impl Net4 {
    fn mask(&self) -> u32 {
        if self.len == 0 {
            0
        } else {
            u32::MAX << (32 - self.len as u32)
        }
    }
    pub fn network(&self) -> u32 {
        u32::from(self.addr) & self.mask()
    }
    pub fn broadcast(&self) -> u32 {
        self.network() | !self.mask()
    }
    pub fn contains(&self, a: Ipv4Addr) -> bool {
        u32::from(a) & self.mask() == self.network()
    }
    /// documented host range: everything but the first and the last address
    pub fn hosts(&self) -> BTreeSet<u32> {
        if self.len >= 31 {
            return BTreeSet::new();
        }
        (self.network() + 1..self.broadcast()).collect()
    }
    fn text(&self) -> String {
        format!("{}/{}", self.addr, self.len)
    }
}

#[derive(Clone, Debug, Serialize, Deserialize, PartialEq)]
pub enum OptVal {
    Ip(Ipv4Addr),
    IpList(Vec<Ipv4Addr>),
    Str(String),
    U8(u8),
    U16(u16),
    Bool(bool),
    Secs32(u32),
    I32(i32),
    /// classless static routes: (network, prefix length, next hop)
    Routes(Vec<(Ipv4Addr, u8, Ipv4Addr)>),
}

impl OptVal {
    /// RFC 2132 encoding
    pub fn bytes(&self) -> Vec<u8> {
        match self {
            OptVal::Ip(a) => a.octets().to_vec(),
            OptVal::IpList(l) => l.iter().flat_map(|a| a.octets()).collect(),
            OptVal::Str(s) => s.as_bytes().to_vec(),
            OptVal::U8(v) => vec![*v],
            OptVal::U16(v) => v.to_be_bytes().to_vec(),
            OptVal::Bool(b) => vec![*b as u8],
            OptVal::Secs32(v) => v.to_be_bytes().to_vec(),
            OptVal::I32(v) => v.to_be_bytes().to_vec(),
            // RFC 3442: length, significant octets, router
            OptVal::Routes(l) => l
                .iter()
                .flat_map(|(n, len, gw)| {
                    let mut v = vec![*len];
                    v.extend_from_slice(&n.octets()[..(*len as usize + 7) / 8]);
                    v.extend_from_slice(&gw.octets());
                    v
                })
                .collect(),
        }
    }
    fn yaml(&self, style: u8) -> Yaml {
        match self {
            OptVal::Ip(a) => ystr(&a.to_string()),
            OptVal::IpList(l) => ylist(l.iter().map(|a| ystr(&a.to_string())).collect()),
            OptVal::Str(s) => ystr(s),
            OptVal::U8(v) => Yaml::Integer(*v as i64),
            OptVal::U16(v) => Yaml::Integer(*v as i64),
            OptVal::Bool(b) => Yaml::Boolean(*b),
            OptVal::Secs32(v) => match style % 3 {
                0 => Yaml::Integer(*v as i64),
                1 => ystr(&format!("{}s", v)),
                _ => ystr(&format!("{}m{}s", v / 60, v % 60)),
            },
            OptVal::I32(v) => Yaml::Integer(*v as i64),
            OptVal::Routes(l) => ylist(
                l.iter()
                    .map(|(n, len, gw)| {
                        if style & 8 == 0 {
                            ymap(vec![("prefix", ystr(&format!("{}/{}", n, len))), ("next-hop", ystr(&gw.to_string()))])
                        } else {
                            ymap(vec![("next-hop", ystr(&gw.to_string())), ("prefix", ystr(&format!("{}/{}", n, len)))])
                        }
                    })
                    .collect(),
            ),
        }
    }
}

/// (name in erbium.conf(5), option code, kind) for options with an unambiguous RFC 2132 encoding.
pub const APPLY_OPTS: [(&str, u8, u8); 26] = [
    ("netmask", 1, 0),
    ("time-offset", 2, 7),
    ("routers", 3, 1),
    ("time-servers", 4, 1),
    ("name-servers", 5, 1),
    ("dns-servers", 6, 1),
    ("log-servers", 7, 1),
    ("lpr-servers", 9, 1),
    ("domain-name", 15, 2),
    ("forward", 19, 5),
    ("default-ttl", 23, 3),
    ("mtu-timeout", 24, 6),
    ("mtu", 26, 4),
    ("broadcast", 28, 0),
    ("arp-timeout", 35, 6),
    ("ntp-servers", 42, 1),
    ("smtp-servers", 69, 1),
    ("tz-name", 101, 2),
    ("captive-portal", 114, 2),
    ("host-name", 12, 2),
    // options the server itself is responsible for: a policy naming them must not be able to take
    // them out of a reply or point them elsewhere (C10: lease time, C13: server identifier)
    ("lease-time", 51, 6),
    ("server-id", 54, 0),
    // the timers that go with the lease time (C10: whatever a policy says about T1 and T2, the
    // lease time advertised is the one recorded).  Their encoding is not judged by C11.
    ("renewal-time", 58, 8),
    ("rebind-time", 59, 8),
    // classless static routes (RFC 3442).  Which options go out beside it is judged; its own
    // octets are not (the server writes all four octets of every prefix, and a unit test of the
    // project pins that).
    ("routes", 121, 9),
    // IPv6-only preferred (RFC 8925): a wait in seconds, a feature of its own
    ("ipv6-preferred", 108, 6),
];

pub const MATCH_OPTS: [(&str, u8); 3] = [("host-name", 12), ("class-id", 60), ("user-class", 77)];
pub const MATCH_VALUES: [&str; 4] = ["printer", "MSFT 5.0", "VPN", "x"];

#[derive(Clone, Debug, Serialize, Deserialize, PartialEq, Default)]
pub struct PolSpec {
    pub match_subnet: Option<Net4>,
    pub match_hw: Option<u8>,
    /// (index into MATCH_OPTS, Some(index into MATCH_VALUES) | None = must be absent)
    pub match_opts: Vec<(u8, Option<u8>)>,
    pub apply_address: Option<Ipv4Addr>,
    pub apply_subnet: Option<Net4>,
    pub apply_range: Option<(Ipv4Addr, Ipv4Addr)>,
    /// (index into APPLY_OPTS, value | None = null)
    pub apply_opts: Vec<(u8, Option<OptVal>)>,
    pub children: Vec<PolSpec>,
}

#[derive(Clone, Debug, Serialize, Deserialize, PartialEq)]
pub enum DnsTop {
    Self4,
    Self6,
    V4(Ipv4Addr),
    V6(std::net::Ipv6Addr),
}

#[derive(Clone, Debug, Serialize, Deserialize, PartialEq)]
pub struct PolicyCase {
    /// top-level addresses, as written (may carry host bits)
    pub addresses: Vec<Net4>,
    pub dns_servers: Option<Vec<DnsTop>>,
    pub dns_search: Option<Vec<String>>,
    pub captive_portal: Option<String>,
    pub policies: Vec<PolSpec>,
    // the request
    pub serverip: Ipv4Addr,
    pub mac: u8,
    /// request options 12 / 60 / 77: index into MATCH_VALUES
    pub req_opts: Vec<(u8, u8)>,
    /// None: no parameter request list option at all
    pub param_list: Option<Vec<u8>>,
    pub if_mtu: Option<u16>,
    pub if_router: Option<Ipv4Addr>,
    pub style: u8,
}

impl PolicyCase {
    /// The hardware address the client sends: one of the configured 6-octet addresses, or (one
    /// case in eight each) that address followed by two more octets (hlen 8, an EUI-64), padded
    /// to the full 16-octet field, or cut to 5 octets.  Only the 6-octet form *is* the
    /// configured address.
    pub fn chaddr(&self) -> Vec<u8> {
        let mut m = MACS[self.mac as usize].to_vec();
        match self.style >> 5 {
            7 => m.extend_from_slice(&[0xab, 0xcd]),
            6 => m.resize(16, 0),
            5 => m.truncate(5),
            _ => {}
        }
        m
    }
    pub fn plain_hw(&self) -> bool {
        self.style >> 5 < 5
    }
    /// Option 57 (maximum DHCP message size) of the request, if it sends one.
    pub fn max_message_size(&self) -> Option<u16> {
        match (self.style as u32 * 31 + self.mac as u32 * 7) % 8 {
            0 => Some(576),
            1 => Some(0),
            2 => Some(1500),
            3 => Some(300),
            _ => None,
        }
    }
}

// ---------------------------------------------------------------------------------------------
// generators

fn uaddr() -> impl Strategy<Value = Ipv4Addr> {
    prop_oneof![
        4 => (0u32..64).prop_map(|o| Ipv4Addr::from(UBASE + o)),
        3 => (0u32..USIZE).prop_map(|o| Ipv4Addr::from(UBASE + o)),
        1 => (250u32..260).prop_map(|o| Ipv4Addr::from(UBASE + o)),
    ]
}

fn unet(minlen: u8, maxlen: u8, hostbits: bool) -> impl Strategy<Value = Net4> {
    (uaddr(), minlen..=maxlen, any::<bool>()).prop_map(move |(a, len, hb)| {
        let n = Net4 { addr: a, len };
        if hostbits && hb {
            n
        } else {
            Net4 {
                addr: Ipv4Addr::from(n.network()),
                len,
            }
        }
    })
}

fn optval_strategy(kind: u8) -> BoxedStrategy<OptVal> {
    match kind {
        0 => any::<u32>().prop_map(|a| OptVal::Ip(a.into())).boxed(),
        // mostly short; one in ten as long as one option can carry (replies of several hundred
        // octets: above the 576 a client accepts unless it says otherwise)
        1 => prop_oneof![
            9 => proptest::collection::vec(any::<u32>().prop_map(Ipv4Addr::from), 1..=3),
            1 => proptest::collection::vec(any::<u32>().prop_map(Ipv4Addr::from), 40..=63),
        ]
        .prop_map(OptVal::IpList)
        .boxed(),
        2 => prop_oneof![9 => "[a-z][a-z0-9.-]{0,12}", 1 => "[a-z][a-z0-9.-]{180,250}"].prop_map(OptVal::Str).boxed(),
        3 => any::<u8>().prop_map(OptVal::U8).boxed(),
        4 => any::<u16>().prop_map(OptVal::U16).boxed(),
        5 => any::<bool>().prop_map(OptVal::Bool).boxed(),
        // incl. both sides of the bounds the server keeps lease times within
        6 => prop_oneof![
            Just(0u32), Just(u32::MAX), any::<u32>(), 0u32..100000,
            Just(1u32), Just(60), Just(120), Just(299), Just(300), Just(301), Just(86400), Just(86401),
        ]
        .prop_map(OptVal::Secs32)
        .boxed(),
        // the loader keeps these two within 16 bits (larger values are rejected with an error)
        8 => prop_oneof![
            Just(0u32), Just(1), Just(60), Just(150), Just(299), Just(300), Just(301), Just(1800), Just(3600), Just(43200), Just(65535), 0u32..65536,
        ]
        .prop_map(OptVal::Secs32)
        .boxed(),
        9 => proptest::collection::vec(
            (
                prop_oneof![
                    3 => Just((Ipv4Addr::new(0, 0, 0, 0), 0u8)),
                    1 => Just((Ipv4Addr::new(10, 0, 0, 0), 8u8)),
                    1 => Just((Ipv4Addr::new(192, 0, 2, 0), 24u8)),
                    1 => Just((Ipv4Addr::new(198, 51, 100, 64), 26u8)),
                    1 => Just((Ipv4Addr::new(203, 0, 113, 7), 32u8)),
                ],
                uaddr(),
            ),
            1..=3,
        )
        .prop_map(|l| OptVal::Routes(l.into_iter().map(|((n, len), gw)| (n, len, gw)).collect()))
        .boxed(),
        _ => prop_oneof![Just(i32::MIN), Just(-1i32), Just(i32::MAX), any::<i32>()]
            .prop_map(OptVal::I32)
            .boxed(),
    }
}

fn apply_opt_strategy() -> impl Strategy<Value = (u8, Option<OptVal>)> {
    prop_oneof![6 => 0usize..7, 4 => 0usize..APPLY_OPTS.len(), 1 => 20usize..22, 1 => 22usize..24, 1 => Just(24usize), 1 => Just(25usize)].prop_flat_map(|i| {
        let kind = APPLY_OPTS[i].2;
        (Just(i as u8), proptest::option::weighted(0.8, optval_strategy(kind)))
    })
}

#[derive(Clone, Copy, Debug)]
pub struct TreeProfile {
    /// bias the request towards configurations that answer (C11 needs a reply to look at)
    pub likely_match: bool,
    pub addresses: bool,
    pub options: bool,
    pub match_opts: bool,
}

fn policy_strategy(depth: u32, prof: TreeProfile, subnets: Vec<Net4>) -> BoxedStrategy<PolSpec> {
    let ns = subnets.len().max(1);
    let subs = subnets.clone();
    let subnet_choice = any::<u16>().prop_map(move |i| {
        if subs.is_empty() {
            Net4 {
                addr: Ipv4Addr::from(UBASE),
                len: 22,
            }
        } else {
            subs[pick_idx(i, ns)].clone()
        }
    });
    let leaf = (
        proptest::option::weighted(0.45, subnet_choice),
        proptest::option::weighted(0.35, if prof.likely_match { 0u8..2 } else { 0u8..4 }),
        if prof.match_opts {
            proptest::collection::vec((0u8..3, proptest::option::weighted(0.7, 0u8..4)), 0..=1).boxed()
        } else {
            Just(vec![]).boxed()
        },
        if prof.addresses {
            (
                proptest::option::weighted(0.35, uaddr()),
                // incl. subnets without host addresses (/31, /32) and ranges that end before they
                // start: a policy whose own address set is empty gives its clients nothing
                proptest::option::weighted(0.3, prop_oneof![8 => unet(24, 30, false), 1 => unet(31, 32, false)]),
                proptest::option::weighted(0.3, prop_oneof![
                    9 => (uaddr(), 0u32..40).prop_map(|(s, n)| (s, Ipv4Addr::from((u32::from(s) + n).min(UBASE + USIZE - 1)))),
                    1 => (uaddr(), 1u32..5).prop_map(|(s, n)| (s, Ipv4Addr::from(u32::from(s).saturating_sub(n).max(UBASE)))),
                ]),
            )
                .boxed()
        } else {
            Just((None, None, None)).boxed()
        },
        if prof.options {
            proptest::collection::vec(apply_opt_strategy(), 0..=4).boxed()
        } else {
            Just(vec![]).boxed()
        },
    );
    let children: BoxedStrategy<Vec<PolSpec>> = if depth == 0 {
        Just(vec![]).boxed()
    } else {
        proptest::collection::vec(policy_strategy(depth - 1, prof, subnets.clone()), 0..=3).boxed()
    };
    (leaf, children)
        .prop_map(|((match_subnet, match_hw, mut match_opts, addrs, mut apply_opts, ), children)| {
            // one entry per key: YAML hashes cannot repeat a key
            match_opts.sort();
            match_opts.dedup_by_key(|x| x.0);
            apply_opts.sort_by_key(|x| x.0);
            apply_opts.dedup_by_key(|x| x.0);
            PolSpec {
                match_subnet,
                match_hw,
                match_opts,
                apply_address: addrs.0,
                apply_subnet: addrs.1,
                apply_range: addrs.2,
                apply_opts,
                children,
            }
        })
        .boxed()
}

pub fn policy_case_strategy(prof: TreeProfile) -> impl Strategy<Value = PolicyCase> {
    proptest::collection::vec(unet(22, 30, true), (if prof.likely_match { 1 } else { 0 })..=2).prop_flat_map(move |addresses| {
        // subnets a policy may match on: the configured ones, the whole universe, a foreign one
        let mut subnets: Vec<Net4> = addresses
            .iter()
            .map(|n| Net4 {
                addr: Ipv4Addr::from(n.network()),
                len: n.len,
            })
            .collect();
        subnets.push(Net4 {
            addr: Ipv4Addr::from(UBASE),
            len: 22,
        });
        if prof.likely_match {
            subnets.push(Net4 {
                addr: Ipv4Addr::from(UBASE),
                len: 22,
            });
        }
        subnets.push(Net4 {
            addr: Ipv4Addr::new(10, 99, 0, 0),
            len: 24,
        });
        let first = addresses.first().cloned();
        let serverip = prop_oneof![
            3 => (0u8..5, 0u32..USIZE).prop_map(move |(pos, r)| match (&first, pos) {
                (Some(n), 0) => Ipv4Addr::from(n.network() + 1),
                (Some(n), 1) => Ipv4Addr::from(n.broadcast().wrapping_sub(1)),
                (Some(n), 2) => Ipv4Addr::from(n.network() + (n.broadcast() - n.network()) / 2),
                (Some(n), 3) => Ipv4Addr::from(n.network() + r % (n.broadcast() - n.network() + 1)),
                _ => Ipv4Addr::from(UBASE + r),
            }),
            (if prof.likely_match { 0 } else { 1 }) => uaddr(),
            1 => Just(Ipv4Addr::new(10, 99, 0, 1)),
        ];
        (
            Just(addresses),
            (
                proptest::option::weighted(0.6, proptest::collection::vec(
                    prop_oneof![
                        2 => Just(DnsTop::Self4),
                        1 => Just(DnsTop::Self6),
                        3 => any::<u32>().prop_map(|a| DnsTop::V4(a.into())),
                        1 => any::<u128>().prop_map(|a| DnsTop::V6(a.into())),
                    ], 0..=4)),
                proptest::option::weighted(0.5, proptest::collection::vec("[a-z]{1,8}\\.[a-z]{2,5}", 0..=3)),
                proptest::option::weighted(0.4, "https://[a-z]{1,10}\\.example/[a-z]{0,6}"),
            ),
            proptest::collection::vec(policy_strategy(2, prof, subnets), 0..=3),
            serverip,
            (
                if prof.likely_match { 0u8..2 } else { 0u8..4 },
                proptest::collection::vec((0u8..3, 0u8..4), 0..=3),
                proptest::option::weighted(0.9, prop_oneof![
                    2 => Just((1..=120u8).collect::<Vec<u8>>()),
                    2 => proptest::collection::vec(prop_oneof![Just(1u8), Just(3), Just(6), Just(15), Just(26), Just(28), Just(42), Just(114), Just(119), Just(12), 1u8..120], 0..=12),
                    // any code may be asked for; codes 128 away from a configured option are the
                    // ones a bit set narrower than 256 would confuse
                    2 => proptest::collection::vec(prop_oneof![
                        4 => any::<u16>().prop_map(|i| APPLY_OPTS[pick_idx(i, APPLY_OPTS.len())].1.wrapping_add(128)),
                        2 => any::<u16>().prop_map(|i| APPLY_OPTS[pick_idx(i, APPLY_OPTS.len())].1),
                        1 => Just(119u8.wrapping_add(128)),
                        2 => 1u8..=254,
                        1 => Just(51u8),
                        1 => Just(54u8),
                    ], 0..=10),
                    1 => Just((1..=254u8).collect::<Vec<u8>>()),
                ]),
                proptest::option::weighted(0.6, prop_oneof![Just(1500u16), Just(9000), any::<u16>()]),
                // the interface's router: anywhere, or (half of the time) a host of the universe the
                // pools are cut from - a router inside the served prefix is the ordinary case
                proptest::option::weighted(0.6, prop_oneof![1 => any::<u32>().prop_map(Ipv4Addr::from), 1 => uaddr()]),
                any::<u8>(),
            ),
        )
            .prop_map(|(addresses, top, policies, serverip, r)| {
                let mut req_opts = r.1;
                req_opts.sort();
                req_opts.dedup_by_key(|x| x.0);
                PolicyCase {
                    addresses,
                    dns_servers: top.0,
                    dns_search: top.1,
                    captive_portal: top.2,
                    policies,
                    serverip,
                    mac: r.0,
                    req_opts,
                    param_list: r.2,
                    if_mtu: r.3,
                    if_router: r.4,
                    style: r.5,
                }
            })
    })
}

// ---------------------------------------------------------------------------------------------
// rendering

fn mac_text(m: &[u8; 6]) -> String {
    m.iter().map(|b| format!("{:02X}", b)).collect::<Vec<_>>().join(":")
}

fn policy_yaml(p: &PolSpec, style: u8) -> Yaml {
    let mut e: Vec<(String, Yaml)> = vec![];
    if let Some(s) = &p.match_subnet {
        e.push(("match-subnet".into(), ystr(&s.text())));
    }
    if let Some(h) = p.match_hw {
        e.push(("match-hardware-address".into(), ystr(&mac_text(&MACS[h as usize]))));
    }
    for (o, v) in &p.match_opts {
        let name = MATCH_OPTS[*o as usize].0;
        e.push((
            format!("match-{}", name),
            match v {
                Some(i) => ystr(MATCH_VALUES[*i as usize]),
                None => Yaml::Null,
            },
        ));
    }
    if let Some(a) = &p.apply_address {
        e.push(("apply-address".into(), ystr(&a.to_string())));
    }
    if let Some(s) = &p.apply_subnet {
        e.push(("apply-subnet".into(), ystr(&s.text())));
    }
    if let Some((s, en)) = &p.apply_range {
        e.push((
            "apply-range".into(),
            ymap(vec![("start", ystr(&s.to_string())), ("end", ystr(&en.to_string()))]),
        ));
    }
    for (o, v) in &p.apply_opts {
        let name = APPLY_OPTS[*o as usize].0;
        e.push((
            format!("apply-{}", name),
            match v {
                Some(v) => v.yaml(style),
                None => Yaml::Null,
            },
        ));
    }
    if !p.children.is_empty() {
        e.push(("policies".into(), ylist(p.children.iter().map(|c| policy_yaml(c, style)).collect())));
    }
    // the order of keys in a mapping carries no meaning; vary it (bits 2..3 of `style`)
    match (style >> 2) & 3 {
        1 => e.reverse(),
        2 => {
            if let Some(i) = e.iter().position(|(k, _)| k == "policies") {
                let x = e.remove(i);
                e.insert(0, x);
            }
        }
        3 => {
            let n = e.len();
            if n > 1 {
                e.rotate_left(n / 2);
            }
        }
        _ => {}
    }
    let mut h = yaml_rust::yaml::Hash::new();
    for (k, v) in e {
        h.insert(Yaml::String(k), v);
    }
    Yaml::Hash(h)
}

pub fn render(c: &PolicyCase) -> Option<String> {
    let mut top: Vec<(&str, Yaml)> = vec![];
    if !c.addresses.is_empty() {
        top.push(("addresses", ylist(c.addresses.iter().map(|n| ystr(&n.text())).collect())));
    }
    if let Some(d) = &c.dns_servers {
        top.push((
            "dns-servers",
            ylist(
                d.iter()
                    .map(|x| match x {
                        DnsTop::Self4 => ystr("$self4"),
                        DnsTop::Self6 => ystr("$self6"),
                        DnsTop::V4(a) => ystr(&a.to_string()),
                        DnsTop::V6(a) => ystr(&a.to_string()),
                    })
                    .collect(),
            ),
        ));
    }
    if let Some(s) = &c.dns_search {
        top.push(("dns-search", ylist(s.iter().map(|x| ystr(x)).collect())));
    }
    if let Some(u) = &c.captive_portal {
        top.push(("captive-portal", ystr(u)));
    }
    top.push(("dhcp-policies", ylist(c.policies.iter().map(|p| policy_yaml(p, c.style)).collect())));
    if (c.style >> 4) & 1 == 1 {
        top.reverse();
    }
    let tree = ymap(top);
    let text = emit(&tree);
    if parse_yaml(&text).as_ref() != Some(&tree) {
        return None;
    }
    Some(text)
}

// ---------------------------------------------------------------------------------------------
// the model of erbium.conf(5)

#[derive(PartialEq)]
enum Cond {
    None,
    Holds,
    Fails,
}

fn cond(p: &PolSpec, c: &PolicyCase) -> Cond {
    let mut any = false;
    if let Some(s) = &p.match_subnet {
        any = true;
        if !s.contains(c.serverip) {
            return Cond::Fails;
        }
    }
    if let Some(h) = p.match_hw {
        any = true;
        if h != c.mac || !c.plain_hw() {
            return Cond::Fails;
        }
    }
    for (o, v) in &p.match_opts {
        any = true;
        let have = c.req_opts.iter().find(|r| r.0 == *o).map(|r| r.1);
        match (v, have) {
            (None, None) => {}
            (Some(a), Some(b)) if *a == b => {}
            _ => return Cond::Fails,
        }
    }
    if any {
        Cond::Holds
    } else {
        Cond::None
    }
}

fn applies(p: &PolSpec, c: &PolicyCase) -> bool {
    match cond(p, c) {
        Cond::Fails => false,
        Cond::Holds => true,
        Cond::None => p.children.iter().any(|ch| applies(ch, c)),
    }
}

/// The chain of applied policies, outermost first.
fn chain<'a>(pols: &'a [PolSpec], c: &PolicyCase, out: &mut Vec<&'a PolSpec>) {
    for p in pols {
        if applies(p, c) {
            out.push(p);
            chain(&p.children, c, out);
            return;
        }
    }
}

fn own_addresses(p: &PolSpec) -> Option<BTreeSet<u32>> {
    if p.apply_address.is_none() && p.apply_subnet.is_none() && p.apply_range.is_none() {
        return None;
    }
    let mut s = BTreeSet::new();
    if let Some(a) = p.apply_address {
        s.insert(u32::from(a));
    }
    if let Some(n) = &p.apply_subnet {
        s.extend(n.hosts());
    }
    if let Some((a, b)) = p.apply_range {
        if u32::from(b) >= u32::from(a) {
            s.extend(u32::from(a)..=u32::from(b));
        }
    }
    Some(s)
}

fn claimed_by_tree(p: &PolSpec, out: &mut BTreeSet<u32>) {
    if let Some(s) = own_addresses(p) {
        out.extend(s);
    }
    for ch in &p.children {
        claimed_by_tree(ch, out);
    }
}

/// D(config, client, interface) as (must be leasable, may be leasable).
pub fn documented_set(c: &PolicyCase) -> Option<(BTreeSet<u32>, BTreeSet<u32>)> {
    let mut ch = vec![];
    chain(&c.policies, c, &mut ch);
    let mut all_claimed = BTreeSet::new();
    for p in &c.policies {
        claimed_by_tree(p, &mut all_claimed);
    }
    // addresses whose status the manual does not fix when an explicit pool names them
    let mut silent = BTreeSet::new();
    silent.insert(u32::from(c.serverip));
    for n in &c.addresses {
        silent.insert(n.network());
        silent.insert(n.broadcast());
    }
    for p in &ch {
        if let Some(s) = &p.match_subnet {
            silent.insert(s.network());
            silent.insert(s.broadcast());
        }
    }
    let innermost = ch.iter().rev().find_map(|p| own_addresses(p).map(|s| (*p, s)));
    if let Some((p, own)) = innermost {
        let mut desc = BTreeSet::new();
        for chd in &p.children {
            claimed_by_tree(chd, &mut desc);
        }
        let set: BTreeSet<u32> = own.difference(&desc).copied().collect();
        let must: BTreeSet<u32> = set.difference(&silent).copied().collect();
        let may: BTreeSet<u32> = set.intersection(&silent).copied().collect();
        return Some((must, may));
    }
    // the pool derived from `addresses`: first prefix containing the receiving address
    for n in &c.addresses {
        if n.contains(c.serverip) {
            let mut set = n.hosts();
            set.remove(&u32::from(c.serverip));
            let set: BTreeSet<u32> = set.difference(&all_claimed).copied().collect();
            return Some((set, BTreeSet::new()));
        }
    }
    None
}

// ---------------------------------------------------------------------------------------------
// serving

pub fn build_request(c: &PolicyCase, msgtype: u8, client_id: Option<Vec<u8>>, requested: Option<Ipv4Addr>) -> dhcp::DHCPRequest {
    let mut m = wire::Msg {
        xid: 0x5151,
        ..Default::default()
    };
    m.set_hw(&c.chaddr());
    if c.chaddr().len() == 8 {
        m.htype = 27;
    }
    m.options.push((wire::OPT_MSG_TYPE, vec![msgtype]));
    if let Some(id) = client_id {
        m.options.push((wire::OPT_CLIENT_ID, id));
    }
    for (o, v) in &c.req_opts {
        m.options.push((MATCH_OPTS[*o as usize].1, MATCH_VALUES[*v as usize].as_bytes().to_vec()));
    }
    if let Some(r) = requested {
        m.options.push((wire::OPT_REQUESTED_IP, r.octets().to_vec()));
    }
    if let Some(pl) = &c.param_list {
        m.options.push((wire::OPT_PARAM_LIST, pl.clone()));
    }
    if let Some(sz) = c.max_message_size() {
        m.options.push((57, sz.to_be_bytes().to_vec()));
    }
    // the client's own wish for a lease time
    match (c.style as u32 * 13 + c.mac as u32) % 7 {
        0 => m.options.push((wire::OPT_LEASE_TIME, 120u32.to_be_bytes().to_vec())),
        1 => m.options.push((wire::OPT_LEASE_TIME, 0u32.to_be_bytes().to_vec())),
        2 => m.options.push((wire::OPT_LEASE_TIME, u32::MAX.to_be_bytes().to_vec())),
        _ => {}
    }
    dhcp::DHCPRequest {
        pkt: dhcppkt::parse(&m.encode()).expect("harness request parses"),
        serverip: c.serverip,
        ifindex: 3,
        if_mtu: c.if_mtu.map(|m| m as u32),
        if_router: c.if_router,
    }
}

pub struct C02Set;

impl Prop for C02Set {
    type Case = PolicyCase;
    fn sub(&self) -> &'static str {
        "address-set"
    }
    fn check(&self, c: &PolicyCase) -> Outcome {
        let mut out = Outcome::default();
        let text = match render(c) {
            Some(t) => t,
            None => {
                out.excluded.push("yaml-emitter-did-not-round-trip");
                return out;
            }
        };
        let conf = match load(&text) {
            Err(f) => {
                out.fail(format!("load:{}", f.sig), f.detail);
                return out;
            }
            Ok(Err(msg)) => {
                out.fail("C02:valid-config-rejected", msg);
                return out;
            }
            Ok(Ok(c)) => c,
        };
        let d = documented_set(c);
        let (must, may) = match &d {
            Some(x) => x.clone(),
            None => (BTreeSet::new(), BTreeSet::new()),
        };
        let allowed: BTreeSet<u32> = must.union(&may).copied().collect();
        // is D different from a plain host range?
        let plain = c.addresses.iter().any(|n| n.hosts() == must);
        out.nontrivial = !must.is_empty() && !plain;
        if d.is_none() {
            out.class("no-pool-for-this-client");
        }
        if c.addresses.iter().any(|n| n.contains(c.serverip)) {
            out.class("server-address-inside-addresses-prefix");
        }
        let show = |s: &BTreeSet<u32>| -> String {
            let v: Vec<String> = s.iter().take(6).map(|a| Ipv4Addr::from(*a).to_string()).collect();
            format!("{}{}", v.join(","), if s.len() > 6 { ",.." } else { "" })
        };
        if allowed.len() <= 300 {
            // drain: fresh client identifiers (same hardware address) until the pool refuses
            out.class("drained");
            let mut pool = dhcp::pool::Pool::new_in_memory().expect("pool");
            let mut got: BTreeSet<u32> = BTreeSet::new();
            let mut refused = false;
            for k in 0..(allowed.len() + 2) {
                let req = build_request(c, if k % 2 == 0 { wire::DISCOVER } else { wire::REQUEST }, Some(vec![0xee, (k >> 8) as u8, k as u8]), None);
                match dhcp::handle_pkt(&mut pool, &req, Default::default(), &conf) {
                    Ok(r) => {
                        let y = u32::from(r.yiaddr);
                        if !allowed.contains(&y) {
                            let why = if y == u32::from(c.serverip) {
                                "C02:leased-server-address"
                            } else if c.addresses.iter().any(|n| n.network() == y || n.broadcast() == y) {
                                "C02:leased-network-or-broadcast"
                            } else {
                                "C02:leased-outside-documented-set"
                            };
                            out.fail(why, format!("{} leased; documented set: must {{{}}} may {{{}}}", r.yiaddr, show(&must), show(&may)));
                            return out;
                        }
                        if !got.insert(y) {
                            out.fail("C02:same-address-twice", format!("{} leased to two client identifiers", r.yiaddr));
                            return out;
                        }
                    }
                    Err(_) => {
                        refused = true;
                        break;
                    }
                }
            }
            if !refused {
                out.fail("C02:pool-never-exhausted", "more leases than the documented set has addresses");
                return out;
            }
            let missing: BTreeSet<u32> = must.difference(&got).copied().collect();
            if !missing.is_empty() {
                out.fail(
                    "C02:documented-address-not-leasable",
                    format!("never leased although documented as available: {} (pool refused after {} leases of {})", show(&missing), got.len(), must.len()),
                );
                return out;
            }
        } else {
            // membership probes with option 50 from a fresh client on a fresh store
            out.class("probed");
            let mut probes: BTreeSet<u32> = BTreeSet::new();
            for n in &c.addresses {
                for a in [n.network(), n.network() + 1, n.broadcast().wrapping_sub(1), n.broadcast()] {
                    probes.insert(a);
                }
            }
            probes.insert(u32::from(c.serverip));
            let mut claimed = BTreeSet::new();
            for p in &c.policies {
                claimed_by_tree(p, &mut claimed);
            }
            for a in claimed.iter().take(40) {
                probes.insert(*a);
                probes.insert(a.wrapping_sub(1));
                probes.insert(a.wrapping_add(1));
            }
            for (i, a) in allowed.iter().enumerate() {
                if i % (allowed.len() / 32).max(1) == 0 {
                    probes.insert(*a);
                }
            }
            for x in probes {
                let mut pool = dhcp::pool::Pool::new_in_memory().expect("pool");
                let req = build_request(c, wire::DISCOVER, Some(vec![0xed, 1]), Some(Ipv4Addr::from(x)));
                let y = dhcp::handle_pkt(&mut pool, &req, Default::default(), &conf).ok().map(|r| u32::from(r.yiaddr));
                if must.contains(&x) && y != Some(x) {
                    out.fail("C02:documented-address-not-leasable", format!("{} requested on an empty store, got {:?}", Ipv4Addr::from(x), y.map(Ipv4Addr::from)));
                    return out;
                }
                if !allowed.contains(&x) && y == Some(x) {
                    out.fail("C02:leased-outside-documented-set", format!("{} is not in the documented set but was leased on request", Ipv4Addr::from(x)));
                    return out;
                }
                if let Some(y) = y {
                    if !allowed.contains(&y) {
                        out.fail("C02:leased-outside-documented-set", format!("{} leased", Ipv4Addr::from(y)));
                        return out;
                    }
                }
            }
        }
        out
    }
}

// ---------------------------------------------------------------------------------------------
// C11

fn decode_domain_list(b: &[u8]) -> Option<Vec<Vec<Vec<u8>>>> {
    // RFC 3397: names in RFC 1035 form, compression pointers relative to the option data
    let mut out = vec![];
    let mut i = 0;
    while i < b.len() {
        let mut labels = vec![];
        let mut p = i;
        let mut end: Option<usize> = None;
        let mut jumps = 0;
        loop {
            let l = *b.get(p)? as usize;
            if l == 0 {
                p += 1;
                break;
            } else if l & 0xc0 == 0xc0 {
                let t = ((l & 0x3f) << 8) | *b.get(p + 1)? as usize;
                if end.is_none() {
                    end = Some(p + 2);
                }
                jumps += 1;
                if jumps > 20 {
                    return None;
                }
                p = t;
            } else {
                labels.push(b.get(p + 1..p + 1 + l)?.to_vec());
                p += 1 + l;
            }
        }
        i = end.unwrap_or(p);
        out.push(labels);
    }
    Some(out)
}

pub struct C11Options;

impl Prop for C11Options {
    type Case = PolicyCase;
    fn sub(&self) -> &'static str {
        "options"
    }
    fn check(&self, c: &PolicyCase) -> Outcome {
        let mut out = Outcome::default();
        let text = match render(c) {
            Some(t) => t,
            None => {
                out.excluded.push("yaml-emitter-did-not-round-trip");
                return out;
            }
        };
        let conf = match load(&text) {
            Err(f) => {
                out.fail(format!("load:{}", f.sig), f.detail);
                return out;
            }
            Ok(Err(msg)) => {
                out.fail("C11:valid-config-rejected", msg);
                return out;
            }
            Ok(Ok(c)) => c,
        };
        let mut pool = dhcp::pool::Pool::new_in_memory().expect("pool");
        // what a client is told is a function of the configuration and of its own request: an
        // earlier request of another client, received on the same address while the interface
        // had another MTU / router (or none yet), changes nothing
        let k = (c.style >> 1) & 3;
        if k != 0 {
            let mut early = build_request(c, wire::DISCOVER, Some(vec![0xee, k]), None);
            match k {
                1 => {
                    early.if_mtu = None;
                    early.if_router = None;
                }
                2 => {
                    early.if_mtu = Some(9000);
                    early.if_router = Some(Ipv4Addr::new(10, 255, 255, 254));
                }
                _ => {
                    early.if_mtu = Some(c.if_mtu.map(|m| m as u32 + 4).unwrap_or(1280));
                    early.pkt.options.other.remove(&dhcppkt::OPTION_PARAMLIST);
                }
            }
            let _ = dhcp::handle_pkt(&mut pool, &early, Default::default(), &conf);
            out.class("after-an-earlier-request-seen-with-other-interface-facts");
        }
        let mut req = build_request(c, if c.style % 2 == 0 { wire::DISCOVER } else { wire::REQUEST }, None, None);
        // a client in SELECTING state names the server it chose; on a multi-homed server that
        // may be another of its addresses than the one the message arrives on (RFC 2131 4.1).
        // What "$self4" stands for is still the receiving address.
        let mut ids: std::collections::HashSet<Ipv4Addr> = Default::default();
        if c.style % 2 == 1 && (c.style >> 3) & 1 == 1 {
            let other = Ipv4Addr::new(10, 200, 0, 1);
            req.pkt.options.other.insert(dhcppkt::OPTION_SERVERID, other.octets().to_vec());
            ids.insert(other);
            ids.insert(c.serverip);
            out.class("request-names-another-address-of-this-server");
        }
        let reply = match dhcp::handle_pkt(&mut pool, &req, ids, &conf) {
            Ok(r) => r,
            Err(_) => {
                out.class("no-reply");
                return out;
            }
        };
        let got = crate::hist::options_of(&reply.options);
        // ---- the model
        let pl: BTreeSet<u8> = c.param_list.clone().unwrap_or_default().into_iter().collect();
        // value: Some(bytes) set, None unset-by-null
        let mut model: BTreeMap<u8, Option<Vec<u8>>> = BTreeMap::new();
        let mut soft: BTreeSet<u8> = BTreeSet::new(); // codes the documentation leaves open here
        let mut overridden = false;
        let mut set = |m: &mut BTreeMap<u8, Option<Vec<u8>>>, code: u8, v: Option<Vec<u8>>, ov: &mut bool| {
            if pl.contains(&code) {
                if m.contains_key(&code) {
                    *ov = true;
                }
                m.insert(code, v);
            }
        };
        // top-level defaults
        let dns: Vec<Ipv4Addr> = c
            .dns_servers
            .clone()
            .unwrap_or_else(|| vec![DnsTop::Self4, DnsTop::Self6])
            .iter()
            .filter_map(|d| match d {
                DnsTop::Self4 => Some(c.serverip),
                DnsTop::V4(a) => Some(if a.is_unspecified() { c.serverip } else { *a }),
                _ => None,
            })
            .collect();
        if dns.is_empty() {
            soft.insert(6);
        }
        set(&mut model, 6, Some(dns.iter().flat_map(|a| a.octets()).collect()), &mut overridden);
        let search = c.dns_search.clone().unwrap_or_default();
        if search.is_empty() {
            soft.insert(119);
        }
        set(&mut model, 119, Some(vec![]), &mut overridden); // compared as a decoded list below
        set(&mut model, 114, c.captive_portal.as_ref().map(|u| u.as_bytes().to_vec()), &mut overridden);
        // the addresses prefix the request arrived on
        let mut matching_subnets: Vec<(u32, u8)> = vec![];
        let base_sub = c.addresses.iter().find(|n| n.contains(c.serverip));
        if let Some(n) = base_sub {
            if let Some(m) = c.if_mtu {
                set(&mut model, 26, Some(m.to_be_bytes().to_vec()), &mut overridden);
            }
            if let Some(r) = c.if_router {
                set(&mut model, 3, Some(r.octets().to_vec()), &mut overridden);
            }
            matching_subnets.push((n.network(), n.len));
        }
        // user policies, outer first
        let mut ch = vec![];
        chain(&c.policies, c, &mut ch);
        let mut null_used = false;
        for p in &ch {
            for (o, v) in &p.apply_opts {
                let code = APPLY_OPTS[*o as usize].1;
                if v.is_none() && pl.contains(&code) {
                    null_used = true;
                }
                if let Some(OptVal::IpList(l)) = v {
                    if l.is_empty() {
                        soft.insert(code);
                    }
                }
                set(&mut model, code, v.as_ref().map(|x| x.bytes()), &mut overridden);
            }
            if let Some(s) = &p.match_subnet {
                matching_subnets.push((s.network(), s.len));
            }
        }
        // netmask / broadcast of the matched subnet, unless set by a policy
        matching_subnets.sort();
        matching_subnets.dedup();
        match matching_subnets.as_slice() {
            [] => {}
            [(net, len)] => {
                let n = Net4 { addr: Ipv4Addr::from(*net), len: *len };
                if pl.contains(&1) && !model.contains_key(&1) {
                    model.insert(1, Some(n.mask().to_be_bytes().to_vec()));
                }
                if pl.contains(&28) && !model.contains_key(&28) {
                    model.insert(28, Some(n.broadcast().to_be_bytes().to_vec()));
                }
            }
            _ => {
                // two different matching subnets in play: the manual does not say which wins
                if !model.contains_key(&1) {
                    soft.insert(1);
                }
                if !model.contains_key(&28) {
                    soft.insert(28);
                }
            }
        }
        // ---- classes
        let siblings_both = {
            fn two(pols: &[PolSpec], c: &PolicyCase) -> bool {
                pols.iter().filter(|p| applies(p, c)).count() >= 2 || pols.iter().any(|p| applies(p, c) && two(&p.children, c))
            }
            two(&c.policies, c)
        };
        let withheld = ch.iter().flat_map(|p| p.apply_opts.iter()).any(|(o, _)| !pl.contains(&APPLY_OPTS[*o as usize].1));
        if siblings_both {
            out.class("two-siblings-match");
        }
        if overridden {
            out.class("inner-overrides-outer-or-default");
        }
        if null_used {
            out.class("null-unsets");
        }
        if withheld {
            out.class("withheld-by-parameter-list");
        }
        out.nontrivial = siblings_both || overridden || null_used || withheld;
        // ---- comparison
        let protocol = [wire::OPT_MSG_TYPE, wire::OPT_SERVER_ID, wire::OPT_LEASE_TIME, 58, 59, 121];
        let mut codes: BTreeSet<u8> = got.keys().copied().collect();
        codes.extend(model.keys().copied());
        for code in codes {
            if protocol.contains(&code) || soft.contains(&code) {
                continue;
            }
            let want = model.get(&code).cloned().flatten();
            let have = got.get(&code).cloned();
            let same = if code == 119 {
                match (&want, &have) {
                    (Some(_), Some(h)) => {
                        let wl: Vec<Vec<Vec<u8>>> = search.iter().map(|d| d.split('.').map(|l| l.as_bytes().to_vec()).collect()).collect();
                        decode_domain_list(h) == Some(wl)
                    }
                    (None, None) => true,
                    _ => false,
                }
            } else {
                want == have
            };
            if !same {
                let sig = if !pl.contains(&code) && have.is_some() {
                    "C11:sent-although-not-requested".to_string()
                } else if want.is_none() {
                    format!("C11:option-should-be-absent:{}", code)
                } else if have.is_none() {
                    format!("C11:option-missing:{}", code)
                } else {
                    format!("C11:option-value:{}", code)
                };
                out.fail(
                    sig,
                    format!(
                        "option {}: reply carries {:02x?}, the manual's semantics give {:02x?} (applied chain depth {}, parameter list {})",
                        code,
                        have,
                        want,
                        ch.len(),
                        if c.param_list.is_some() { "present" } else { "absent" }
                    ),
                );
                return out;
            }
        }
        out
    }
}

// ---------------------------------------------------------------------------------------------
// C10 / C13 under generated policies: what the server itself owes every reply cannot be taken
// away or redirected by configuration

/// `which` = "C10" (lease time present, bounded, equal to the record) or "C13" (server
/// identifier present and naming this server, on every reply).
pub struct ReplyInvariants {
    pub which: &'static str,
}

impl Prop for ReplyInvariants {
    type Case = PolicyCase;
    fn sub(&self) -> &'static str {
        "policy-options"
    }
    fn check(&self, c: &PolicyCase) -> Outcome {
        let mut out = Outcome::default();
        let text = match render(c) {
            Some(t) => t,
            None => {
                out.excluded.push("yaml-emitter-did-not-round-trip");
                return out;
            }
        };
        let conf = match load(&text) {
            Err(f) => {
                out.fail(format!("load:{}", f.sig), f.detail);
                return out;
            }
            Ok(Err(_)) => {
                out.class("rejected-at-load");
                return out;
            }
            Ok(Ok(c)) => c,
        };
        let pl: BTreeSet<u8> = c.param_list.clone().unwrap_or_default().into_iter().collect();
        let mut ch = vec![];
        chain(&c.policies, c, &mut ch);
        let touches = |code: u8| ch.iter().flat_map(|p| p.apply_opts.iter()).any(|(o, _)| APPLY_OPTS[*o as usize].1 == code) && pl.contains(&code);
        if touches(51) {
            out.class("policy-names-lease-time-and-client-asks-for-it");
        }
        if touches(54) {
            out.class("policy-names-server-id-and-client-asks-for-it");
        }
        if touches(58) || touches(59) {
            out.class("policy-names-renewal-or-rebind-time-and-client-asks-for-it");
        }
        out.nontrivial = if self.which == "C10" { touches(51) || touches(58) || touches(59) } else { touches(54) };
        let mut pool = dhcp::pool::Pool::new_in_memory().expect("pool");
        let mut ids: std::collections::HashSet<Ipv4Addr> = Default::default();
        let mut offered: Option<Ipv4Addr> = None;
        for step in 0..2 {
            // client identifier: none, or hardware type 1 + six octets (its own address, or not),
            // or an opaque one
            let cid = match (c.style >> 2) & 7 {
                4 => Some([&[1u8][..], &MACS[c.mac as usize][..]].concat()),
                5 => Some(vec![1u8, 2, 0xcc, 0xcc, 0xcc, 0xcc, c.mac]),
                6 => Some(vec![0u8, b'h', b'o', b's', b't', c.mac]),
                7 => Some([&[0xffu8, 0, 0, 0, 1, 0, 1][..], &MACS[c.mac as usize][..]].concat()),
                _ => None,
            };
            if cid.is_some() && !c.plain_hw() {
                out.class("client-id-with-a-hardware-address-that-is-not-six-octets");
            }
            let mut req = build_request(c, if step == 0 { wire::DISCOVER } else { wire::REQUEST }, cid, offered);
            if step == 1 {
                req.pkt.options.other.insert(dhcppkt::OPTION_SERVERID, c.serverip.octets().to_vec());
            }
            let before = wall_now_s();
            let rows_before = crate::hist::rows_of(&mut pool);
            let reply = match dhcp::handle_pkt(&mut pool, &req, ids.clone(), &conf) {
                Ok(r) => r,
                Err(e) => {
                    out.class("no-reply");
                    // whatever the reason, a message that is not answered leaves the store alone
                    let rows_after = crate::hist::rows_of(&mut pool);
                    if self.which == "C13" && rows_after != rows_before {
                        out.nontrivial = true;
                        out.fail(
                            "C13:unanswered-message-changed-the-store",
                            format!(
                                "the {} got no reply ({}), yet the lease store went from {} to {} rows (request option 57: {:?})",
                                if step == 0 { "DISCOVER" } else { "REQUEST" },
                                e,
                                rows_before.len(),
                                rows_after.len(),
                                c.max_message_size()
                            ),
                        );
                    }
                    return out;
                }
            };
            // a request that no configured pool matches yields no reply
            if self.which == "C13" && documented_set(c).is_none() {
                out.nontrivial = true;
                out.fail(
                    "C13:answered-without-a-matching-pool",
                    format!(
                        "the {} was answered with {} although no policy that applies to this client (and no top-level addresses prefix) provides addresses",
                        if step == 0 { "DISCOVER" } else { "REQUEST" },
                        reply.yiaddr
                    ),
                );
                return out;
            }
            if got_len(&reply) > 548 {
                out.class("reply-longer-than-548-octets");
                if self.which == "C13" {
                    out.nontrivial = true;
                }
            }
            let kind = if step == 0 { "offer" } else { "ack" };
            let got = crate::hist::options_of(&reply.options);
            if self.which == "C13" {
                match got.get(&wire::OPT_SERVER_ID) {
                    Some(v) if v.as_slice() == c.serverip.octets() => {}
                    other => {
                        out.fail(
                            format!("C13:reply-server-id:{}", kind),
                            format!("the {} carries server identifier {:?}; this server is {}", kind, other, c.serverip),
                        );
                        return out;
                    }
                }
                let mt = got.get(&wire::OPT_MSG_TYPE).and_then(|v| v.first().copied());
                if mt != Some(if step == 0 { wire::OFFER } else { wire::ACK }) {
                    out.fail(format!("C13:reply-message-type:{}", kind), format!("{:?}", mt));
                    return out;
                }
                // the reply echoes the request's transaction id, hardware address, relay address
                // and flags
                if reply.chaddr != req.pkt.chaddr {
                    out.fail("C13:echo-chaddr", format!("the {} carries hardware address {:02x?}; the request's is {:02x?} (client id {:02x?})", kind, reply.chaddr, req.pkt.chaddr, req.pkt.options.get_clientid()));
                    return out;
                }
                if reply.xid != req.pkt.xid || reply.giaddr != req.pkt.giaddr || reply.flags != req.pkt.flags {
                    out.fail("C13:echo-fields", format!("the {}: xid {:#x} giaddr {} flags {:#x}", kind, reply.xid, reply.giaddr, reply.flags));
                    return out;
                }
                // ... and touches only the row of the address it assigns
                let rows_after = crate::hist::rows_of(&mut pool);
                let changed: Vec<Ipv4Addr> = rows_after
                    .iter()
                    .filter(|r| !rows_before.contains(r))
                    .map(|r| r.ip)
                    .chain(rows_before.iter().filter(|r| !rows_after.iter().any(|a| a.ip == r.ip)).map(|r| r.ip))
                    .filter(|ip| *ip != reply.yiaddr)
                    .collect();
                if !changed.is_empty() {
                    out.fail("C13:reply-touched-other-rows", format!("the {} assigns {} and changed the rows of {:?}", kind, reply.yiaddr, changed));
                    return out;
                }
            } else {
                let l = match got.get(&wire::OPT_LEASE_TIME) {
                    Some(v) if v.len() == 4 => u32::from_be_bytes([v[0], v[1], v[2], v[3]]),
                    other => {
                        out.fail(format!("C10:no-lease-time:{}", kind), format!("option 51 of the {}: {:?}", kind, other));
                        return out;
                    }
                };
                if !(300..=86400).contains(&l) {
                    out.fail(format!("C10:lease-time-out-of-bounds:{}", kind), format!("{} s", l));
                    return out;
                }
                let rows = crate::hist::rows_of(&mut pool);
                match rows.iter().find(|r| r.ip == reply.yiaddr) {
                    Some(r) => {
                        let dur = r.expire as i64 - r.start as i64;
                        if dur != l as i64 || (r.expire as i64) < before + l as i64 - 1 {
                            out.fail(
                                format!("C10:record-differs-from-lease-time:{}", kind),
                                format!("the {} says {} s, the record runs {} s (start {}, expiry {}, now {})", kind, l, dur, r.start, r.expire, before),
                            );
                            return out;
                        }
                    }
                    None => {
                        out.fail(format!("C10:no-record:{}", kind), format!("no row for {}", reply.yiaddr));
                        return out;
                    }
                }
            }
            ids.insert(c.serverip);
            offered = Some(reply.yiaddr);
        }
        out
    }
}

fn got_len(reply: &dhcppkt::Dhcp) -> usize {
    reply.serialise().len()
}

fn wall_now_s() -> i64 {
    crate::hist::wall_now() as i64
}

pub fn run_reply_invariants(ctx: &Ctx, which: &'static str) {
    let prof = TreeProfile {
        likely_match: true,
        addresses: true,
        options: true,
        match_opts: true,
    };
    run_prop(ctx, &ReplyInvariants { which }, move || policy_case_strategy(prof), ctx.tier.pick(20_000, 600_000), workers());
}

pub fn run_c02(ctx: &Ctx) {
    let prof = TreeProfile {
        likely_match: false,
        addresses: true,
        options: false,
        match_opts: false,
    };
    run_prop(ctx, &C02Set, move || policy_case_strategy(prof), ctx.tier.pick(30_000, 600_000), workers());
}

pub fn run_c11(ctx: &Ctx) {
    let prof = TreeProfile {
        likely_match: true,
        addresses: true,
        options: true,
        match_opts: true,
    };
    run_prop(ctx, &C11Options, move || policy_case_strategy(prof), ctx.tier.pick(60_000, 2_000_000), workers());
}

pub fn replay(id: &str, sub: &str, case: &serde_json::Value) -> Option<Result<Outcome, String>> {
    match (id, sub) {
        ("C02", "address-set") => Some(replay_prop(&C02Set, case)),
        ("C10", "policy-options") => Some(replay_prop(&ReplyInvariants { which: "C10" }, case)),
        ("C13", "policy-options") => Some(replay_prop(&ReplyInvariants { which: "C13" }, case)),
        ("C11", "options") => Some(replay_prop(&C11Options, case)),
        _ => None,
    }
}
