//! C17 (function tier): generated router-advertisement configurations through the real loader
//! (H1) and the pure announcement builder (H4), decoded by an RFC decoder.

use crate::conf::*;
use crate::engine::*;
use crate::rfc4861::*;
use proptest::prelude::*;
use serde::{Deserialize, Serialize};
use std::net::Ipv6Addr;
use yaml_rust::yaml::Yaml;

fn workers() -> usize {
    crate::props_codec::workers()
}

#[derive(Clone, Debug, Serialize, Deserialize, PartialEq)]
pub enum Tri<T> {
    Absent,
    Null,
    Val(T),
}

impl<T> Tri<T> {
    fn val(&self) -> Option<&T> {
        match self {
            Tri::Val(v) => Some(v),
            _ => None,
        }
    }
}

/// A duration in seconds and how it is written.
#[derive(Clone, Debug, Serialize, Deserialize, PartialEq)]
pub struct Dur {
    pub secs: u64,
    /// 0: YAML integer, 1: "<n>s", 2: mixed units, 3: bare digits in a string
    pub style: u8,
}

impl Dur {
    fn yaml(&self) -> Yaml {
        match self.style {
            0 if self.secs <= i64::MAX as u64 => Yaml::Integer(self.secs as i64),
            1 => ystr(&format!("{}s", self.secs)),
            2 => {
                let (w, r) = (self.secs / 604800, self.secs % 604800);
                let (d, r) = (r / 86400, r % 86400);
                let (h, r) = (r / 3600, r % 3600);
                let (m, s) = (r / 60, r % 60);
                let mut t = String::new();
                if w > 0 {
                    t.push_str(&format!("{}w", w));
                }
                if d > 0 {
                    t.push_str(&format!("{}d ", d));
                }
                if h > 0 {
                    t.push_str(&format!("{}h", h));
                }
                if m > 0 {
                    t.push_str(&format!("{}m", m));
                }
                if s > 0 || t.is_empty() {
                    t.push_str(&format!("{}", s));
                }
                ystr(&t)
            }
            _ => ystr(&format!("{}", self.secs)),
        }
    }
}

#[derive(Clone, Debug, Serialize, Deserialize, PartialEq)]
pub struct PrefixSpec {
    pub addr: Ipv6Addr,
    pub len: u8,
    pub onlink: Tri<bool>,
    pub autonomous: Tri<bool>,
    pub valid: Tri<Dur>,
    pub preferred: Tri<Dur>,
}

#[derive(Clone, Debug, Serialize, Deserialize, PartialEq)]
pub enum Addr6 {
    SelfAddr,
    Ip(Ipv6Addr),
    /// the interface's own address written out (the address `$self6` stands for, as a literal)
    SelfLiteral,
}

#[derive(Clone, Debug, Serialize, Deserialize, PartialEq)]
pub struct RdnssSpec {
    pub addresses: Tri<Vec<Addr6>>,
    pub lifetime: Tri<Dur>,
}

#[derive(Clone, Debug, Serialize, Deserialize, PartialEq)]
pub struct DnsslSpec {
    pub domains: Tri<Vec<String>>,
    pub lifetime: Tri<Dur>,
}

#[derive(Clone, Debug, Serialize, Deserialize, PartialEq)]
pub struct Pref64Spec {
    pub addr: Ipv6Addr,
    pub len: u8,
    pub lifetime: Option<Dur>,
}

#[derive(Clone, Debug, Serialize, Deserialize, PartialEq)]
pub struct IfaceSpec {
    pub hop_limit: Tri<u8>,
    pub managed: Tri<bool>,
    pub other: Tri<bool>,
    pub lifetime: Tri<Dur>,
    pub reachable: Tri<Dur>,
    pub retransmit: Tri<Dur>,
    pub mtu: Tri<u32>,
    pub prefixes: Option<Vec<PrefixSpec>>,
    pub rdnss: Option<RdnssSpec>,
    pub dnssl: Option<DnsslSpec>,
    pub captive: Tri<String>,
    pub pref64: Option<Pref64Spec>,
    /// `max-router-advertisement-interval` (seconds, 4..1800): a setting of the advertisement
    /// *timer*; nothing in the advertisement's content depends on it
    #[serde(default)]
    pub max_interval: Option<u32>,
}

#[derive(Clone, Debug, Serialize, Deserialize, PartialEq)]
pub enum TopDns {
    Self4,
    Self6,
    V4(std::net::Ipv4Addr),
    V6(Ipv6Addr),
}

#[derive(Clone, Debug, Serialize, Deserialize, PartialEq)]
pub struct RaCase {
    pub top_dns: Option<Vec<TopDns>>,
    pub top_search: Option<Vec<String>>,
    pub top_captive: Option<String>,
    pub iface: IfaceSpec,
    pub ll: Option<[u8; 6]>,
    /// what the impure wrapper would resolve the MTU to when the config leaves it unspecified
    pub if_mtu: Option<u32>,
    pub self6: Ipv6Addr,
    pub fallback_lifetime: u16,
}

// ---------------------------------------------------------------------------------------------
// generators

const LIFETIMES: [u64; 14] = [
    0, 1, 8, 600, 1800, 9000, 9001, 65535, 65536, 4294967, 4294968, 2147483648, 4294967295, 4294967296,
];

fn dur_strategy() -> impl Strategy<Value = Dur> {
    (
        prop_oneof![
            3 => any::<u16>().prop_map(|i| LIFETIMES[pick_idx(i, LIFETIMES.len())]),
            2 => 0u64..100_000,
            1 => 0u64..10_000_000_000,
        ],
        0u8..4,
    )
        .prop_map(|(secs, style)| Dur { secs, style })
}

fn tri<T: std::fmt::Debug + Clone + 'static>(s: impl Strategy<Value = T> + 'static) -> impl Strategy<Value = Tri<T>> {
    prop_oneof![
        2 => Just(Tri::Absent),
        1 => Just(Tri::Null),
        4 => s.prop_map(Tri::Val),
    ]
}

fn ip6_strategy() -> impl Strategy<Value = Ipv6Addr> {
    prop_oneof![
        3 => any::<[u16; 4]>().prop_map(|a| Ipv6Addr::new(0x2001, 0xdb8, a[0], a[1], 0, 0, 0, a[2] & 0xff)),
        1 => any::<u128>().prop_map(Ipv6Addr::from),
        1 => Just("64:ff9b::".parse().unwrap()),
        1 => Just(Ipv6Addr::from(u128::MAX)),
        // one of each class of address that the address architecture sets apart (RFC 4291,
        // 4193, 6052, 3849): unspecified, loopback, link-local, site-local, unique local,
        // multicast, v4-mapped, 6to4, Teredo, documentation
        2 => (any::<u16>(), any::<u16>()).prop_map(|(i, low)| {
            const SPECIAL: [&str; 16] = [
                "::", "::1", "fe80::", "fe80::1", "fe80:0:0:1::", "febf:ffff::", "fec0::", "fc00::", "fd00:1:2:3::", "ff02::1", "ff05::", "::ffff:192.0.2.1", "2002:c000:201::",
                "2001::", "2001:db8::", "100::",
            ];
            let a: Ipv6Addr = SPECIAL[pick_idx(i, SPECIAL.len())].parse().unwrap();
            if low & 3 == 0 {
                Ipv6Addr::from(u128::from(a) | (low >> 2) as u128)
            } else {
                a
            }
        }),
    ]
}

const DOMAIN_LABELS: [&str; 16] = [
    "example", "com", "a", "corp", "x-y", "lan", "net", "org", "b", "home", "arpa", "test", "i", "example",
    "lllllllllllllllllllllllllllllllllllllllllllllllllllllllllllllll", "com",
];

fn representable_domain_strategy() -> impl Strategy<Value = String> {
    proptest::collection::vec(any::<u16>(), 1..=8).prop_map(|v| {
        let mut labels: Vec<&str> = v.iter().map(|i| DOMAIN_LABELS[pick_idx(*i, DOMAIN_LABELS.len())]).collect();
        // a domain name is at most 255 octets on the wire
        while labels.iter().map(|l| l.len() + 1).sum::<usize>() + 1 > 255 {
            labels.pop();
        }
        labels.join(".")
    })
}

/// RFC 1035 section 2.3.4 / 3.1: labels of 1..63 octets, at most 255 octets on the wire.
pub fn domain_representable(d: &str) -> bool {
    d.split('.').all(|l| (1..=63).contains(&l.len())) && d.split('.').map(|l| l.len() + 1).sum::<usize>() + 1 <= 255
}

/// Octets a search list occupies in the option body (names, padded to 8); the length field is
/// one octet in units of 8, so option (8 header octets + this) must stay within 255 * 8.
pub fn dnssl_body_len(domains: &[String]) -> usize {
    let n: usize = domains.iter().map(|d| d.split('.').map(|l| l.len() + 1).sum::<usize>() + 1).sum();
    n.div_ceil(8) * 8
}

fn domain_strategy() -> impl Strategy<Value = String> {
    prop_oneof![
        30 => representable_domain_strategy(),
        // a label the 6-bit length cannot carry (64 reads as an unknown label type, 192 as a
        // compression pointer, 256 wraps to 0)
        2 => (prop_oneof![Just(64usize), Just(65), Just(127), Just(128), Just(191), Just(192), Just(255), Just(256), Just(257), Just(300), 64usize..400], 0usize..3, any::<u16>())
            .prop_map(|(n, pos, tail)| {
                let mut labels: Vec<String> = vec!["x".repeat(n)];
                let t = DOMAIN_LABELS[pick_idx(tail, 14)].to_string();
                if pos == 0 { labels.push(t) } else if pos == 1 { labels.insert(0, t) }
                labels.join(".")
            }),
        // every label fits, the name does not (more than 255 octets)
        1 => (4usize..=7, 1usize..=63).prop_map(|(k, last)| {
            let mut labels: Vec<String> = (0..k).map(|i| ((b'a' + i as u8) as char).to_string().repeat(63)).collect();
            labels.push("z".repeat(last));
            labels.join(".")
        }),
        // long but representable: 3 x 63 + tail (up to 255 octets on the wire)
        2 => (1usize..=61, any::<u8>()).prop_map(|(last, c)| {
            let mut labels: Vec<String> = (0..3).map(|i| ((b'a' + (c.wrapping_add(i) % 26)) as char).to_string().repeat(63)).collect();
            labels.push("q".repeat(last));
            labels.join(".")
        }),
    ]
}

fn long_domain_list() -> impl Strategy<Value = Vec<String>> {
    proptest::collection::vec(
        (56usize..=61, any::<u8>()).prop_map(|(last, c)| {
            let mut labels: Vec<String> = (0..3).map(|i| ((b'a' + (c.wrapping_add(i) % 26)) as char).to_string().repeat(63)).collect();
            labels.push("q".repeat(last));
            labels.join(".")
        }),
        7..=10,
    )
}

fn url_strategy() -> impl Strategy<Value = String> {
    prop_oneof![
        3 => "https://[a-z]{1,12}\\.example\\.com/[a-z0-9/]{0,20}",
        1 => "[ -~]{0,240}",
        1 => Just(String::new()),
        1 => "[a-z]{5,7}",
        // around the longest URL the option can carry (255 units of 8 octets, two of them the
        // option's head: 2038), and around twice that
        1 => prop_oneof![Just(2030usize), Just(2037), Just(2038), Just(2039), Just(2040), Just(2046), Just(2047), Just(2048), Just(4086), Just(4090)]
            .prop_map(|n| format!("https://portal.example/{}", "u".repeat(n - 23))),
    ]
}

fn iface_strategy() -> impl Strategy<Value = IfaceSpec> {
    let prefix = (
        ip6_strategy(),
        prop_oneof![3 => Just(64u8), 1 => Just(0u8), 1 => Just(128u8), 1 => Just(1u8), 1 => Just(127u8), 3 => 0u8..=128],
        tri(any::<bool>()),
        tri(any::<bool>()),
        tri(dur_strategy()),
        tri(dur_strategy()),
    )
        .prop_map(|(addr, len, onlink, autonomous, valid, preferred)| PrefixSpec {
            addr,
            len,
            onlink,
            autonomous,
            valid,
            preferred,
        });
    let addr6 = prop_oneof![2 => Just(Addr6::SelfAddr), 6 => ip6_strategy().prop_map(Addr6::Ip), 1 => Just(Addr6::SelfLiteral)];
    let rdnss = (tri(proptest::collection::vec(addr6, 0..=8)), tri(dur_strategy()))
        .prop_map(|(addresses, lifetime)| RdnssSpec { addresses, lifetime });
    let dnssl = (tri(prop_oneof![24 => proptest::collection::vec(domain_strategy(), 0..=5), 1 => long_domain_list()]), tri(dur_strategy()))
        .prop_map(|(domains, lifetime)| DnsslSpec { domains, lifetime });
    let pref64 = (
        ip6_strategy(),
        prop_oneof![Just(32u8), Just(40), Just(48), Just(56), Just(64), Just(96)],
        proptest::option::of(prop_oneof![
            Just(0u64), Just(8), Just(600), Just(65528), Just(65529), Just(1_000_000), 0u64..70000
        ]
        .prop_map(|secs| Dur { secs, style: 1 })),
    )
        .prop_map(|(addr, len, lifetime)| Pref64Spec { addr, len, lifetime });
    (
        (
            tri(any::<u8>()),
            tri(any::<bool>()),
            tri(any::<bool>()),
            tri(dur_strategy()),
            tri(dur_strategy()),
            tri(dur_strategy()),
            tri(prop_oneof![Just(1280u32), Just(1500), Just(0), Just(u32::MAX), any::<u32>()]),
        ),
        proptest::option::weighted(0.8, proptest::collection::vec(prefix, 0..=6)),
        proptest::option::weighted(0.7, rdnss),
        proptest::option::weighted(0.7, dnssl),
        tri(url_strategy()),
        proptest::option::weighted(0.5, pref64),
    )
        .prop_map(|(h, prefixes, rdnss, dnssl, captive, pref64)| IfaceSpec {
            max_interval: match h.0.val() {
                Some(v) if v % 3 == 0 => Some([4u32, 10, 600, 1800][(*v as usize / 3) % 4]),
                _ => None,
            },
            hop_limit: h.0,
            managed: h.1,
            other: h.2,
            lifetime: h.3,
            reachable: h.4,
            retransmit: h.5,
            mtu: h.6,
            prefixes,
            rdnss,
            dnssl,
            captive,
            pref64,
        })
}

pub fn ra_case_strategy() -> impl Strategy<Value = RaCase> {
    let top = prop_oneof![
        1 => Just(TopDns::Self4),
        2 => Just(TopDns::Self6),
        1 => any::<u32>().prop_map(|a| TopDns::V4(a.into())),
        3 => ip6_strategy().prop_map(TopDns::V6),
    ];
    (
        proptest::option::weighted(0.6, proptest::collection::vec(top, 0..=5)),
        proptest::option::weighted(0.6, proptest::collection::vec(domain_strategy(), 0..=3)),
        proptest::option::weighted(0.5, url_strategy()),
        iface_strategy(),
        proptest::option::weighted(0.8, any::<[u8; 6]>()),
        proptest::option::weighted(0.8, prop_oneof![Just(1500u32), Just(9000), Just(65536), any::<u32>()]),
        ip6_strategy(),
        prop_oneof![Just(0u16), Just(1800), any::<u16>()],
    )
        .prop_map(|(top_dns, top_search, top_captive, iface, ll, if_mtu, self6, fallback_lifetime)| RaCase {
            top_dns,
            top_search,
            top_captive,
            iface,
            ll,
            if_mtu,
            self6,
            fallback_lifetime,
        })
}

// ---------------------------------------------------------------------------------------------
// rendering

fn put<T>(items: &mut Vec<(&'static str, Yaml)>, key: &'static str, t: &Tri<T>, f: impl Fn(&T) -> Yaml) {
    match t {
        Tri::Absent => {}
        Tri::Null => items.push((key, Yaml::Null)),
        Tri::Val(v) => items.push((key, f(v))),
    }
}

pub fn render(c: &RaCase) -> Option<String> {
    render_named(c, "eth7")
}

pub fn render_named(c: &RaCase, ifname: &str) -> Option<String> {
    let mut top: Vec<(&str, Yaml)> = vec![];
    if let Some(d) = &c.top_dns {
        top.push((
            "dns-servers",
            ylist(
                d.iter()
                    .map(|x| match x {
                        TopDns::Self4 => ystr("$self4"),
                        TopDns::Self6 => ystr("$self6"),
                        TopDns::V4(a) => ystr(&a.to_string()),
                        TopDns::V6(a) => ystr(&a.to_string()),
                    })
                    .collect(),
            ),
        ));
    }
    if let Some(s) = &c.top_search {
        top.push(("dns-search", ylist(s.iter().map(|x| ystr(x)).collect())));
    }
    if let Some(u) = &c.top_captive {
        top.push(("captive-portal", ystr(u)));
    }
    let i = &c.iface;
    let mut it: Vec<(&'static str, Yaml)> = vec![];
    put(&mut it, "hop-limit", &i.hop_limit, |v| Yaml::Integer(*v as i64));
    if let Some(m) = i.max_interval {
        it.push(("max-router-advertisement-interval", if m % 60 == 0 { ystr(&format!("{}m", m / 60)) } else { Yaml::Integer(m as i64) }));
    }
    put(&mut it, "managed", &i.managed, |v| Yaml::Boolean(*v));
    put(&mut it, "other", &i.other, |v| Yaml::Boolean(*v));
    put(&mut it, "lifetime", &i.lifetime, |v| v.yaml());
    put(&mut it, "reachable", &i.reachable, |v| v.yaml());
    put(&mut it, "retransmit", &i.retransmit, |v| v.yaml());
    put(&mut it, "mtu", &i.mtu, |v| Yaml::Integer(*v as i64));
    if let Some(ps) = &i.prefixes {
        it.push((
            "prefixes",
            ylist(
                ps.iter()
                    .map(|p| {
                        let mut e: Vec<(&'static str, Yaml)> = vec![("prefix", ystr(&format!("{}/{}", p.addr, p.len)))];
                        put(&mut e, "on-link", &p.onlink, |v| Yaml::Boolean(*v));
                        put(&mut e, "autonomous", &p.autonomous, |v| Yaml::Boolean(*v));
                        put(&mut e, "valid", &p.valid, |v| v.yaml());
                        put(&mut e, "preferred", &p.preferred, |v| v.yaml());
                        ymap(e)
                    })
                    .collect(),
            ),
        ));
    }
    if let Some(r) = &i.rdnss {
        let mut e: Vec<(&'static str, Yaml)> = vec![];
        put(&mut e, "addresses", &r.addresses, |v| {
            ylist(
                v.iter()
                    .map(|a| match a {
                        Addr6::SelfAddr => ystr("$self6"),
                        Addr6::Ip(ip) => ystr(&ip.to_string()),
                        Addr6::SelfLiteral => ystr(&c.self6.to_string()),
                    })
                    .collect(),
            )
        });
        put(&mut e, "lifetime", &r.lifetime, |v| v.yaml());
        it.push(("dns-servers", ymap(e)));
    }
    if let Some(d) = &i.dnssl {
        let mut e: Vec<(&'static str, Yaml)> = vec![];
        put(&mut e, "domains", &d.domains, |v| ylist(v.iter().map(|x| ystr(x)).collect()));
        put(&mut e, "lifetime", &d.lifetime, |v| v.yaml());
        it.push(("dns-search", ymap(e)));
    }
    put(&mut it, "captive-portal", &i.captive, |v| ystr(v));
    if let Some(p) = &i.pref64 {
        let mut e: Vec<(&'static str, Yaml)> = vec![("prefix", ystr(&format!("{}/{}", p.addr, p.len)))];
        if let Some(l) = &p.lifetime {
            e.push(("lifetime", l.yaml()));
        }
        it.push(("pref64", ymap(e)));
    }
    top.push(("router-advertisements", ymap(vec![(ifname, ymap(it))])));
    let tree = vary_key_order(&ymap(top));
    let text = emit(&tree);
    // the third-party emitter must have written what we meant, or the expectation is void
    if parse_yaml(&text).as_ref() != Some(&tree) {
        return None;
    }
    Some(text)
}

// ---------------------------------------------------------------------------------------------
// expectation and comparison

fn mask6(a: &Ipv6Addr, len: u8) -> Ipv6Addr {
    let m: u128 = if len == 0 { 0 } else if len >= 128 { u128::MAX } else { !(u128::MAX >> len) };
    Ipv6Addr::from(u128::from(*a) & m)
}

/// Acceptable wire values for a configured value `v` in a field that holds at most `max`:
/// the value itself if it fits; otherwise the field maximum or a stated RFC maximum (clamp).
/// (Rejecting the configuration is handled by the caller.)
fn acceptable(v: u64, max: u64, rfc_max: Option<u64>) -> Vec<u64> {
    if v <= max {
        let mut a = vec![v];
        if let Some(r) = rfc_max {
            if v > r {
                a.push(r);
            }
        }
        a
    } else {
        let mut a = vec![max];
        if let Some(r) = rfc_max {
            a.push(r);
        }
        a
    }
}

fn check_field(out: &mut Outcome, name: &str, got: u64, v: u64, max: u64, rfc_max: Option<u64>) -> bool {
    let ok = acceptable(v, max, rfc_max);
    if ok.contains(&got) {
        return true;
    }
    let wrapped = v > max && got == v % (max + 1);
    out.fail(
        if wrapped {
            format!("C17:wrapped:{}", name)
        } else {
            format!("C17:value:{}", name)
        },
        format!(
            "{}: configured {}, on the wire {} (field maximum {}){}",
            name,
            v,
            got,
            max,
            if wrapped { " = value mod 2^n" } else { "" }
        ),
    );
    false
}

pub struct C17Build;

impl Prop for C17Build {
    type Case = RaCase;
    fn sub(&self) -> &'static str {
        "build"
    }
    fn check(&self, c: &RaCase) -> Outcome {
        let mut out = Outcome::default();
        let text = match render(c) {
            Some(t) => t,
            None => {
                out.excluded.push("yaml-emitter-did-not-round-trip");
                return out;
            }
        };
        let i = &c.iface;
        // which configured values cannot be represented on the wire?
        let mut unrepresentable = false;
        let big = |d: &Tri<Dur>, max: u64| d.val().map(|d| d.secs > max).unwrap_or(false);
        if big(&i.lifetime, 65535) || big(&i.reachable, 4294967) || big(&i.retransmit, 4294967) {
            unrepresentable = true;
        }
        if let Some(ps) = &i.prefixes {
            for p in ps {
                if big(&p.valid, u32::MAX as u64) || big(&p.preferred, u32::MAX as u64) {
                    unrepresentable = true;
                }
            }
        }
        if let Some(r) = &i.rdnss {
            if big(&r.lifetime, u32::MAX as u64) {
                unrepresentable = true;
            }
        }
        if let Some(d) = &i.dnssl {
            if big(&d.lifetime, u32::MAX as u64) {
                unrepresentable = true;
            }
        }
        if let Some(p) = &i.pref64 {
            if p.lifetime.as_ref().map(|l| l.secs > 65528).unwrap_or(false) {
                unrepresentable = true;
            }
        }
        // an unrepresentable name may be refused by the loader wherever it is configured
        let all_domains = i
            .dnssl
            .as_ref()
            .and_then(|d| d.domains.val().cloned())
            .unwrap_or_default()
            .into_iter()
            .chain(c.top_search.clone().unwrap_or_default());
        for d in all_domains {
            if !domain_representable(&d) {
                unrepresentable = true;
                out.class("search-domain-not-representable");
            }
        }
        if let Some(w) = effective_search_list(c) {
            if 8 + dnssl_body_len(&w.into_iter().filter(|d| domain_representable(d)).collect::<Vec<_>>()) > 255 * 8 {
                unrepresentable = true;
                out.class("search-list-longer-than-the-option-can-be");
            }
        }
        if unrepresentable {
            out.class("has-unrepresentable-value");
        }
        let conf = match load(&text) {
            Err(f) => {
                out.nontrivial = true;
                out.fail(format!("load:{}", f.sig), f.detail);
                return out;
            }
            Ok(Err(msg)) => {
                if unrepresentable {
                    out.class("rejected-at-load");
                    out.nontrivial = true;
                    return out;
                }
                out.fail(
                    "C17:valid-config-rejected",
                    format!("every value is representable, yet the loader says: {}", msg),
                );
                return out;
            }
            Ok(Ok(c)) => c,
        };
        let mtu_param = match &i.mtu {
            Tri::Val(v) => Some(*v),
            Tri::Null => None,
            Tri::Absent => c.if_mtu,
        };
        let built = guard(|| {
            erbium::radv::verif_build_ra(
                &conf,
                "eth7",
                c.ll,
                mtu_param,
                c.self6,
                std::time::Duration::from_secs(c.fallback_lifetime as u64),
            )
            .map(|ra| erbium::radv::icmppkt::serialise(&erbium::radv::icmppkt::Icmp6::RtrAdvert(ra)))
        });
        let bytes = match built {
            Err(f) => {
                out.nontrivial = true;
                out.fail(format!("build:{}", f.sig), f.detail);
                return out;
            }
            Ok(None) => {
                out.fail("C17:interface-missing", "configured interface eth7 not found after load");
                return out;
            }
            Ok(Some(b)) => b,
        };
        let ra = match decode_ra(&bytes) {
            Ok(r) => r,
            Err(e) => {
                out.nontrivial = true;
                out.fail("C17:rfc-decoder-rejects", e);
                return out;
            }
        };
        judge_ra(c, mtu_param, &ra, unrepresentable, &mut out);
        out
    }
}

/// Compare a decoded RA with what the configuration says (shared by the function and wire tiers).
/// The search list configured for the interface: its own, else the top-level one; None = `null`.
pub fn effective_search_list(c: &RaCase) -> Option<Vec<String>> {
    match c.iface.dnssl.as_ref().map(|d| &d.domains) {
        Some(Tri::Val(v)) => Some(v.clone()),
        Some(Tri::Null) => None,
        _ => Some(c.top_search.clone().unwrap_or_default()),
    }
}

pub fn judge_ra(c: &RaCase, mtu_param: Option<u32>, ra: &Ra, unrepresentable: bool, out: &mut Outcome) {
    let i = &c.iface;
    // ---- header
    let kinds = ra
        .options
        .iter()
        .map(std::mem::discriminant)
        .collect::<std::collections::HashSet<_>>()
        .len();
    out.nontrivial = kinds >= 3 || unrepresentable;
    if ra.flags_rest != 0 {
        out.fail("C17:reserved:ra-flags", format!("{:#x}", ra.flags_rest));
        return;
    }
    let want_hop = i.hop_limit.val().copied().unwrap_or(0);
    if ra.hop_limit != want_hop {
        out.fail("C17:value:hop-limit", format!("{} vs {}", ra.hop_limit, want_hop));
        return;
    }
    if ra.managed != i.managed.val().copied().unwrap_or(false) || ra.other != i.other.val().copied().unwrap_or(false) {
        out.fail("C17:value:flags", format!("M={} O={}", ra.managed, ra.other));
        return;
    }
    let router_lifetime = match &i.lifetime {
        Tri::Val(d) => {
            if !check_field(out, "router-lifetime", ra.lifetime as u64, d.secs, 65535, Some(9000)) {
                return;
            }
            ra.lifetime as u64
        }
        _ => {
            if ra.lifetime != c.fallback_lifetime {
                out.fail("C17:value:router-lifetime-default", format!("{} vs {}", ra.lifetime, c.fallback_lifetime));
                return;
            }
            ra.lifetime as u64
        }
    };
    let rs = i.reachable.val().map(|d| d.secs).unwrap_or(0);
    if !check_field(out, "reachable", ra.reachable_ms as u64, rs.saturating_mul(1000), u32::MAX as u64, Some(3_600_000)) {
        return;
    }
    let ts = i.retransmit.val().map(|d| d.secs).unwrap_or(0);
    if !check_field(out, "retransmit", ra.retrans_ms as u64, ts.saturating_mul(1000), u32::MAX as u64, None) {
        return;
    }
    // ---- options by kind
    let lls: Vec<&Vec<u8>> = ra.options.iter().filter_map(|o| if let NdOpt::SourceLl(b) = o { Some(b) } else { None }).collect();
    match (&c.ll, lls.as_slice()) {
        (None, []) => {}
        (Some(m), [b]) if b.as_slice() == m => {}
        _ => {
            out.fail("C17:option:source-ll", format!("{:?} vs {:?}", c.ll, lls));
            return;
        }
    }
    let mtus: Vec<(u16, u32)> = ra.options.iter().filter_map(|o| if let NdOpt::Mtu { reserved, mtu } = o { Some((*reserved, *mtu)) } else { None }).collect();
    match (mtu_param, mtus.as_slice()) {
        (None, []) => {}
        (Some(m), [(0, g)]) if *g == m => {}
        (Some(_), [(r, _)]) if *r != 0 => {
            out.fail("C17:reserved:mtu", format!("{:?}", mtus));
            return;
        }
        _ => {
            out.fail("C17:option:mtu", format!("{:?} vs {:?}", mtu_param, mtus));
            return;
        }
    }
    // prefixes, in order
    let got_p: Vec<&NdOpt> = ra.options.iter().filter(|o| matches!(o, NdOpt::Prefix { .. })).collect();
    let want_p: Vec<PrefixSpec> = i.prefixes.clone().unwrap_or_default();
    if got_p.len() != want_p.len() {
        out.fail("C17:option:prefix-count", format!("{} vs {}", got_p.len(), want_p.len()));
        return;
    }
    for (g, w) in got_p.iter().zip(want_p.iter()) {
        if let NdOpt::Prefix { len, onlink, autonomous, flags_rest, valid, preferred, reserved2, prefix } = g {
            if *len != w.len || *onlink != w.onlink.val().copied().unwrap_or(true) || *autonomous != w.autonomous.val().copied().unwrap_or(true) {
                out.fail("C17:value:prefix-flags", format!("{:?} vs {:?}", g, w));
                return;
            }
            if *flags_rest != 0 || *reserved2 != 0 {
                out.fail("C17:reserved:prefix", format!("{:?}", g));
                return;
            }
            let wv = w.valid.val().map(|d| d.secs).unwrap_or(2592000);
            let wp = w.preferred.val().map(|d| d.secs).unwrap_or(604800);
            if !check_field(out, "prefix-valid", *valid as u64, wv, u32::MAX as u64, None) {
                return;
            }
            if !check_field(out, "prefix-preferred", *preferred as u64, wp, u32::MAX as u64, None) {
                return;
            }
            if *prefix != mask6(&w.addr, w.len) {
                let sig = if *prefix == w.addr { "C17:reserved:prefix-host-bits" } else { "C17:value:prefix" };
                out.fail(sig, format!("configured {}/{}: on the wire {} (expected {})", w.addr, w.len, prefix, mask6(&w.addr, w.len)));
                return;
            }
            if w.addr != mask6(&w.addr, w.len) {
                out.class("prefix-with-host-bits");
            }
        }
    }
    // RDNSS
    let want_servers: Option<Vec<Ipv6Addr>> = match i.rdnss.as_ref().map(|r| &r.addresses) {
        Some(Tri::Val(v)) => Some(v.iter().map(|a| match a { Addr6::SelfAddr | Addr6::SelfLiteral => c.self6, Addr6::Ip(ip) if ip.is_unspecified() => c.self6, Addr6::Ip(ip) => *ip }).collect()),
        Some(Tri::Null) => None,
        _ => {
            // top-level default (which itself defaults to [$self4, $self6])
            let top = c.top_dns.clone().unwrap_or_else(|| vec![TopDns::Self4, TopDns::Self6]);
            Some(top.iter().filter_map(|t| match t {
                TopDns::Self6 => Some(c.self6),
                TopDns::V6(ip) => Some(if ip.is_unspecified() { c.self6 } else { *ip }),
                _ => None,
            }).collect())
        }
    };
    let got_r: Vec<&NdOpt> = ra.options.iter().filter(|o| matches!(o, NdOpt::Rdnss { .. })).collect();
    match (&want_servers, got_r.as_slice()) {
        (None, []) => {}
        (Some(w), []) if w.is_empty() => {}
        (Some(w), [NdOpt::Rdnss { reserved, lifetime, servers }]) => {
            if *reserved != 0 {
                out.fail("C17:reserved:rdnss", "");
                return;
            }
            if servers != w {
                out.fail("C17:value:rdnss-servers", format!("{:?} vs {:?}", servers, w));
                return;
            }
            match i.rdnss.as_ref().and_then(|r| r.lifetime.val()) {
                Some(d) => {
                    if !check_field(out, "rdnss-lifetime", *lifetime as u64, d.secs, u32::MAX as u64, None) {
                        return;
                    }
                }
                None => {
                    // manual: interface lifetime; RFC 8106 / code: 3 x MaxRtrAdvInterval
                    if *lifetime as u64 != 1800 && *lifetime as u64 != router_lifetime {
                        out.fail("C17:value:rdnss-lifetime-default", format!("{}", lifetime));
                        return;
                    }
                }
            }
        }
        _ => {
            out.fail("C17:option:rdnss", format!("expected {:?}, got {:?}", want_servers, got_r));
            return;
        }
    }
    // DNSSL
    let configured_domains = effective_search_list(c);
    // names the wire format cannot carry are "rejected": the list without them is expected
    let want_domains: Option<Vec<String>> =
        configured_domains.as_ref().map(|w| w.iter().filter(|d| domain_representable(d)).cloned().collect());
    let list_too_long = want_domains.as_ref().map(|w| 8 + dnssl_body_len(w) > 255 * 8).unwrap_or(false);
    let got_d: Vec<&NdOpt> = ra.options.iter().filter(|o| matches!(o, NdOpt::Dnssl { .. })).collect();
    match (&want_domains, got_d.as_slice()) {
        (None, []) => {}
        (Some(w), []) if w.is_empty() => {}
        // a list the one-octet option length cannot carry may be refused as a whole ...
        (Some(_), []) if list_too_long => {}
        (Some(w), [NdOpt::Dnssl { reserved, lifetime, domains }]) => {
            if *reserved != 0 {
                out.fail("C17:reserved:dnssl", "");
                return;
            }
            let wl: Vec<Vec<Vec<u8>>> = w.iter().map(|d| d.split('.').map(|l| l.as_bytes().to_vec()).collect()).collect();
            if list_too_long {
                // ... or clamped to names of the configured list, in order
                let mut it = wl.iter();
                if !domains.iter().all(|d| it.any(|x| x == d)) || domains.is_empty() {
                    out.fail(
                        "C17:value:dnssl-overlong-list",
                        format!("{} names configured ({} octets); the option carries {:?}", w.len(), dnssl_body_len(w), domains.iter().map(|d| d.len()).collect::<Vec<_>>()),
                    );
                    return;
                }
            } else if *domains != wl {
                out.fail(
                    "C17:value:dnssl-domains",
                    format!("{:?} vs {:?}", domains.iter().map(|d| d.iter().map(|l| String::from_utf8_lossy(l).to_string()).collect::<Vec<_>>().join(".")).collect::<Vec<_>>(), w),
                );
                return;
            }
            match i.dnssl.as_ref().and_then(|r| r.lifetime.val()) {
                Some(d) => {
                    if !check_field(out, "dnssl-lifetime", *lifetime as u64, d.secs, u32::MAX as u64, None) {
                        return;
                    }
                }
                None => {
                    if *lifetime as u64 != 1800 && *lifetime as u64 != router_lifetime {
                        out.fail("C17:value:dnssl-lifetime-default", format!("{}", lifetime));
                        return;
                    }
                }
            }
        }
        _ => {
            out.fail("C17:option:dnssl", format!("expected {:?}, got {:?}", want_domains, got_d));
            return;
        }
    }
    // captive portal
    let want_url: Option<String> = match &i.captive {
        Tri::Val(u) => Some(u.clone()),
        Tri::Null => None,
        Tri::Absent => c.top_captive.clone(),
    };
    let got_u: Vec<&Vec<u8>> = ra.options.iter().filter_map(|o| if let NdOpt::CaptivePortal(u) = o { Some(u) } else { None }).collect();
    match (&want_url, got_u.as_slice()) {
        (None, []) => {}
        (Some(w), [g]) if g.as_slice() == w.as_bytes() => {}
        // a URL the option cannot carry (more than 2038 octets): rejected (no option) or clamped
        // to a prefix of it - anything but a wrapped length, which the decoder has refused by now
        (Some(w), []) if w.len() > 2038 => out.class("url-longer-than-the-option-can-carry"),
        (Some(w), [g]) if w.len() > 2038 && w.as_bytes().starts_with(g.as_slice()) => out.class("url-longer-than-the-option-can-carry"),
        _ => {
            out.fail("C17:option:captive-portal", format!("expected {:?}, got {:?}", want_url, got_u.iter().map(|u| String::from_utf8_lossy(u).to_string()).collect::<Vec<_>>()));
            return;
        }
    }
    // PREF64
    let got_64: Vec<&NdOpt> = ra.options.iter().filter(|o| matches!(o, NdOpt::Pref64 { .. })).collect();
    match (&i.pref64, got_64.as_slice()) {
        (None, []) => {}
        (Some(w), [NdOpt::Pref64 { scaled_lifetime, plc, prefix96 }]) => {
            match plc_to_len(*plc) {
                Some(l) if l == w.len => {}
                other => {
                    out.fail(
                        "C17:value:pref64-plc",
                        format!("configured /{}: prefix length code {} on the wire = {:?} per RFC 8781", w.len, plc, other),
                    );
                    return;
                }
            }
            let secs = w.lifetime.as_ref().map(|d| d.secs).unwrap_or(600);
            let floor = secs / 8;
            let ceil = secs.div_ceil(8);
            let ok: Vec<u64> = if ceil <= 8191 { vec![floor, ceil] } else if floor <= 8191 { vec![floor, 8191] } else { vec![8191] };
            if !ok.contains(&(*scaled_lifetime as u64)) {
                let wrapped = floor > 8191 && *scaled_lifetime as u64 == floor % 8192;
                out.fail(
                    if wrapped { "C17:wrapped:pref64-lifetime" } else { "C17:value:pref64-lifetime" },
                    format!("configured {} s: scaled lifetime {} on the wire", secs, scaled_lifetime),
                );
                return;
            }
            let want = mask6(&w.addr, w.len).octets();
            if prefix96[..] != want[..12] {
                out.fail("C17:value:pref64-prefix", format!("{:02x?} vs {:02x?}", prefix96, &want[..12]));
                return;
            }
        }
        _ => {
            out.fail("C17:option:pref64", format!("expected {:?}, got {:?}", i.pref64, got_64));
            return;
        }
    }
    if ra.options.iter().any(|o| matches!(o, NdOpt::Unknown(..))) {
        out.fail("C17:option:unknown", "an option of a kind that was not configured");
    }
}

pub fn run_c17_func(ctx: &Ctx) {
    run_prop(ctx, &C17Build, ra_case_strategy, ctx.tier.pick(30_000, 2_000_000), workers());
}

pub fn replay(id: &str, sub: &str, case: &serde_json::Value) -> Option<Result<Outcome, String>> {
    match (id, sub) {
        ("C17", "build") => Some(replay_prop(&C17Build, case)),
        _ => None,
    }
}
