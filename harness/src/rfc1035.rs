//! DNS message decoder/encoder written from RFC 1035, 2671/6891 (EDNS0), 4035 (AD/CD), 3596,
//! 2915 (NAPTR), 1183 (RP, AFSDB, RT).  Shares no code with erbium.

use serde::{Deserialize, Serialize};
use std::collections::HashMap;

pub type Name = Vec<Vec<u8>>;

pub const T_A: u16 = 1;
pub const T_NS: u16 = 2;
pub const T_CNAME: u16 = 5;
pub const T_SOA: u16 = 6;
pub const T_PTR: u16 = 12;
pub const T_MX: u16 = 15;
pub const T_TXT: u16 = 16;
pub const T_RP: u16 = 17;
pub const T_AFSDB: u16 = 18;
pub const T_RT: u16 = 21;
pub const T_AAAA: u16 = 28;
pub const T_NAPTR: u16 = 35;
pub const T_OPT: u16 = 41;
pub const T_RRSIG: u16 = 46;
pub const T_ANY: u16 = 255;

#[derive(Clone, Debug, PartialEq, Eq, Serialize, Deserialize, Default)]
pub struct Header {
    pub id: u16,
    pub qr: bool,
    pub opcode: u8,
    pub aa: bool,
    pub tc: bool,
    pub rd: bool,
    pub ra: bool,
    pub z: bool,
    pub ad: bool,
    pub cd: bool,
    /// the 4-bit header rcode
    pub rcode: u8,
}

#[derive(Clone, Debug, PartialEq, Eq, Serialize, Deserialize)]
pub struct Question {
    pub name: Name,
    pub qtype: u16,
    pub qclass: u16,
}

#[derive(Clone, Debug, PartialEq, Eq, Serialize, Deserialize)]
pub enum RData {
    /// NS, CNAME, PTR
    Name(Name),
    /// MX, RT, AFSDB: 16-bit value + name
    PrefName(u16, Name),
    Soa {
        mname: Name,
        rname: Name,
        serial: u32,
        refresh: u32,
        retry: u32,
        expire: u32,
        minimum: u32,
    },
    Rp(Name, Name),
    Naptr {
        order: u16,
        preference: u16,
        flags: Vec<u8>,
        services: Vec<u8>,
        regexp: Vec<u8>,
        replacement: Name,
    },
    Raw(Vec<u8>),
}

#[derive(Clone, Debug, PartialEq, Eq, Serialize, Deserialize)]
pub struct Rr {
    pub name: Name,
    pub rtype: u16,
    pub class: u16,
    pub ttl: u32,
    pub rdata: RData,
}

#[derive(Clone, Debug, PartialEq, Eq, Serialize, Deserialize, Default)]
pub struct Message {
    pub header: Header,
    pub questions: Vec<Question>,
    pub answer: Vec<Rr>,
    pub authority: Vec<Rr>,
    pub additional: Vec<Rr>,
}

#[derive(Clone, Debug, PartialEq, Eq, Serialize, Deserialize)]
pub struct Edns {
    pub udp_size: u16,
    pub ext_rcode: u8,
    pub version: u8,
    pub do_bit: bool,
    pub options: Vec<(u16, Vec<u8>)>,
}

/// Everything the decoder learned that is not part of the message value.
#[derive(Clone, Debug, Default)]
pub struct Audit {
    /// (position of the pointer, its target)
    pub pointers: Vec<(usize, usize)>,
    /// pointers whose first octet lies inside an RDATA field
    pub rdata_pointers: usize,
    pub consumed: usize,
    /// end offset of the question section and of every record, in order
    pub record_ends: Vec<usize>,
    /// the longest chain of pointers followed to read one name
    pub max_hops: usize,
}

pub fn name_from_str(s: &str) -> Name {
    s.split('.')
        .filter(|l| !l.is_empty())
        .map(|l| l.as_bytes().to_vec())
        .collect()
}

pub fn name_to_string(n: &Name) -> String {
    if n.is_empty() {
        return ".".into();
    }
    n.iter()
        .map(|l| {
            l.iter()
                .map(|&b| {
                    if b.is_ascii_graphic() && b != b'.' && b != b'\\' {
                        (b as char).to_string()
                    } else {
                        format!("\\{:03}", b)
                    }
                })
                .collect::<String>()
        })
        .collect::<Vec<_>>()
        .join(".")
}

pub fn name_eq_nocase(a: &Name, b: &Name) -> bool {
    a.len() == b.len()
        && a.iter()
            .zip(b.iter())
            .all(|(x, y)| x.eq_ignore_ascii_case(y))
}

fn is_name_type(t: u16) -> bool {
    matches!(t, T_NS | T_CNAME | T_PTR)
}

fn is_prefname_type(t: u16) -> bool {
    matches!(t, T_MX | T_RT | T_AFSDB)
}

struct Dec<'a> {
    b: &'a [u8],
    pos: usize,
    audit: Audit,
    in_rdata: bool,
}

impl<'a> Dec<'a> {
    fn u8(&mut self) -> Result<u8, String> {
        let v = *self
            .b
            .get(self.pos)
            .ok_or_else(|| format!("truncated at offset {}", self.pos))?;
        self.pos += 1;
        Ok(v)
    }
    fn u16(&mut self) -> Result<u16, String> {
        Ok(((self.u8()? as u16) << 8) | self.u8()? as u16)
    }
    fn u32(&mut self) -> Result<u32, String> {
        Ok(((self.u16()? as u32) << 16) | self.u16()? as u32)
    }
    fn bytes(&mut self, n: usize) -> Result<Vec<u8>, String> {
        if self.pos + n > self.b.len() {
            return Err(format!(
                "truncated: {} octets wanted at offset {}, {} available",
                n,
                self.pos,
                self.b.len() - self.pos.min(self.b.len())
            ));
        }
        let v = self.b[self.pos..self.pos + n].to_vec();
        self.pos += n;
        Ok(v)
    }
    fn charstr(&mut self) -> Result<Vec<u8>, String> {
        let n = self.u8()? as usize;
        self.bytes(n)
    }
    /// RFC 1035 4.1.4 name, following pointers; position afterwards is just past the name as it
    /// appears in place.
    fn name(&mut self) -> Result<Name, String> {
        let mut labels: Name = vec![];
        let mut p = self.pos;
        let mut end: Option<usize> = None;
        let mut jumps = 0;
        let mut total = 0usize;
        loop {
            let l = *self
                .b
                .get(p)
                .ok_or_else(|| format!("name runs past the end at offset {}", p))?;
            if l == 0 {
                p += 1;
                break;
            } else if l & 0xc0 == 0xc0 {
                let l2 = *self
                    .b
                    .get(p + 1)
                    .ok_or_else(|| format!("pointer truncated at offset {}", p))?;
                let target = (((l & 0x3f) as usize) << 8) | l2 as usize;
                self.audit.pointers.push((p, target));
                if self.in_rdata && end.is_none() {
                    self.audit.rdata_pointers += 1;
                }
                if end.is_none() {
                    end = Some(p + 2);
                }
                jumps += 1;
                self.audit.max_hops = self.audit.max_hops.max(jumps);
                if jumps > 200 {
                    return Err("compression loop".into());
                }
                if target >= self.b.len() {
                    return Err(format!("pointer at {} targets {} beyond the message", p, target));
                }
                p = target;
            } else if l & 0xc0 != 0 {
                return Err(format!("label type {:#x} at offset {}", l, p));
            } else {
                let l = l as usize;
                if p + 1 + l > self.b.len() {
                    return Err(format!("label runs past the end at offset {}", p));
                }
                labels.push(self.b[p + 1..p + 1 + l].to_vec());
                total += l + 1;
                if total > 100_000 {
                    return Err("name too long".into());
                }
                p += 1 + l;
            }
        }
        self.pos = end.unwrap_or(p);
        Ok(labels)
    }

    fn rr(&mut self) -> Result<Rr, String> {
        let name = self.name()?;
        let rtype = self.u16()?;
        let class = self.u16()?;
        let ttl = self.u32()?;
        let rdlen = self.u16()? as usize;
        let start = self.pos;
        if start + rdlen > self.b.len() {
            return Err(format!(
                "rdata of {} octets at offset {} runs past the end",
                rdlen, start
            ));
        }
        self.in_rdata = true;
        let rdata = if is_name_type(rtype) {
            RData::Name(self.name()?)
        } else if is_prefname_type(rtype) {
            RData::PrefName(self.u16()?, self.name()?)
        } else if rtype == T_SOA {
            RData::Soa {
                mname: self.name()?,
                rname: self.name()?,
                serial: self.u32()?,
                refresh: self.u32()?,
                retry: self.u32()?,
                expire: self.u32()?,
                minimum: self.u32()?,
            }
        } else if rtype == T_RP {
            RData::Rp(self.name()?, self.name()?)
        } else if rtype == T_NAPTR {
            RData::Naptr {
                order: self.u16()?,
                preference: self.u16()?,
                flags: self.charstr()?,
                services: self.charstr()?,
                regexp: self.charstr()?,
                replacement: self.name()?,
            }
        } else {
            RData::Raw(self.bytes(rdlen)?)
        };
        self.in_rdata = false;
        if self.pos != start + rdlen {
            return Err(format!(
                "type {} rdata: RDLENGTH says {} octets, content has {}",
                rtype,
                rdlen,
                self.pos - start
            ));
        }
        self.audit.record_ends.push(self.pos);
        Ok(Rr {
            name,
            rtype,
            class,
            ttl,
            rdata,
        })
    }
}

/// Strict decode: header counts must match the content exactly.
pub fn decode(b: &[u8]) -> Result<(Message, Audit), String> {
    let mut d = Dec {
        b,
        pos: 0,
        audit: Audit::default(),
        in_rdata: false,
    };
    let id = d.u16()?;
    let f1 = d.u8()?;
    let f2 = d.u8()?;
    let qd = d.u16()?;
    let an = d.u16()?;
    let ns = d.u16()?;
    let ar = d.u16()?;
    let header = Header {
        id,
        qr: f1 & 0x80 != 0,
        opcode: (f1 >> 3) & 0x0f,
        aa: f1 & 0x04 != 0,
        tc: f1 & 0x02 != 0,
        rd: f1 & 0x01 != 0,
        ra: f2 & 0x80 != 0,
        z: f2 & 0x40 != 0,
        ad: f2 & 0x20 != 0,
        cd: f2 & 0x10 != 0,
        rcode: f2 & 0x0f,
    };
    let mut m = Message {
        header,
        ..Default::default()
    };
    for _ in 0..qd {
        let name = d.name()?;
        let qtype = d.u16()?;
        let qclass = d.u16()?;
        m.questions.push(Question {
            name,
            qtype,
            qclass,
        });
    }
    d.audit.record_ends.push(d.pos);
    for _ in 0..an {
        let r = d.rr().map_err(|e| format!("answer section: {}", e))?;
        m.answer.push(r);
    }
    for _ in 0..ns {
        let r = d.rr().map_err(|e| format!("authority section: {}", e))?;
        m.authority.push(r);
    }
    for _ in 0..ar {
        let r = d.rr().map_err(|e| format!("additional section: {}", e))?;
        m.additional.push(r);
    }
    d.audit.consumed = d.pos;
    Ok((m, d.audit))
}

impl Message {
    /// The OPT pseudo-record (first one in the additional section), decoded per RFC 6891.
    pub fn edns(&self) -> Option<Result<Edns, String>> {
        let o = self.additional.iter().find(|r| r.rtype == T_OPT)?;
        let raw = match &o.rdata {
            RData::Raw(r) => r,
            _ => return Some(Err("OPT with non-raw rdata".into())),
        };
        let mut options = vec![];
        let mut i = 0;
        while i < raw.len() {
            if i + 4 > raw.len() {
                return Some(Err("EDNS option header truncated".into()));
            }
            let code = ((raw[i] as u16) << 8) | raw[i + 1] as u16;
            let l = ((raw[i + 2] as usize) << 8) | raw[i + 3] as usize;
            i += 4;
            if i + l > raw.len() {
                return Some(Err("EDNS option data truncated".into()));
            }
            options.push((code, raw[i..i + l].to_vec()));
            i += l;
        }
        Some(Ok(Edns {
            udp_size: o.class,
            ext_rcode: (o.ttl >> 24) as u8,
            version: (o.ttl >> 16) as u8,
            do_bit: o.ttl & 0x8000 != 0,
            options,
        }))
    }

    pub fn opt_count(&self) -> usize {
        self.additional.iter().filter(|r| r.rtype == T_OPT).count()
    }

    pub fn full_rcode(&self) -> u16 {
        let ext = match self.edns() {
            Some(Ok(e)) => e.ext_rcode as u16,
            _ => 0,
        };
        (ext << 4) | self.header.rcode as u16
    }

    pub fn additional_no_opt(&self) -> Vec<Rr> {
        self.additional
            .iter()
            .filter(|r| r.rtype != T_OPT)
            .cloned()
            .collect()
    }

    pub fn records(&self) -> impl Iterator<Item = &Rr> {
        self.answer
            .iter()
            .chain(self.authority.iter())
            .chain(self.additional.iter())
    }
}

pub fn opt_rr(e: &Edns) -> Rr {
    let mut raw = vec![];
    for (c, d) in &e.options {
        raw.extend_from_slice(&c.to_be_bytes());
        raw.extend_from_slice(&(d.len() as u16).to_be_bytes());
        raw.extend_from_slice(d);
    }
    Rr {
        name: vec![],
        rtype: T_OPT,
        class: e.udp_size,
        ttl: ((e.ext_rcode as u32) << 24) | ((e.version as u32) << 16) | if e.do_bit { 0x8000 } else { 0 },
        rdata: RData::Raw(raw),
    }
}

// ---------------------------------------------------------------------------------------------
// encoder

#[derive(Clone, Copy, Debug, PartialEq, Eq, Serialize, Deserialize)]
pub enum Compress {
    Off,
    /// owner names only
    Owners,
    /// owner names and the names inside RDATA of the RFC 1035 types
    All,
}

struct Enc {
    out: Vec<u8>,
    table: HashMap<Vec<Vec<u8>>, usize>,
}

impl Enc {
    fn name(&mut self, n: &Name, compress: bool) {
        for i in 0..n.len() {
            let suffix: Vec<Vec<u8>> = n[i..].to_vec();
            if compress {
                if let Some(&off) = self.table.get(&suffix) {
                    self.out.push(0xc0 | (off >> 8) as u8);
                    self.out.push(off as u8);
                    return;
                }
            }
            let here = self.out.len();
            if here < 0x4000 {
                self.table.entry(suffix).or_insert(here);
            }
            let l = &n[i];
            self.out.push(l.len().min(63) as u8);
            self.out.extend_from_slice(&l[..l.len().min(63)]);
        }
        self.out.push(0);
    }
    fn rr(&mut self, r: &Rr, c: Compress) {
        self.name(&r.name, c != Compress::Off);
        self.out.extend_from_slice(&r.rtype.to_be_bytes());
        self.out.extend_from_slice(&r.class.to_be_bytes());
        self.out.extend_from_slice(&r.ttl.to_be_bytes());
        let lenpos = self.out.len();
        self.out.extend_from_slice(&[0, 0]);
        let rc = c == Compress::All;
        match &r.rdata {
            RData::Name(n) => self.name(n, rc),
            RData::PrefName(p, n) => {
                self.out.extend_from_slice(&p.to_be_bytes());
                self.name(n, rc);
            }
            RData::Soa {
                mname,
                rname,
                serial,
                refresh,
                retry,
                expire,
                minimum,
            } => {
                self.name(mname, rc);
                self.name(rname, rc);
                for v in [serial, refresh, retry, expire, minimum] {
                    self.out.extend_from_slice(&v.to_be_bytes());
                }
            }
            RData::Rp(a, b) => {
                // RFC 3597: no compression for types outside RFC 1035
                self.name(a, false);
                self.name(b, false);
            }
            RData::Naptr {
                order,
                preference,
                flags,
                services,
                regexp,
                replacement,
            } => {
                self.out.extend_from_slice(&order.to_be_bytes());
                self.out.extend_from_slice(&preference.to_be_bytes());
                for s in [flags, services, regexp] {
                    self.out.push(s.len().min(255) as u8);
                    self.out.extend_from_slice(&s[..s.len().min(255)]);
                }
                self.name(replacement, false);
            }
            RData::Raw(b) => self.out.extend_from_slice(b),
        }
        let l = self.out.len() - lenpos - 2;
        self.out[lenpos] = (l >> 8) as u8;
        self.out[lenpos + 1] = l as u8;
    }
}

pub fn encode(m: &Message, c: Compress) -> Vec<u8> {
    let mut e = Enc {
        out: Vec::with_capacity(512),
        table: HashMap::new(),
    };
    let h = &m.header;
    e.out.extend_from_slice(&h.id.to_be_bytes());
    e.out.push(
        (if h.qr { 0x80 } else { 0 })
            | ((h.opcode & 0x0f) << 3)
            | (if h.aa { 0x04 } else { 0 })
            | (if h.tc { 0x02 } else { 0 })
            | (if h.rd { 0x01 } else { 0 }),
    );
    e.out.push(
        (if h.ra { 0x80 } else { 0 })
            | (if h.z { 0x40 } else { 0 })
            | (if h.ad { 0x20 } else { 0 })
            | (if h.cd { 0x10 } else { 0 })
            | (h.rcode & 0x0f),
    );
    e.out
        .extend_from_slice(&(m.questions.len() as u16).to_be_bytes());
    e.out.extend_from_slice(&(m.answer.len() as u16).to_be_bytes());
    e.out
        .extend_from_slice(&(m.authority.len() as u16).to_be_bytes());
    e.out
        .extend_from_slice(&(m.additional.len() as u16).to_be_bytes());
    for q in &m.questions {
        e.name(&q.name, c != Compress::Off);
        e.out.extend_from_slice(&q.qtype.to_be_bytes());
        e.out.extend_from_slice(&q.qclass.to_be_bytes());
    }
    for r in &m.answer {
        e.rr(r, c);
    }
    for r in &m.authority {
        e.rr(r, c);
    }
    for r in &m.additional {
        e.rr(r, c);
    }
    e.out
}

/// A plain query.
pub fn query(id: u16, name: &Name, qtype: u16, qclass: u16, rd: bool, edns: Option<Edns>) -> Message {
    Message {
        header: Header {
            id,
            rd,
            ..Default::default()
        },
        questions: vec![Question {
            name: name.clone(),
            qtype,
            qclass,
        }],
        additional: edns.iter().map(opt_rr).collect(),
        ..Default::default()
    }
}
