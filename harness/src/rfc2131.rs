//! BOOTP/DHCP message codec written from RFC 2131 / 2132 / 3396.  Shares no code with erbium.

use serde::{Deserialize, Serialize};
use std::collections::BTreeMap;
use std::net::Ipv4Addr;

pub const MAGIC: [u8; 4] = [0x63, 0x82, 0x53, 0x63];

pub const OPT_PAD: u8 = 0;
pub const OPT_END: u8 = 255;
pub const OPT_NETMASK: u8 = 1;
pub const OPT_ROUTER: u8 = 3;
pub const OPT_DNS: u8 = 6;
pub const OPT_HOSTNAME: u8 = 12;
pub const OPT_BROADCAST: u8 = 28;
pub const OPT_MTU: u8 = 26;
pub const OPT_REQUESTED_IP: u8 = 50;
pub const OPT_LEASE_TIME: u8 = 51;
pub const OPT_MSG_TYPE: u8 = 53;
pub const OPT_SERVER_ID: u8 = 54;
pub const OPT_PARAM_LIST: u8 = 55;
pub const OPT_CLASS_ID: u8 = 60;
pub const OPT_CLIENT_ID: u8 = 61;
pub const OPT_USER_CLASS: u8 = 77;
pub const OPT_CAPTIVE_PORTAL: u8 = 114;
pub const OPT_DOMAIN_SEARCH: u8 = 119;

pub const DISCOVER: u8 = 1;
pub const OFFER: u8 = 2;
pub const REQUEST: u8 = 3;
pub const DECLINE: u8 = 4;
pub const ACK: u8 = 5;
pub const NAK: u8 = 6;
pub const RELEASE: u8 = 7;
pub const INFORM: u8 = 8;

/// A DHCP message as it appears on the wire.  Options are kept as the ordered list of TLVs
/// (`options`); `option_map()` gives the RFC 3396 view (values of a repeated code concatenated).
#[derive(Clone, Debug, PartialEq, Eq, Serialize, Deserialize)]
pub struct Msg {
    pub op: u8,
    pub htype: u8,
    pub hlen: u8,
    pub hops: u8,
    pub xid: u32,
    pub secs: u16,
    pub flags: u16,
    pub ciaddr: Ipv4Addr,
    pub yiaddr: Ipv4Addr,
    pub siaddr: Ipv4Addr,
    pub giaddr: Ipv4Addr,
    /// the full 16-octet field
    pub chaddr: Vec<u8>,
    /// the full 64-octet field
    pub sname: Vec<u8>,
    /// the full 128-octet field
    pub file: Vec<u8>,
    /// TLVs in wire order; a value longer than 255 octets is split by the encoder (RFC 3396)
    pub options: Vec<(u8, Vec<u8>)>,
}

impl Default for Msg {
    fn default() -> Self {
        Msg {
            op: 1,
            htype: 1,
            hlen: 6,
            hops: 0,
            xid: 0,
            secs: 0,
            flags: 0,
            ciaddr: Ipv4Addr::UNSPECIFIED,
            yiaddr: Ipv4Addr::UNSPECIFIED,
            siaddr: Ipv4Addr::UNSPECIFIED,
            giaddr: Ipv4Addr::UNSPECIFIED,
            chaddr: vec![0; 16],
            sname: vec![0; 64],
            file: vec![0; 128],
            options: vec![],
        }
    }
}

fn fixed(src: &[u8], n: usize) -> Vec<u8> {
    let mut v = src.to_vec();
    v.resize(n, 0);
    v.truncate(n);
    v
}

impl Msg {
    pub fn option_map(&self) -> BTreeMap<u8, Vec<u8>> {
        let mut m: BTreeMap<u8, Vec<u8>> = BTreeMap::new();
        for (k, v) in &self.options {
            m.entry(*k).or_default().extend_from_slice(v);
        }
        m
    }

    pub fn opt(&self, code: u8) -> Option<Vec<u8>> {
        self.option_map().remove(&code)
    }

    pub fn msg_type(&self) -> Option<u8> {
        match self.opt(OPT_MSG_TYPE) {
            Some(v) if v.len() == 1 => Some(v[0]),
            _ => None,
        }
    }

    pub fn hw(&self) -> &[u8] {
        let n = (self.hlen as usize).min(16).min(self.chaddr.len());
        &self.chaddr[..n]
    }

    pub fn set_hw(&mut self, hw: &[u8]) {
        self.hlen = hw.len().min(16) as u8;
        self.chaddr = fixed(hw, 16);
    }

    pub fn with_opt(mut self, code: u8, v: &[u8]) -> Msg {
        self.options.push((code, v.to_vec()));
        self
    }

    pub fn encode(&self) -> Vec<u8> {
        let mut b = Vec::with_capacity(300);
        b.push(self.op);
        b.push(self.htype);
        b.push(self.hlen);
        b.push(self.hops);
        b.extend_from_slice(&self.xid.to_be_bytes());
        b.extend_from_slice(&self.secs.to_be_bytes());
        b.extend_from_slice(&self.flags.to_be_bytes());
        b.extend_from_slice(&self.ciaddr.octets());
        b.extend_from_slice(&self.yiaddr.octets());
        b.extend_from_slice(&self.siaddr.octets());
        b.extend_from_slice(&self.giaddr.octets());
        b.extend_from_slice(&fixed(&self.chaddr, 16));
        b.extend_from_slice(&fixed(&self.sname, 64));
        b.extend_from_slice(&fixed(&self.file, 128));
        b.extend_from_slice(&MAGIC);
        for (k, v) in &self.options {
            if v.is_empty() {
                b.push(*k);
                b.push(0);
            } else {
                for chunk in v.chunks(255) {
                    b.push(*k);
                    b.push(chunk.len() as u8);
                    b.extend_from_slice(chunk);
                }
            }
        }
        b.push(OPT_END);
        b
    }

    pub fn decode(b: &[u8]) -> Result<Msg, String> {
        if b.len() < 240 {
            return Err(format!("short message ({} octets)", b.len()));
        }
        if b[236..240] != MAGIC {
            return Err("bad magic cookie".into());
        }
        let ip = |o: usize| Ipv4Addr::new(b[o], b[o + 1], b[o + 2], b[o + 3]);
        let mut m = Msg {
            op: b[0],
            htype: b[1],
            hlen: b[2],
            hops: b[3],
            xid: u32::from_be_bytes([b[4], b[5], b[6], b[7]]),
            secs: u16::from_be_bytes([b[8], b[9]]),
            flags: u16::from_be_bytes([b[10], b[11]]),
            ciaddr: ip(12),
            yiaddr: ip(16),
            siaddr: ip(20),
            giaddr: ip(24),
            chaddr: b[28..44].to_vec(),
            sname: b[44..108].to_vec(),
            file: b[108..236].to_vec(),
            options: vec![],
        };
        let mut i = 240;
        let mut ended = false;
        while i < b.len() {
            let code = b[i];
            i += 1;
            if code == OPT_PAD {
                continue;
            }
            if code == OPT_END {
                ended = true;
                break;
            }
            if i >= b.len() {
                return Err(format!("option {} without length octet", code));
            }
            let l = b[i] as usize;
            i += 1;
            if i + l > b.len() {
                return Err(format!(
                    "option {} length {} runs past the end of the message",
                    code, l
                ));
            }
            m.options.push((code, b[i..i + l].to_vec()));
            i += l;
        }
        if !ended {
            return Err("no end option".into());
        }
        Ok(m)
    }
}
