//! Router Advertisement decoder written from RFC 4861 (header, options 1, 3, 5), RFC 8106
//! (RDNSS 25, DNSSL 31), RFC 8910 (captive portal 37) and RFC 8781 (PREF64 38).

use std::net::Ipv6Addr;

#[derive(Clone, Debug, PartialEq, Eq)]
pub enum NdOpt {
    SourceLl(Vec<u8>),
    Mtu {
        reserved: u16,
        mtu: u32,
    },
    Prefix {
        len: u8,
        onlink: bool,
        autonomous: bool,
        flags_rest: u8,
        valid: u32,
        preferred: u32,
        reserved2: u32,
        prefix: Ipv6Addr,
    },
    Rdnss {
        reserved: u16,
        lifetime: u32,
        servers: Vec<Ipv6Addr>,
    },
    Dnssl {
        reserved: u16,
        lifetime: u32,
        domains: Vec<Vec<Vec<u8>>>,
    },
    CaptivePortal(Vec<u8>),
    Pref64 {
        scaled_lifetime: u16,
        plc: u8,
        prefix96: [u8; 12],
    },
    Unknown(u8, Vec<u8>),
}

#[derive(Clone, Debug, PartialEq, Eq)]
pub struct Ra {
    pub hop_limit: u8,
    pub managed: bool,
    pub other: bool,
    pub flags_rest: u8,
    pub lifetime: u16,
    pub reachable_ms: u32,
    pub retrans_ms: u32,
    pub options: Vec<NdOpt>,
}

/// RFC 8781 section 4: prefix length code table.
pub fn plc_to_len(plc: u8) -> Option<u8> {
    match plc {
        0 => Some(96),
        1 => Some(64),
        2 => Some(56),
        3 => Some(48),
        4 => Some(40),
        5 => Some(32),
        _ => None,
    }
}

fn be16(b: &[u8]) -> u16 {
    ((b[0] as u16) << 8) | b[1] as u16
}
fn be32(b: &[u8]) -> u32 {
    ((b[0] as u32) << 24) | ((b[1] as u32) << 16) | ((b[2] as u32) << 8) | b[3] as u32
}
fn ip6(b: &[u8]) -> Ipv6Addr {
    let mut o = [0u8; 16];
    o.copy_from_slice(&b[..16]);
    Ipv6Addr::from(o)
}

pub fn decode_ra(b: &[u8]) -> Result<Ra, String> {
    if b.len() < 16 {
        return Err(format!("RA of {} octets", b.len()));
    }
    if b[0] != 134 || b[1] != 0 {
        return Err(format!("type {} code {}", b[0], b[1]));
    }
    if b.len() % 8 != 0 {
        return Err(format!("message length {} is not a multiple of 8", b.len()));
    }
    let mut ra = Ra {
        hop_limit: b[4],
        managed: b[5] & 0x80 != 0,
        other: b[5] & 0x40 != 0,
        flags_rest: b[5] & 0x3f,
        lifetime: be16(&b[6..8]),
        reachable_ms: be32(&b[8..12]),
        retrans_ms: be32(&b[12..16]),
        options: vec![],
    };
    let mut i = 16;
    while i < b.len() {
        if i + 2 > b.len() {
            return Err("option header truncated".into());
        }
        let t = b[i];
        let l = b[i + 1] as usize * 8;
        if l == 0 {
            return Err(format!("option {} with length 0", t));
        }
        if i + l > b.len() {
            return Err(format!("option {} of {} octets runs past the end", t, l));
        }
        let body = &b[i + 2..i + l];
        let opt = match t {
            1 => NdOpt::SourceLl(body.to_vec()),
            5 => {
                if l != 8 {
                    return Err(format!("MTU option length {}", l));
                }
                NdOpt::Mtu {
                    reserved: be16(&body[0..2]),
                    mtu: be32(&body[2..6]),
                }
            }
            3 => {
                if l != 32 {
                    return Err(format!("prefix information option length {}", l));
                }
                NdOpt::Prefix {
                    len: body[0],
                    onlink: body[1] & 0x80 != 0,
                    autonomous: body[1] & 0x40 != 0,
                    flags_rest: body[1] & 0x3f,
                    valid: be32(&body[2..6]),
                    preferred: be32(&body[6..10]),
                    reserved2: be32(&body[10..14]),
                    prefix: ip6(&body[14..30]),
                }
            }
            25 => {
                if l < 8 || (l - 8) % 16 != 0 {
                    return Err(format!("RDNSS option length {} is not 8 + 16n", l));
                }
                NdOpt::Rdnss {
                    reserved: be16(&body[0..2]),
                    lifetime: be32(&body[2..6]),
                    servers: body[6..].chunks(16).map(ip6).collect(),
                }
            }
            31 => {
                if l < 8 {
                    return Err("DNSSL option too short".into());
                }
                let names = &body[6..];
                let mut domains = vec![];
                let mut j = 0;
                while j < names.len() {
                    if names[j] == 0 {
                        // padding: everything that follows must be zero
                        if names[j..].iter().any(|x| *x != 0) {
                            return Err("DNSSL: non-zero octets after the padding started".into());
                        }
                        break;
                    }
                    let mut labels = vec![];
                    loop {
                        if j >= names.len() {
                            return Err("DNSSL: domain name not terminated".into());
                        }
                        let ll = names[j] as usize;
                        j += 1;
                        if ll == 0 {
                            break;
                        }
                        if ll > 63 {
                            return Err(format!("DNSSL: label length {}", ll));
                        }
                        if j + ll > names.len() {
                            return Err("DNSSL: label runs past the option".into());
                        }
                        labels.push(names[j..j + ll].to_vec());
                        j += ll;
                    }
                    domains.push(labels);
                }
                NdOpt::Dnssl {
                    reserved: be16(&body[0..2]),
                    lifetime: be32(&body[2..6]),
                    domains,
                }
            }
            37 => {
                let end = body.iter().rposition(|x| *x != 0).map(|p| p + 1).unwrap_or(0);
                NdOpt::CaptivePortal(body[..end].to_vec())
            }
            38 => {
                if l != 16 {
                    return Err(format!("PREF64 option length {}", l));
                }
                let w = be16(&body[0..2]);
                let mut p = [0u8; 12];
                p.copy_from_slice(&body[2..14]);
                NdOpt::Pref64 {
                    scaled_lifetime: w >> 3,
                    plc: (w & 7) as u8,
                    prefix96: p,
                }
            }
            other => NdOpt::Unknown(other, body.to_vec()),
        };
        ra.options.push(opt);
        i += l;
    }
    Ok(ra)
}

/// ICMPv6 checksum over the IPv6 pseudo header (RFC 4443 2.3), for the wire tier.
pub fn icmp6_checksum(src: &Ipv6Addr, dst: &Ipv6Addr, msg: &[u8]) -> u16 {
    let mut ph = vec![];
    ph.extend_from_slice(&src.octets());
    ph.extend_from_slice(&dst.octets());
    ph.extend_from_slice(&(msg.len() as u32).to_be_bytes());
    ph.extend_from_slice(&[0, 0, 0, 58]);
    let s = crate::ethip::ones_sum(crate::ethip::ones_sum(0, &ph), msg);
    !(s as u16)
}
