//! WIRE-DNS rig: scripted upstream servers, the real `erbium-dns` binary, and clients, all on
//! loopback inside a private network namespace.

use crate::rfc1035 as dns;
use std::collections::HashMap;
use std::io::{Read, Write};
use std::net::{IpAddr, SocketAddr, TcpListener, TcpStream, UdpSocket};
use std::sync::atomic::{AtomicBool, AtomicU64, Ordering};
use std::sync::{Arc, Mutex};
use std::time::{Duration, Instant};

pub const REPO_BIN_DIR_DEFAULT: &str = "/verif/harness/target/repo/debug";
/// Directory holding the erbium binaries built from /repo's working tree.
/// `VCHECK_BIN_DIR` overrides it (used for long background campaigns that
/// must not see a rebuild triggered by another check).
pub fn repo_bin_dir() -> String {
    std::env::var("VCHECK_BIN_DIR").unwrap_or_else(|_| REPO_BIN_DIR_DEFAULT.to_string())
}

pub type QKey = (Vec<Vec<u8>>, u16, u16);

pub fn qkey(q: &dns::Question) -> QKey {
    (q.name.clone(), q.qtype, q.qclass)
}

#[derive(Clone, Debug)]
pub enum Reply {
    /// A record derived from the question (see `answer_for`)
    Default,
    /// header bits / rcode / sections from this message; id and question are the query's
    Model(dns::Message, dns::Compress),
    /// raw bytes; the first two octets are replaced by the query id
    Raw(Vec<u8>),
}

#[derive(Clone, Debug)]
pub struct Script {
    pub reply: Reply,
    pub delay_ms: u64,
    /// bit i set: the i-th UDP transmission of this question is not answered
    pub drop_mask: u32,
    /// drop every UDP transmission
    pub drop_all: bool,
    /// additional copies of each UDP reply
    pub dup: u8,
    /// the first UDP reply carries a wrong id
    pub wrong_id_first: bool,
    /// UDP replies are empty with TC set (forces the TCP retry)
    pub tc_udp: bool,
    /// never answer over TCP
    pub tcp_silent: bool,
    /// close the TCP connection instead of answering
    pub tcp_close: bool,
    /// TCP replies are written in two pieces: the first `cut` octets (of length prefix +
    /// message), then after `gap_ms` the rest (what segmentation does to any reply larger than
    /// the path MTU)
    pub tcp_split: Option<(usize, u64)>,
    /// after the TCP reply: the first `k` octets of a duplicate of it, then the connection is
    /// closed (a sender that dies in mid-frame, with nobody waiting for that frame)
    pub tcp_partial_dup_then_close: Option<usize>,
    /// over UDP a reply larger than this is cut to whole records from the end and sent with TC
    /// set, as a real server does for the size the forwarder advertises
    pub udp_truncate_to: Option<usize>,
    /// the question section of the reply is not an octet-for-octet copy of the query's: 1 = the
    /// name in lower case (servers that do not preserve 0x20 case), 2 = lower case and the
    /// class field as 1 whatever was asked
    pub question_rewrite: u8,
}

impl Default for Script {
    fn default() -> Self {
        Script {
            reply: Reply::Default,
            delay_ms: 0,
            drop_mask: 0,
            drop_all: false,
            dup: 0,
            wrong_id_first: false,
            tc_udp: false,
            tcp_silent: false,
            tcp_close: false,
            question_rewrite: 0,
            tcp_split: None,
            tcp_partial_dup_then_close: None,
            udp_truncate_to: None,
        }
    }
}

#[derive(Clone, Debug)]
pub struct Seen {
    pub at: Instant,
    pub tcp: bool,
    pub key: QKey,
    pub id: u16,
    pub rd: bool,
    pub raw: Vec<u8>,
    pub from: SocketAddr,
    pub answered: bool,
}

#[derive(Default)]
pub struct UpState {
    pub scripts: Mutex<HashMap<QKey, Script>>,
    pub log: Mutex<Vec<Seen>>,
    udp_count: Mutex<HashMap<QKey, u32>>,
    stop: AtomicBool,
    /// close a TCP connection on which nothing arrived for this many ms (0: after 150 s)
    pub tcp_idle_close_ms: AtomicU64,
}

impl UpState {
    pub fn seen_for(&self, k: &QKey) -> Vec<Seen> {
        self.log.lock().unwrap().iter().filter(|s| &s.key == k).cloned().collect()
    }
    pub fn count_for(&self, k: &QKey) -> usize {
        self.log.lock().unwrap().iter().filter(|s| &s.key == k).count()
    }
    pub fn set(&self, k: QKey, s: Script) {
        self.scripts.lock().unwrap().insert(k, s);
    }
    pub fn total(&self) -> usize {
        self.log.lock().unwrap().len()
    }
}

fn fnv(data: &[u8]) -> u32 {
    let mut h: u32 = 0x811c9dc5;
    for b in data {
        h ^= *b as u32;
        h = h.wrapping_mul(0x01000193);
    }
    h
}

/// The answer a question gets by default: makes "its own answer" checkable under any reordering.
pub fn answer_for(q: &dns::Question) -> dns::Rr {
    let mut d = vec![];
    for l in &q.name {
        d.extend(l.to_ascii_lowercase());
        d.push(b'.');
    }
    d.extend_from_slice(&q.qtype.to_be_bytes());
    let h = fnv(&d);
    dns::Rr {
        name: q.name.clone(),
        rtype: dns::T_A,
        class: 1,
        ttl: 300,
        rdata: dns::RData::Raw(h.to_be_bytes().to_vec()),
    }
}

fn build_reply(script: &Script, q: &dns::Message, wrong_id: bool, tc_only: bool) -> Vec<u8> {
    let qid = if wrong_id { q.header.id.wrapping_add(1) } else { q.header.id };
    match &script.reply {
        _ if tc_only => {
            let m = dns::Message {
                header: dns::Header {
                    id: qid,
                    qr: true,
                    rd: q.header.rd,
                    ra: true,
                    tc: true,
                    ..Default::default()
                },
                questions: q.questions.clone(),
                ..Default::default()
            };
            dns::encode(&m, dns::Compress::Off)
        }
        Reply::Default => {
            let m = dns::Message {
                header: dns::Header {
                    id: qid,
                    qr: true,
                    rd: q.header.rd,
                    ra: true,
                    ..Default::default()
                },
                questions: q.questions.clone(),
                answer: vec![answer_for(&q.questions[0])],
                ..Default::default()
            };
            dns::encode(&m, dns::Compress::All)
        }
        Reply::Model(m, c) => {
            let mut m = m.clone();
            m.header.id = qid;
            m.header.qr = true;
            m.questions = q.questions.clone();
            if script.question_rewrite > 0 {
                for qq in m.questions.iter_mut() {
                    for l in qq.name.iter_mut() {
                        l.make_ascii_lowercase();
                    }
                    if script.question_rewrite > 1 {
                        qq.qclass = 1;
                    }
                }
            }
            dns::encode(&m, *c)
        }
        Reply::Raw(b) => {
            let mut b = b.clone();
            if b.len() >= 2 {
                b[0] = (qid >> 8) as u8;
                b[1] = qid as u8;
            }
            b
        }
    }
}

pub struct Upstream {
    pub addr: IpAddr,
    pub state: Arc<UpState>,
}

impl Drop for Upstream {
    fn drop(&mut self) {
        self.state.stop.store(true, Ordering::Relaxed);
    }
}

impl Upstream {
    /// UDP + TCP on `addr`:53.
    pub fn start(addr: IpAddr) -> Result<Upstream, String> {
        let state: Arc<UpState> = Arc::new(UpState::default());
        let udp = UdpSocket::bind((addr, 53)).map_err(|e| format!("bind udp {}:53: {}", addr, e))?;
        udp.set_read_timeout(Some(Duration::from_millis(200))).unwrap();
        let tcp = TcpListener::bind((addr, 53)).map_err(|e| format!("bind tcp {}:53: {}", addr, e))?;
        tcp.set_nonblocking(true).unwrap();
        let st = state.clone();
        std::thread::spawn(move || {
            let mut buf = vec![0u8; 65536];
            while !st.stop.load(Ordering::Relaxed) {
                let (n, from) = match udp.recv_from(&mut buf) {
                    Ok(x) => x,
                    Err(_) => continue,
                };
                let raw = buf[..n].to_vec();
                let q = match dns::decode(&raw) {
                    Ok((m, _)) if m.questions.len() == 1 => m,
                    _ => continue,
                };
                let key = qkey(&q.questions[0]);
                let script = st.scripts.lock().unwrap().get(&key).cloned().unwrap_or_default();
                let idx = {
                    let mut c = st.udp_count.lock().unwrap();
                    let e = c.entry(key.clone()).or_insert(0);
                    *e += 1;
                    *e - 1
                };
                let dropped = script.drop_all || (idx < 32 && script.drop_mask & (1 << idx) != 0);
                st.log.lock().unwrap().push(Seen {
                    at: Instant::now(),
                    tcp: false,
                    key,
                    id: q.header.id,
                    rd: q.header.rd,
                    raw,
                    from,
                    answered: !dropped,
                });
                if dropped {
                    continue;
                }
                let first_answer = idx == script.drop_mask.trailing_ones();
                let mut bytes = build_reply(&script, &q, script.wrong_id_first && first_answer, script.tc_udp);
                if let (Some(limit), Reply::Model(m, c)) = (script.udp_truncate_to, &script.reply) {
                    if bytes.len() > limit {
                        let mut m = m.clone();
                        m.header.id = if script.wrong_id_first && first_answer { q.header.id.wrapping_add(1) } else { q.header.id };
                        m.header.qr = true;
                        m.header.tc = true;
                        m.questions = q.questions.clone();
                        loop {
                            let b = dns::encode(&m, *c);
                            if b.len() <= limit {
                                bytes = b;
                                break;
                            }
                            // drop about as many records from the end as the excess is worth
                            let total = m.answer.len() + m.authority.len() + m.additional.len();
                            if total == 0 {
                                bytes = b;
                                break;
                            }
                            let avg = (b.len() / total).max(1);
                            let mut drop = ((b.len() - limit) / avg).max(1);
                            while drop > 0 {
                                if m.additional.pop().is_none() && m.authority.pop().is_none() && m.answer.pop().is_none() {
                                    break;
                                }
                                drop -= 1;
                            }
                        }
                    }
                }
                let sock = udp.try_clone().unwrap();
                let copies = 1 + script.dup as usize;
                let delay = script.delay_ms;
                if delay == 0 {
                    for _ in 0..copies {
                        let _ = sock.send_to(&bytes, from);
                    }
                } else {
                    std::thread::spawn(move || {
                        std::thread::sleep(Duration::from_millis(delay));
                        for _ in 0..copies {
                            let _ = sock.send_to(&bytes, from);
                        }
                    });
                }
            }
        });
        let st = state.clone();
        std::thread::spawn(move || {
            while !st.stop.load(Ordering::Relaxed) {
                match tcp.accept() {
                    Ok((stream, from)) => {
                        let st = st.clone();
                        std::thread::spawn(move || tcp_conn(stream, from, st));
                    }
                    Err(_) => std::thread::sleep(Duration::from_millis(5)),
                }
            }
        });
        Ok(Upstream { addr, state })
    }
}

fn tcp_conn(mut stream: TcpStream, from: SocketAddr, st: Arc<UpState>) {
    let _ = stream.set_nonblocking(false);
    let idle = st.tcp_idle_close_ms.load(Ordering::Relaxed);
    let _ = stream.set_read_timeout(Some(if idle == 0 { Duration::from_secs(150) } else { Duration::from_millis(idle) }));
    let writer = Arc::new(Mutex::new(stream.try_clone().unwrap()));
    loop {
        let mut lb = [0u8; 2];
        if stream.read_exact(&mut lb).is_err() {
            return;
        }
        let l = u16::from_be_bytes(lb) as usize;
        let mut raw = vec![0u8; l];
        if stream.read_exact(&mut raw).is_err() {
            return;
        }
        let q = match dns::decode(&raw) {
            Ok((m, _)) if m.questions.len() == 1 => m,
            _ => continue,
        };
        let key = qkey(&q.questions[0]);
        let script = st.scripts.lock().unwrap().get(&key).cloned().unwrap_or_default();
        st.log.lock().unwrap().push(Seen {
            at: Instant::now(),
            tcp: true,
            key,
            id: q.header.id,
            rd: q.header.rd,
            raw,
            from,
            answered: !(script.tcp_silent || script.tcp_close),
        });
        if script.tcp_close {
            let _ = stream.shutdown(std::net::Shutdown::Both);
            return;
        }
        if script.tcp_silent {
            continue;
        }
        let bytes = build_reply(&script, &q, false, false);
        let w = writer.clone();
        let delay = script.delay_ms;
        let split = script.tcp_split;
        let partial = script.tcp_partial_dup_then_close;
        let send = move || {
            let mut out = Vec::with_capacity(bytes.len() + 2);
            out.extend_from_slice(&(bytes.len() as u16).to_be_bytes());
            out.extend_from_slice(&bytes);
            // one reply at a time on the stream, also while it is written in two pieces
            let mut g = w.lock().unwrap();
            match split {
                Some((cut, gap)) if cut > 0 && cut < out.len() => {
                    let _ = g.set_nodelay(true);
                    let _ = g.write_all(&out[..cut]);
                    let _ = g.flush();
                    std::thread::sleep(Duration::from_millis(gap));
                    let _ = g.write_all(&out[cut..]);
                }
                _ => {
                    let _ = g.write_all(&out);
                }
            }
            if let Some(k) = partial {
                let _ = g.flush();
                std::thread::sleep(Duration::from_millis(150));
                let _ = g.write_all(&out[..k.min(out.len())]);
                let _ = g.flush();
                std::thread::sleep(Duration::from_millis(50));
                let _ = g.shutdown(std::net::Shutdown::Both);
            }
        };
        if delay == 0 && split.is_none() && partial.is_none() {
            send();
        } else {
            std::thread::spawn(move || {
                std::thread::sleep(Duration::from_millis(delay));
                send();
            });
        }
    }
}

// ---------------------------------------------------------------------------------------------
// the server under test

static SEQ: AtomicU64 = AtomicU64::new(0);

pub struct DnsServer {
    child: std::process::Child,
    pub conf_path: String,
    pub stderr_path: String,
}

impl Drop for DnsServer {
    fn drop(&mut self) {
        let _ = self.child.kill();
        let _ = self.child.wait();
        let _ = std::fs::remove_file(&self.conf_path);
        let _ = std::fs::remove_file(&self.stderr_path);
    }
}

impl DnsServer {
    /// Start `erbium-dns` on the given configuration; `probe` is a TCP address of one of its
    /// listeners, `probe_name` a name the configuration forges NXDOMAIN for.
    pub fn start(config_yaml: &str, probe: SocketAddr, log_level: &str) -> Result<DnsServer, String> {
        let n = SEQ.fetch_add(1, Ordering::Relaxed);
        let base = format!("/dev/shm/vcheck-dns-{}-{}", std::process::id(), n);
        let conf_path = format!("{}.conf", base);
        let stderr_path = format!("{}.stderr", base);
        std::fs::write(&conf_path, config_yaml).map_err(|e| e.to_string())?;
        let errf = std::fs::File::create(&stderr_path).map_err(|e| e.to_string())?;
        let bin = format!("{}/erbium-dns", repo_bin_dir());
        let child = std::process::Command::new(&bin)
            .arg(&conf_path)
            .env("RUST_LOG", log_level)
            .env("RUST_BACKTRACE", "0")
            .stdin(std::process::Stdio::null())
            .stdout(std::process::Stdio::null())
            .stderr(errf)
            .spawn()
            .map_err(|e| format!("spawn {}: {}", bin, e))?;
        let mut srv = DnsServer {
            child,
            conf_path,
            stderr_path,
        };
        // ready when the TCP listener accepts
        let deadline = Instant::now() + Duration::from_secs(10);
        loop {
            if let Ok(Some(st)) = srv.child.try_wait() {
                return Err(format!("erbium-dns exited at start ({}): {}", st, srv.stderr_tail()));
            }
            if TcpStream::connect_timeout(&probe, Duration::from_millis(200)).is_ok() {
                break;
            }
            if Instant::now() > deadline {
                return Err(format!("erbium-dns not ready after 10 s: {}", srv.stderr_tail()));
            }
            std::thread::sleep(Duration::from_millis(10));
        }
        Ok(srv)
    }

    pub fn alive(&mut self) -> bool {
        matches!(self.child.try_wait(), Ok(None))
    }

    pub fn stderr_text(&self) -> String {
        std::fs::read_to_string(&self.stderr_path).unwrap_or_default()
    }

    pub fn stderr_tail(&self) -> String {
        let t = self.stderr_text();
        let n = t.len().saturating_sub(1500);
        let mut n = n;
        while !t.is_char_boundary(n) {
            n += 1;
        }
        t[n..].to_string()
    }

    /// Panic lines in the server's stderr: (message line, following location if any).
    pub fn panics(&self) -> Vec<String> {
        self.stderr_text()
            .lines()
            .filter(|l| l.contains("panicked at"))
            .map(|l| l.to_string())
            .collect()
    }
}

// ---------------------------------------------------------------------------------------------
// clients

#[derive(Clone, Debug)]
pub struct Got {
    pub bytes: Vec<u8>,
    pub from: SocketAddr,
    pub after: Duration,
}

/// Send one datagram from `src` (port 0 = ephemeral) to `dst`, collect every datagram that comes
/// back until `first_wait` passes without any, or `linger` after the first one.
pub fn udp_exchange(src: IpAddr, dst: SocketAddr, payload: &[u8], first_wait: Duration, linger: Duration) -> Result<Vec<Got>, String> {
    let sock = UdpSocket::bind((src, 0)).map_err(|e| format!("bind {}: {}", src, e))?;
    let start = Instant::now();
    sock.send_to(payload, dst).map_err(|e| format!("send to {}: {}", dst, e))?;
    let mut got = vec![];
    let mut buf = vec![0u8; 65536];
    let mut deadline = start + first_wait;
    loop {
        let now = Instant::now();
        if now >= deadline {
            break;
        }
        sock.set_read_timeout(Some(deadline - now)).unwrap();
        match sock.recv_from(&mut buf) {
            Ok((n, from)) => {
                got.push(Got {
                    bytes: buf[..n].to_vec(),
                    from,
                    after: start.elapsed(),
                });
                if got.len() == 1 {
                    deadline = Instant::now() + linger;
                }
            }
            Err(_) => break,
        }
    }
    Ok(got)
}

/// One query over TCP; `splits` are the sizes of the first writes (rest in one write).
pub fn tcp_exchange(src: Option<IpAddr>, dst: SocketAddr, payload: &[u8], splits: &[usize], wait: Duration) -> Result<Vec<Got>, String> {
    tcp_exchange_linger(src, dst, payload, splits, wait, Duration::from_millis(300))
}

pub fn tcp_exchange_linger(src: Option<IpAddr>, dst: SocketAddr, payload: &[u8], splits: &[usize], wait: Duration, linger: Duration) -> Result<Vec<Got>, String> {
    let start = Instant::now();
    let stream = match src {
        None => TcpStream::connect_timeout(&dst, Duration::from_secs(3)).map_err(|e| format!("connect {}: {}", dst, e))?,
        Some(s) => {
            // bind the source address first
            let domain = if dst.is_ipv4() { libc::AF_INET } else { libc::AF_INET6 };
            let fd = unsafe { libc::socket(domain, libc::SOCK_STREAM, 0) };
            if fd < 0 {
                return Err("socket".into());
            }
            use std::os::fd::FromRawFd;
            let sock = unsafe { std::net::TcpStream::from_raw_fd(fd) };
            let (sa, sl) = sockaddr_of(SocketAddr::new(s, 0));
            if unsafe { libc::bind(fd, &sa as *const _ as *const libc::sockaddr, sl) } != 0 {
                return Err(format!("bind {}: {}", s, std::io::Error::last_os_error()));
            }
            let (da, dl) = sockaddr_of(dst);
            if unsafe { libc::connect(fd, &da as *const _ as *const libc::sockaddr, dl) } != 0 {
                return Err(format!("connect {}: {}", dst, std::io::Error::last_os_error()));
            }
            sock
        }
    };
    let mut stream = stream;
    stream.set_nodelay(true).ok();
    let mut msg = Vec::with_capacity(payload.len() + 2);
    msg.extend_from_slice(&(payload.len() as u16).to_be_bytes());
    msg.extend_from_slice(payload);
    let mut off = 0;
    for s in splits {
        let e = (off + s).min(msg.len());
        if e > off {
            stream.write_all(&msg[off..e]).map_err(|e| e.to_string())?;
            stream.flush().ok();
            std::thread::sleep(Duration::from_millis(30));
            off = e;
        }
    }
    if off < msg.len() {
        stream.write_all(&msg[off..]).map_err(|e| e.to_string())?;
    }
    stream.set_read_timeout(Some(wait)).unwrap();
    let mut got = vec![];
    loop {
        let mut lb = [0u8; 2];
        if stream.read_exact(&mut lb).is_err() {
            break;
        }
        let l = u16::from_be_bytes(lb) as usize;
        let mut b = vec![0u8; l];
        if stream.read_exact(&mut b).is_err() {
            got.push(Got {
                bytes: vec![],
                from: dst,
                after: start.elapsed(),
            });
            break;
        }
        got.push(Got {
            bytes: b,
            from: dst,
            after: start.elapsed(),
        });
        // a second frame would be a duplicate: wait a little for it
        stream.set_read_timeout(Some(linger)).unwrap();
    }
    Ok(got)
}

fn sockaddr_of(a: SocketAddr) -> (libc::sockaddr_storage, libc::socklen_t) {
    let mut st: libc::sockaddr_storage = unsafe { std::mem::zeroed() };
    match a {
        SocketAddr::V4(v4) => {
            let sin = libc::sockaddr_in {
                sin_family: libc::AF_INET as libc::sa_family_t,
                sin_port: v4.port().to_be(),
                sin_addr: libc::in_addr {
                    s_addr: u32::from_ne_bytes(v4.ip().octets()),
                },
                sin_zero: [0; 8],
            };
            unsafe { std::ptr::write(&mut st as *mut _ as *mut libc::sockaddr_in, sin) };
            (st, std::mem::size_of::<libc::sockaddr_in>() as libc::socklen_t)
        }
        SocketAddr::V6(v6) => {
            let sin6 = libc::sockaddr_in6 {
                sin6_family: libc::AF_INET6 as libc::sa_family_t,
                sin6_port: v6.port().to_be(),
                sin6_flowinfo: 0,
                sin6_addr: libc::in6_addr {
                    s6_addr: v6.ip().octets(),
                },
                sin6_scope_id: 0,
            };
            unsafe { std::ptr::write(&mut st as *mut _ as *mut libc::sockaddr_in6, sin6) };
            (st, std::mem::size_of::<libc::sockaddr_in6>() as libc::socklen_t)
        }
    }
}

/// Configuration text for an erbium-dns instance.
pub fn dns_config(listeners: &[SocketAddr], routes_yaml: &str, acls_yaml: Option<&str>) -> String {
    let mut s = String::from("---\n");
    s.push_str("dns-listeners: [");
    s.push_str(
        &listeners
            .iter()
            .map(|l| format!("\"{}\"", l))
            .collect::<Vec<_>>()
            .join(", "),
    );
    s.push_str("]\n");
    match acls_yaml {
        Some(a) => s.push_str(a),
        None => s.push_str("acls:\n  - match-subnets: [\"0.0.0.0/0\", \"::/0\"]\n    apply-access: [dns-recursion]\n"),
    }
    s.push_str(routes_yaml);
    s
}

static UNIQ: AtomicU64 = AtomicU64::new(0);

/// A label no earlier query of this process used (keeps re-executions away from the cache).
pub fn unique_label() -> Vec<u8> {
    let n = UNIQ.fetch_add(1, Ordering::Relaxed);
    format!("u{}x{}", std::process::id() % 100000, n).into_bytes()
}
