//! WIRE-NET rig: the real `erbium` / `erbium-dhcp` binaries in a second network namespace, reached
//! over a veth pair; raw Ethernet frames on the client side; private tmpfs on /var/lib/erbium.

use crate::ethip;
use crate::netns::sh;
use crate::rfc2131 as wire;
use std::io::{Read, Write};
use std::net::{Ipv4Addr, Ipv6Addr};
use std::os::fd::{AsRawFd, FromRawFd, OwnedFd};
use std::sync::atomic::{AtomicU64, Ordering};
use std::time::{Duration, Instant};

pub const SRV_NS: &str = "vsrv";
pub const SRV4: Ipv4Addr = Ipv4Addr::new(10, 55, 0, 1);
pub const CLI4: [Ipv4Addr; 3] = [Ipv4Addr::new(10, 55, 0, 2), Ipv4Addr::new(10, 55, 0, 3), Ipv4Addr::new(10, 55, 0, 130)];
pub const LEASE_DB: &str = "/var/lib/erbium/leases.sqlite";
pub const CONTROL: &str = "/var/lib/erbium/control";

pub fn srv6() -> Ipv6Addr {
    "fd55::1".parse().unwrap()
}
pub fn cli6(i: usize) -> Ipv6Addr {
    ["fd55::2", "fd55::3", "fd55::8:1"][i % 3].parse().unwrap()
}

/// To be called once, after `enter_private_namespaces()`.
pub fn setup_topology() -> Result<(), String> {
    // private /run (named network namespaces live in /run/netns) and /var/lib
    sh("mount -t tmpfs tmpfs /run")?;
    sh("mkdir -p /run/netns")?;
    sh("mount -t tmpfs tmpfs /var/lib")?;
    sh("mkdir -p /var/lib/erbium")?;
    sh(&format!("ip netns add {}", SRV_NS))?;
    sh(&format!("ip link add cli0 type veth peer name srv0 netns {}", SRV_NS))?;
    sh("ip link set cli0 address 02:00:00:00:00:c1")?;
    sh("ip link set cli0 up")?;
    for a in CLI4 {
        sh(&format!("ip addr add {}/24 dev cli0", a))?;
    }
    for i in 0..3 {
        sh(&format!("ip -6 addr add {}/64 dev cli0 nodad", cli6(i)))?;
    }
    let ns = |c: &str| sh(&format!("ip netns exec {} {}", SRV_NS, c));
    ns("ip link set lo up")?;
    ns("ip link set srv0 address 02:00:00:00:00:51")?;
    ns("ip link set srv0 up")?;
    ns(&format!("ip addr add {}/24 dev srv0", SRV4))?;
    ns(&format!("ip -6 addr add {}/64 dev srv0 nodad", srv6()))?;
    let _ = ns("sysctl -q -w net.ipv6.conf.all.forwarding=1");
    // wait for the link-local addresses to leave the tentative state
    let deadline = Instant::now() + Duration::from_secs(5);
    loop {
        let t = ns("ip -6 addr show dev srv0").unwrap_or_default();
        let t2 = sh("ip -6 addr show dev cli0").unwrap_or_default();
        if !t.contains("tentative") && !t2.contains("tentative") && t.contains("fe80") {
            break;
        }
        if Instant::now() > deadline {
            break;
        }
        std::thread::sleep(Duration::from_millis(50));
    }
    Ok(())
}

static SEQ: AtomicU64 = AtomicU64::new(0);

pub struct NetServer {
    child: std::process::Child,
    pub conf_path: String,
    pub stderr_path: String,
    pub bin: String,
}

impl Drop for NetServer {
    fn drop(&mut self) {
        self.kill();
        let _ = std::fs::remove_file(&self.conf_path);
        let _ = std::fs::remove_file(&self.stderr_path);
    }
}

impl NetServer {
    /// `bin` = "erbium" | "erbium-dhcp" | "erbium-lldp".
    pub fn start(bin: &str, config_yaml: &str, log_level: &str) -> Result<NetServer, String> {
        let n = SEQ.fetch_add(1, Ordering::Relaxed);
        let base = format!("/dev/shm/vcheck-net-{}-{}", std::process::id(), n);
        let conf_path = format!("{}.conf", base);
        let stderr_path = format!("{}.stderr", base);
        std::fs::write(&conf_path, config_yaml).map_err(|e| e.to_string())?;
        let errf = std::fs::File::create(&stderr_path).map_err(|e| e.to_string())?;
        let outf = errf.try_clone().map_err(|e| e.to_string())?;
        let path = format!("{}/{}", crate::wire_dns::repo_bin_dir(), bin);
        let child = std::process::Command::new("ip")
            .args(["netns", "exec", SRV_NS, &path, &conf_path])
            .env("RUST_LOG", log_level)
            .env("RUST_BACKTRACE", "0")
            .stdin(std::process::Stdio::null())
            .stdout(outf)
            .stderr(errf)
            .spawn()
            .map_err(|e| format!("spawn {}: {}", path, e))?;
        Ok(NetServer {
            child,
            conf_path,
            stderr_path,
            bin: bin.to_string(),
        })
    }

    pub fn kill(&mut self) {
        let _ = self.child.kill();
        let _ = self.child.wait();
    }

    pub fn alive(&mut self) -> bool {
        matches!(self.child.try_wait(), Ok(None))
    }

    pub fn stderr_text(&self) -> String {
        std::fs::read_to_string(&self.stderr_path).unwrap_or_default()
    }

    pub fn stderr_tail(&self) -> String {
        let t = self.stderr_text();
        let mut n = t.len().saturating_sub(1500);
        while !t.is_char_boundary(n) {
            n += 1;
        }
        t[n..].to_string()
    }

    pub fn panics(&self) -> Vec<(String, String)> {
        let t = self.stderr_text();
        let lines: Vec<&str> = t.lines().collect();
        let mut out = vec![];
        for (i, l) in lines.iter().enumerate() {
            if l.contains("panicked at") {
                out.push((l.to_string(), lines.get(i + 1).unwrap_or(&"").to_string()));
            }
        }
        out
    }

    /// Wait until the DHCP service answers a DISCOVER (the last service to come up is HTTP, which
    /// is checked separately by callers that need it).
    pub fn wait_dhcp_ready(&mut self, raw: &RawIf) -> Result<(), String> {
        let deadline = Instant::now() + Duration::from_secs(15);
        let mut k = 0u32;
        loop {
            if !self.alive() {
                return Err(format!("{} exited at start: {}", self.bin, self.stderr_tail()));
            }
            k += 1;
            let mac = [0x02, 0xfe, 0, 0, (k >> 8) as u8, k as u8];
            let mut m = wire::Msg {
                xid: 0xfeed_0000 + k,
                flags: 0x8000,
                ..Default::default()
            };
            m.set_hw(&mac);
            m.options.push((wire::OPT_MSG_TYPE, vec![wire::DISCOVER]));
            if let Some(_r) = dhcp_exchange(raw, &m, Duration::from_millis(300)) {
                return Ok(());
            }
            if Instant::now() > deadline {
                return Err(format!("{} does not answer DHCP after 15 s: {}", self.bin, self.stderr_tail()));
            }
        }
    }
}

// ---------------------------------------------------------------------------------------------
// raw frames on cli0

pub struct RawIf {
    fd: OwnedFd,
    pub ifindex: i32,
}

fn ifindex(name: &str) -> Result<i32, String> {
    let c = std::ffi::CString::new(name).unwrap();
    let i = unsafe { libc::if_nametoindex(c.as_ptr()) };
    if i == 0 {
        Err(format!("no interface {}", name))
    } else {
        Ok(i as i32)
    }
}

impl RawIf {
    pub fn open(name: &str) -> Result<RawIf, String> {
        let idx = ifindex(name)?;
        let proto = (libc::ETH_P_ALL as u16).to_be() as i32;
        let fd = unsafe { libc::socket(libc::AF_PACKET, libc::SOCK_RAW, proto) };
        if fd < 0 {
            return Err(format!("AF_PACKET socket: {}", std::io::Error::last_os_error()));
        }
        let fd = unsafe { OwnedFd::from_raw_fd(fd) };
        let mut sll: libc::sockaddr_ll = unsafe { std::mem::zeroed() };
        sll.sll_family = libc::AF_PACKET as u16;
        sll.sll_protocol = (libc::ETH_P_ALL as u16).to_be();
        sll.sll_ifindex = idx;
        let r = unsafe {
            libc::bind(
                fd.as_raw_fd(),
                &sll as *const _ as *const libc::sockaddr,
                std::mem::size_of::<libc::sockaddr_ll>() as u32,
            )
        };
        if r != 0 {
            return Err(format!("bind AF_PACKET: {}", std::io::Error::last_os_error()));
        }
        Ok(RawIf { fd, ifindex: idx })
    }

    pub fn send(&self, frame: &[u8]) -> Result<(), String> {
        let r = unsafe { libc::send(self.fd.as_raw_fd(), frame.as_ptr() as *const _, frame.len(), 0) };
        if r < 0 {
            Err(format!("send frame: {}", std::io::Error::last_os_error()))
        } else {
            Ok(())
        }
    }

    /// Next frame within the timeout.
    pub fn recv(&self, timeout: Duration) -> Option<Vec<u8>> {
        let mut pfd = libc::pollfd {
            fd: self.fd.as_raw_fd(),
            events: libc::POLLIN,
            revents: 0,
        };
        let r = unsafe { libc::poll(&mut pfd, 1, timeout.as_millis() as i32) };
        if r <= 0 {
            return None;
        }
        let mut buf = vec![0u8; 65536];
        let n = unsafe { libc::recv(self.fd.as_raw_fd(), buf.as_mut_ptr() as *mut _, buf.len(), 0) };
        if n <= 0 {
            return None;
        }
        buf.truncate(n as usize);
        Some(buf)
    }

    pub fn drain(&self) {
        while self.recv(Duration::from_millis(0)).is_some() {}
    }
}

pub fn dhcp_frame(m: &wire::Msg) -> Vec<u8> {
    let mut src_mac = [0u8; 6];
    let hw = m.hw();
    for (i, b) in hw.iter().take(6).enumerate() {
        src_mac[i] = *b;
    }
    if hw.len() < 6 {
        src_mac = [0x02, 0x99, 0, 0, 0, hw.len() as u8];
    }
    ethip::build_udp4([0xff; 6], src_mac, Ipv4Addr::UNSPECIFIED, 68, Ipv4Addr::BROADCAST, 67, &m.encode())
}

#[derive(Clone, Debug)]
pub struct DhcpReplyFrame {
    pub frame: ethip::Udp4Frame,
    pub msg: wire::Msg,
    pub raw: Vec<u8>,
}

/// Collect DHCP server->client frames (UDP 67 -> 68) carrying transaction `xid` until timeout or
/// the first one.
pub fn recv_dhcp_reply(raw: &RawIf, xid: u32, timeout: Duration) -> Option<Result<DhcpReplyFrame, (String, String)>> {
    let deadline = Instant::now() + timeout;
    loop {
        let now = Instant::now();
        if now >= deadline {
            return None;
        }
        let f = raw.recv(deadline - now)?;
        if f.len() < 42 || f[12] != 0x08 || f[13] != 0x00 || f[23] != 17 {
            continue;
        }
        let ihl = (f[14] & 0x0f) as usize * 4;
        if f.len() < 14 + ihl + 8 {
            continue;
        }
        let sport = ((f[14 + ihl] as u16) << 8) | f[14 + ihl + 1] as u16;
        let dport = ((f[14 + ihl + 2] as u16) << 8) | f[14 + ihl + 3] as u16;
        if sport != 67 || dport != 68 {
            continue;
        }
        let payload = &f[14 + ihl + 8..];
        if payload.len() >= 8 && u32::from_be_bytes([payload[4], payload[5], payload[6], payload[7]]) != xid {
            continue;
        }
        return Some(match ethip::decode_udp4(&f) {
            Err(e) => Err(e),
            Ok(fr) => match wire::Msg::decode(&fr.payload) {
                Ok(msg) => Ok(DhcpReplyFrame {
                    frame: fr,
                    msg,
                    raw: f,
                }),
                Err(e) => Err(("dhcp-payload".into(), e)),
            },
        });
    }
}

pub fn dhcp_exchange(raw: &RawIf, m: &wire::Msg, timeout: Duration) -> Option<Result<DhcpReplyFrame, (String, String)>> {
    raw.send(&dhcp_frame(m)).ok()?;
    recv_dhcp_reply(raw, m.xid, timeout)
}

// ---------------------------------------------------------------------------------------------
// HTTP

#[derive(Clone, Debug)]
pub struct HttpResp {
    pub status: u16,
    pub body: Vec<u8>,
}

fn parse_http(resp: &[u8]) -> Option<HttpResp> {
    let pos = resp.windows(4).position(|w| w == b"\r\n\r\n")?;
    let head = String::from_utf8_lossy(&resp[..pos]).to_string();
    let status: u16 = head.split_whitespace().nth(1)?.parse().ok()?;
    let mut body = resp[pos + 4..].to_vec();
    if head.to_ascii_lowercase().contains("transfer-encoding: chunked") {
        let mut out = vec![];
        let mut i = 0;
        loop {
            let e = body[i..].windows(2).position(|w| w == b"\r\n")?;
            let n = usize::from_str_radix(String::from_utf8_lossy(&body[i..i + e]).trim(), 16).ok()?;
            i += e + 2;
            if n == 0 {
                break;
            }
            out.extend_from_slice(body.get(i..i + n)?);
            i += n + 2;
        }
        body = out;
    }
    Some(HttpResp { status, body })
}

fn http_on<S: Read + Write>(mut s: S, path: &str) -> Result<HttpResp, String> {
    // `path` may carry its own method ("POST /metrics"); a bare path is fetched with GET
    let req = if path.contains(' ') {
        format!("{} HTTP/1.1\r\nHost: erbium\r\nContent-Length: 0\r\nConnection: close\r\n\r\n", path)
    } else {
        format!("GET {} HTTP/1.1\r\nHost: erbium\r\nConnection: close\r\n\r\n", path)
    };
    s.write_all(req.as_bytes()).map_err(|e| format!("write: {}", e))?;
    let mut buf = vec![];
    let _ = s.read_to_end(&mut buf);
    parse_http(&buf).ok_or_else(|| format!("unparsable HTTP response ({} octets)", buf.len()))
}

/// Several GET requests on ONE connection (HTTP/1.1 keep-alive), each response read to its end
/// (Content-Length or chunked) before the next request is written.
pub fn http_tcp_seq(src: std::net::IpAddr, dst: std::net::SocketAddr, paths: &[&str]) -> Result<Vec<HttpResp>, String> {
    let mut s = socket2_connect(src, dst)?;
    s.set_read_timeout(Some(Duration::from_secs(5))).ok();
    let mut out = vec![];
    let mut pending: Vec<u8> = vec![];
    for p in paths {
        s.write_all(format!("GET {} HTTP/1.1\r\nHost: erbium\r\n\r\n", p).as_bytes()).map_err(|e| format!("write: {}", e))?;
        // head
        let head_end = loop {
            if let Some(pos) = pending.windows(4).position(|w| w == b"\r\n\r\n") {
                break pos;
            }
            let mut buf = [0u8; 4096];
            let n = s.read(&mut buf).map_err(|e| format!("read: {}", e))?;
            if n == 0 {
                return Err(format!("connection closed after {} response(s)", out.len()));
            }
            pending.extend_from_slice(&buf[..n]);
        };
        let head = String::from_utf8_lossy(&pending[..head_end]).to_ascii_lowercase();
        let status: u16 = head.split_whitespace().nth(1).and_then(|x| x.parse().ok()).ok_or("no status")?;
        let mut rest = pending[head_end + 4..].to_vec();
        let body;
        if head.contains("transfer-encoding: chunked") {
            // read until the terminating chunk
            loop {
                if rest.windows(5).any(|w| w == b"0\r\n\r\n") {
                    break;
                }
                let mut buf = [0u8; 4096];
                let n = s.read(&mut buf).map_err(|e| format!("read: {}", e))?;
                if n == 0 {
                    break;
                }
                rest.extend_from_slice(&buf[..n]);
            }
            let end = rest.windows(5).position(|w| w == b"0\r\n\r\n").map(|p| p + 5).unwrap_or(rest.len());
            body = rest[..end].to_vec();
            pending = rest[end..].to_vec();
        } else {
            let cl: usize = head
                .lines()
                .find_map(|l| l.strip_prefix("content-length:").map(|v| v.trim().parse::<usize>().unwrap_or(0)))
                .unwrap_or(0);
            while rest.len() < cl {
                let mut buf = [0u8; 4096];
                let n = s.read(&mut buf).map_err(|e| format!("read: {}", e))?;
                if n == 0 {
                    break;
                }
                rest.extend_from_slice(&buf[..n]);
            }
            let cl = cl.min(rest.len());
            body = rest[..cl].to_vec();
            pending = rest[cl..].to_vec();
        }
        out.push(HttpResp { status, body });
    }
    Ok(out)
}

pub fn http_tcp(src: std::net::IpAddr, dst: std::net::SocketAddr, path: &str) -> Result<HttpResp, String> {
    let sock = socket2_connect(src, dst)?;
    sock.set_read_timeout(Some(Duration::from_secs(5))).ok();
    http_on(sock, path)
}

fn socket2_connect(src: std::net::IpAddr, dst: std::net::SocketAddr) -> Result<std::net::TcpStream, String> {
    // bind the source address, then connect
    let domain = if dst.is_ipv4() { libc::AF_INET } else { libc::AF_INET6 };
    let fd = unsafe { libc::socket(domain, libc::SOCK_STREAM, 0) };
    if fd < 0 {
        return Err("socket".into());
    }
    let sock = unsafe { std::net::TcpStream::from_raw_fd(fd) };
    let (sa, sl) = sockaddr(std::net::SocketAddr::new(src, 0));
    if unsafe { libc::bind(fd, &sa as *const _ as *const libc::sockaddr, sl) } != 0 {
        return Err(format!("bind {}: {}", src, std::io::Error::last_os_error()));
    }
    let (da, dl) = sockaddr(dst);
    if unsafe { libc::connect(fd, &da as *const _ as *const libc::sockaddr, dl) } != 0 {
        return Err(format!("connect {}: {}", dst, std::io::Error::last_os_error()));
    }
    Ok(sock)
}

fn sockaddr(a: std::net::SocketAddr) -> (libc::sockaddr_storage, libc::socklen_t) {
    let mut st: libc::sockaddr_storage = unsafe { std::mem::zeroed() };
    match a {
        std::net::SocketAddr::V4(v4) => {
            let sin = libc::sockaddr_in {
                sin_family: libc::AF_INET as libc::sa_family_t,
                sin_port: v4.port().to_be(),
                sin_addr: libc::in_addr {
                    s_addr: u32::from_ne_bytes(v4.ip().octets()),
                },
                sin_zero: [0; 8],
            };
            unsafe { std::ptr::write(&mut st as *mut _ as *mut libc::sockaddr_in, sin) };
            (st, std::mem::size_of::<libc::sockaddr_in>() as libc::socklen_t)
        }
        std::net::SocketAddr::V6(v6) => {
            let sin6 = libc::sockaddr_in6 {
                sin6_family: libc::AF_INET6 as libc::sa_family_t,
                sin6_port: v6.port().to_be(),
                sin6_flowinfo: 0,
                sin6_addr: libc::in6_addr {
                    s6_addr: v6.ip().octets(),
                },
                sin6_scope_id: 0,
            };
            unsafe { std::ptr::write(&mut st as *mut _ as *mut libc::sockaddr_in6, sin6) };
            (st, std::mem::size_of::<libc::sockaddr_in6>() as libc::socklen_t)
        }
    }
}

/// `bound`: bind the client socket to a pathname first (the server then sees a named peer).
pub fn http_unix(path: &str, bound: Option<&str>, url: &str) -> Result<HttpResp, String> {
    use std::os::unix::net::UnixStream;
    let s = match bound {
        None => UnixStream::connect(path).map_err(|e| format!("connect {}: {}", path, e))?,
        Some(b) => {
            let _ = std::fs::remove_file(b);
            let fd = unsafe { libc::socket(libc::AF_UNIX, libc::SOCK_STREAM, 0) };
            if fd < 0 {
                return Err("socket".into());
            }
            let sock = unsafe { UnixStream::from_raw_fd(fd) };
            let mk = |p: &str| -> (libc::sockaddr_un, libc::socklen_t) {
                let mut a: libc::sockaddr_un = unsafe { std::mem::zeroed() };
                a.sun_family = libc::AF_UNIX as libc::sa_family_t;
                for (i, c) in p.bytes().enumerate().take(100) {
                    a.sun_path[i] = c as libc::c_char;
                }
                (a, (2 + p.len() + 1) as libc::socklen_t)
            };
            let (ba, bl) = mk(b);
            if unsafe { libc::bind(fd, &ba as *const _ as *const libc::sockaddr, bl) } != 0 {
                return Err(format!("bind {}: {}", b, std::io::Error::last_os_error()));
            }
            let (da, dl) = mk(path);
            if unsafe { libc::connect(fd, &da as *const _ as *const libc::sockaddr, dl) } != 0 {
                return Err(format!("connect {}: {}", path, std::io::Error::last_os_error()));
            }
            sock
        }
    };
    s.set_read_timeout(Some(Duration::from_secs(5))).ok();
    let r = http_on(s, url);
    if let Some(b) = bound {
        let _ = std::fs::remove_file(b);
    }
    r
}

/// Rows of the lease database, read with the harness's own connection.
pub fn db_rows() -> Result<Vec<crate::hist::Row>, String> {
    let conn = rusqlite::Connection::open_with_flags(LEASE_DB, rusqlite::OpenFlags::SQLITE_OPEN_READ_ONLY).map_err(|e| e.to_string())?;
    let mut st = conn
        .prepare("SELECT address, clientid, start, expiry, options FROM leases")
        .map_err(|e| e.to_string())?;
    let rows = st
        .query_map([], |r| {
            Ok(crate::hist::Row {
                ip: r.get::<_, String>(0)?.parse().unwrap_or(Ipv4Addr::UNSPECIFIED),
                client: r.get::<_, Option<Vec<u8>>>(1)?.unwrap_or_default(),
                start: r.get::<_, i64>(2)? as u32,
                expire: r.get::<_, i64>(3)? as u32,
                options: r.get::<_, Option<Vec<u8>>>(4)?.unwrap_or_default(),
            })
        })
        .map_err(|e| e.to_string())?
        .collect::<Result<Vec<_>, _>>()
        .map_err(|e| e.to_string())?;
    Ok(rows)
}
