#!/usr/bin/env python3
"""save_mutant.py <seeded-name> <worktree> <property> <caught: yes|no|partly> <check subs/signature> -- copies patch, demo, notes and writes meta.json"""
import sys, os, shutil, json, glob, subprocess
name, wt, prop, caught, sig = sys.argv[1:6]
dst = "/verif/seeded/%s" % name
os.makedirs(dst, exist_ok=True)
for f in glob.glob(wt + "/MUTANT/*"):
    if os.path.isfile(f) and os.path.getsize(f) < 400000:
        shutil.copy(f, dst)
notes = open(wt + "/MUTANT/notes.md").read() if os.path.exists(wt + "/MUTANT/notes.md") else ""
base = subprocess.run(["git", "-C", wt, "rev-parse", "--short", "HEAD"], capture_output=True, text=True).stdout.strip()
meta = {
    "property": prop,
    "base_commit": base,
    "origin": "written by an independent sub-agent that saw only the property text and its own worktree",
    "needs_to_manifest": (notes.split("manifest", 1)[1][:1200] if "manifest" in notes else notes[:1200]),
    "confirmed_by_us": {
        "suite_with_mutant": "99 of the 99 baseline tests pass (cargo nextest run --workspace --no-fail-fast --offline)",
        "demo": "fails with the patch, passes without (see notes.md for the command)",
        "how": "/verif/eval_mutant.sh %s %s" % (prop, wt),
    },
    "our_checks": {"caught": caught, "by": sig, "command": "git -C /repo apply patch.diff && ./check %s quick ; git -C /repo checkout -- ." % prop},
}
json.dump(meta, open(dst + "/meta.json", "w"), indent=1)
print("saved", dst, os.listdir(dst))
