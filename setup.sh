#!/bin/bash
# One-time offline build of the framework (harness + erbium binaries used by the wire tiers).
set -e
export CARGO_NET_OFFLINE=true
cd /verif/harness
cargo build --release --offline
if [ -f /verif/.wire-enabled ]; then
    cd /repo && cargo build --offline --bins --target-dir /verif/harness/target/repo
fi
echo setup done

# coverage-guided targets (thorough tiers of C05, C14, C19 only); a failure here only makes that
# tier unavailable, so it must not fail the setup
(cd /verif && CARGO_NET_OFFLINE=true cargo +nightly fuzz build --fuzz-dir /verif/fuzz >/dev/null 2>&1) || echo "note: libFuzzer targets not built"
