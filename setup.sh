#!/bin/bash
# One-time offline build of the framework (harness + erbium binaries used by the wire tiers).
set -e
export CARGO_NET_OFFLINE=true
cd /verif/harness
cargo build --release --offline
if [ -f /verif/.wire-enabled ]; then
    cd /repo && cargo build --offline --bins --target-dir /verif/harness/target/repo
fi
echo setup done
